// Command vcheck is the coordinator: it rewrites the library sources of /repo's
// current working tree, builds the harness binary through a go build overlay
// (the repository itself is never modified), runs the shards of one check in
// parallel, merges their results, applies the known-findings file, writes the
// evidence file and decides the exit code.
//
// exit 0: property held on everything explored (known findings are printed)
// exit 1: VIOLATION property=<id> replay=<path>
// exit 2: engine / build error (never a verdict)
package main

import (
	"bytes"
	"encoding/json"
	"fmt"
	"os"
	"os/exec"
	"path/filepath"
	"regexp"
	"runtime"
	"sort"
	"strconv"
	"strings"
	"sync"
	"time"

	"verif/internal/rewrite"
)

var (
	verifDir = envOr("VERIF_DIR", "/verif")
	repoDir  = envOr("VERIF_REPO", "/repo")
)

func envOr(k, d string) string {
	if v := os.Getenv(k); v != "" {
		return v
	}
	return d
}

type checkInfo struct {
	Race          bool
	QuickBudget   float64 // seconds of exploration per shard
	ThoroughBudge float64
	Level         string
	Rule          string
	Trusted       []string
	Assumptions   []string
}

var defaultTrusted = []string{
	"vrt cooperative scheduler and its sync/atomic/context/time/rand shims (engine self-checks run first)",
	"source rewriter (go/ast, go/types): go/chan/select -> vrt calls, semantics preserving",
	"in-memory transport / broker model / independent MQTT 3.1.1 codec in internal/verif/env",
	"the oracle of this check",
}

var checks = map[string]*checkInfo{}

func ci(id string) *checkInfo {
	c := checks[id]
	if c == nil {
		c = &checkInfo{}
	}
	if c.QuickBudget == 0 {
		c.QuickBudget = 75
	}
	if c.ThoroughBudge == 0 {
		c.ThoroughBudge = 900
	}
	if c.Level == "" {
		c.Level = "model_checking"
	}
	return c
}

func init() {
	// the four retry-queue checks are the heaviest quick tiers (40-55 s on 14 idle cores): leave head-room on a loaded machine
	for _, id := range []string{"C01", "C02", "C03", "C12"} {
		checks[id] = &checkInfo{QuickBudget: 150}
	}
	checks["C10"] = &checkInfo{Race: true}
	checks["C15"] = &checkInfo{Race: true}
	checks["SELF"] = &checkInfo{Race: true, QuickBudget: 60}
}

// degraded lists the white-box wrapper groups replaced by stubs in the last prepare().
var degraded []string

func fatal(format string, a ...any) {
	fmt.Fprintf(os.Stderr, "vcheck: "+format+"\n", a...)
	os.Exit(2)
}

func goEnv() []string {
	env := os.Environ()
	env = append(env, "GOFLAGS=-mod=mod", "GOPROXY=off", "GOSUMDB=off", "GOTOOLCHAIN=local", "CGO_ENABLED=0")
	return env
}

func modulePath() string {
	b, err := os.ReadFile(filepath.Join(repoDir, "go.mod"))
	if err != nil {
		fatal("reading go.mod: %v", err)
	}
	for _, l := range strings.Split(string(b), "\n") {
		l = strings.TrimSpace(l)
		if strings.HasPrefix(l, "module ") {
			return strings.TrimSpace(strings.TrimPrefix(l, "module "))
		}
	}
	fatal("no module line in go.mod")
	return ""
}

// prepare rewrites the sources and builds the harness binary; returns its path.
func prepare(work string, race bool) string {
	mod := modulePath()
	src := filepath.Join(work, "src")
	res, err := rewrite.Dir(repoDir, src, rewrite.Options{Module: mod, Race: race})
	if err != nil {
		fatal("rewrite: %v", err)
	}
	repl := map[string]string{}
	for o, n := range res.Files {
		repl[o] = n
	}
	// injected files
	ov := filepath.Join(verifDir, "overlay")
	filepath.Walk(filepath.Join(ov, "mqtt"), func(p string, fi os.FileInfo, err error) error {
		if err == nil && !fi.IsDir() && strings.HasSuffix(p, ".go") {
			repl[filepath.Join(repoDir, filepath.Base(p))] = p
		}
		return nil
	})
	filepath.Walk(filepath.Join(ov, "internal"), func(p string, fi os.FileInfo, err error) error {
		if err == nil && !fi.IsDir() && strings.HasSuffix(p, ".go") {
			rel, _ := filepath.Rel(ov, p)
			repl[filepath.Join(repoDir, rel)] = p
		}
		return nil
	})
	// conformance micro-programs: the same sources once rewritten, once unchanged
	spDir := filepath.Join(verifDir, "selfprog")
	if _, err := os.Stat(spDir); err == nil {
		spRes, err := rewrite.Dir(spDir, filepath.Join(work, "selfprog"), rewrite.Options{Module: mod})
		if err != nil {
			fatal("rewrite selfprog: %v", err)
		}
		for o, n := range spRes.Files {
			repl[filepath.Join(repoDir, "internal", "verif", "selfprog", filepath.Base(o))] = n
			repl[filepath.Join(repoDir, "internal", "verif", "selfprognative", filepath.Base(o))] = o
		}
	}
	ovf := filepath.Join(work, "overlay.json")
	bin := filepath.Join(work, "h")
	// The white-box wrapper groups (overlay/mqtt/zz_verif_<group>.go) reach into unexported names.
	// If one of them does not compile against this tree (an internal was renamed or reshaped) it is
	// replaced by its stub from overlay/mqtt_stubs and the build is repeated: the parts of the
	// checks that need the group are skipped (and say so) instead of every check failing to build.
	stubRe := regexp.MustCompile(`zz_verif_[a-z]+\.go`)
	degraded = nil
	for attempt := 0; ; attempt++ {
		ovb, _ := json.MarshalIndent(map[string]any{"Replace": repl}, "", " ")
		if err := os.WriteFile(ovf, ovb, 0o644); err != nil {
			fatal("%v", err)
		}
		cmd := exec.Command("go", "build", "-tags", "verif", "-overlay", ovf, "-o", bin, "./internal/verif/h")
		cmd.Dir = repoDir
		cmd.Env = goEnv()
		var eb bytes.Buffer
		cmd.Stderr = &eb
		cmd.Stdout = &eb
		err := cmd.Run()
		if err == nil {
			break
		}
		swapped := false
		for _, name := range stubRe.FindAllString(eb.String(), -1) {
			stub := filepath.Join(ov, "mqtt_stubs", name)
			key := filepath.Join(repoDir, name)
			if _, serr := os.Stat(stub); serr == nil && repl[key] != stub {
				repl[key] = stub
				degraded = append(degraded, strings.TrimSuffix(strings.TrimPrefix(name, "zz_verif_"), ".go"))
				swapped = true
			}
		}
		if !swapped || attempt > 8 {
			fatal("building harness against %s failed (this is a build error, not a verdict):\n%s", repoDir, eb.String())
		}
	}
	if len(degraded) > 0 {
		sort.Strings(degraded)
		fmt.Printf("note: white-box wrapper group(s) %v do not compile against this tree; the parts of the checks that need them are skipped\n", degraded)
	}
	if os.Getenv("VERIF_VERBOSE") != "" {
		fmt.Fprintf(os.Stderr, "rewrite: %s\n", rewrite.SortedCounts(res.Counts))
	}
	return bin
}

type shardResult struct {
	Check       string            `json:"check"`
	Shard       int               `json:"shard"`
	Scenarios   int64             `json:"scenarios"`
	Execs       int64             `json:"execs"`
	States      int64             `json:"states"`
	Transitions int64             `json:"transitions"`
	Evaluations int64             `json:"evaluations"`
	Distinct    int64             `json:"distinct_nontrivial"`
	MaxDepth    int               `json:"max_depth"`
	MaxPoints   int               `json:"max_points"`
	Pruned      int64             `json:"pruned"`
	CapHits     int64             `json:"cap_hits"`
	Violations  []json.RawMessage `json:"violations"`
	EnumViol    []json.RawMessage `json:"enum_violations"`
	Samples     []json.RawMessage `json:"samples"`
	Incomplete  []string          `json:"incomplete"`
	Bounds      map[string]any    `json:"bounds"`
	Parts       map[string]any    `json:"parts"`
	Notes       []string          `json:"notes"`
	EngineError string            `json:"engine_error"`
	TimedOut    bool              `json:"timed_out"`
	WallS       float64           `json:"wall_s"`
}

type finding struct {
	Property  string `json:"property"`
	KeyRe     string `json:"key_re"`
	Status    string `json:"status"` // open | fixed
	WhatFails string `json:"what_fails"`
	Commit    string `json:"commit,omitempty"`
	Line      string `json:"line,omitempty"`
}

func loadFindings() []finding {
	b, err := os.ReadFile(filepath.Join(verifDir, "known_findings.json"))
	if err != nil {
		return nil
	}
	var f struct {
		Findings []finding `json:"findings"`
	}
	if err := json.Unmarshal(b, &f); err != nil {
		fatal("known_findings.json: %v", err)
	}
	return f.Findings
}

func workDir() string {
	w := filepath.Join(verifDir, ".work", strconv.Itoa(os.Getpid()))
	os.RemoveAll(w)
	if err := os.MkdirAll(w, 0o755); err != nil {
		fatal("%v", err)
	}
	return w
}

func main() {
	if len(os.Args) < 2 {
		fatal("usage: vcheck run <ID> [--tier quick|thorough] | replay <file> | build")
	}
	switch os.Args[1] {
	case "run":
		os.Exit(cmdRun(os.Args[2:]))
	case "replay":
		os.Exit(cmdReplay(os.Args[2:]))
	case "build":
		w := workDir()
		bin := prepare(w, len(os.Args) > 2 && os.Args[2] == "race")
		fmt.Println(bin)
	default:
		fatal("unknown command %s", os.Args[1])
	}
}

func cmdReplay(args []string) int {
	if len(args) < 1 {
		fatal("usage: vcheck replay <file>")
	}
	b, err := os.ReadFile(args[0])
	if err != nil {
		fatal("%v", err)
	}
	var rp struct {
		Property string `json:"property"`
	}
	if err := json.Unmarshal(b, &rp); err != nil || rp.Property == "" {
		fatal("bad replay file: %v", err)
	}
	w := workDir()
	defer os.RemoveAll(w)
	bin := prepare(w, ci(rp.Property).Race)
	cmd := exec.Command(bin, "-check", rp.Property, "-replay", args[0])
	cmd.Stdout, cmd.Stderr = os.Stdout, os.Stderr
	cmd.Env = append(os.Environ(), "GOMAXPROCS=1")
	if err := cmd.Run(); err != nil {
		if ee, ok := err.(*exec.ExitError); ok {
			return ee.ExitCode()
		}
		return 2
	}
	return 0
}

func cmdRun(args []string) int {
	if len(args) < 1 {
		fatal("usage: vcheck run <ID> [--tier quick|thorough]")
	}
	id := args[0]
	tier := os.Getenv("VERIF_TIER")
	if tier == "" {
		tier = "quick"
	}
	workers := runtime.NumCPU() - 2
	if workers < 1 {
		workers = 1
	}
	var budget float64
	for i := 1; i < len(args); i++ {
		switch args[i] {
		case "--tier":
			i++
			tier = args[i]
		case "--workers":
			i++
			workers, _ = strconv.Atoi(args[i])
		case "--budget":
			i++
			budget, _ = strconv.ParseFloat(args[i], 64)
		}
	}
	if tier != "quick" && tier != "thorough" {
		fatal("bad tier %q", tier)
	}
	seed, _ := strconv.ParseInt(os.Getenv("VERIF_SEED"), 10, 64)
	info := ci(id)
	if budget == 0 {
		budget = info.QuickBudget
		if tier == "thorough" {
			budget = info.ThoroughBudge
		}
	}
	t0 := time.Now()
	w := workDir()
	defer os.RemoveAll(w)
	bin := prepare(w, info.Race)
	buildS := time.Since(t0).Seconds()

	results := make([]*shardResult, workers)
	errs := make([]string, workers)
	var wg sync.WaitGroup
	for i := 0; i < workers; i++ {
		wg.Add(1)
		go func(i int) {
			defer wg.Done()
			out := filepath.Join(w, fmt.Sprintf("res_%d.json", i))
			// shard order is permuted by the seed; nothing else is random
			sh := (i + int(seed%int64(workers)) + workers) % workers
			cmd := exec.Command("sh", "-c", fmt.Sprintf("ulimit -v 12000000; exec %s -check %s -tier %s -shard %d -nshards %d -budget %g -out %s", bin, id, tier, sh, workers, budget, out))
			marker := filepath.Join(w, fmt.Sprintf("marker_%d", i))
			cmd.Env = append(os.Environ(), "GOMAXPROCS=1", "GOMEMLIMIT=2GiB", "GOGC=400", "VERIF_MARKER="+marker)
			var eb bytes.Buffer
			cmd.Stderr = &eb
			cmd.Stdout = &eb
			done := make(chan error, 1)
			if err := cmd.Start(); err != nil {
				errs[i] = err.Error()
				return
			}
			go func() { done <- cmd.Wait() }()
			select {
			case err := <-done:
				if err != nil {
					// A harness that dies of a fatal runtime error (out of memory, stack overflow ...) while
					// evaluating an input it announced in its marker file has found a crash of the library.
					if mb, merr := os.ReadFile(marker); merr == nil && len(mb) > 4 {
						l := int(mb[0]) | int(mb[1])<<8 | int(mb[2])<<16 | int(mb[3])<<24
						if l > 0 && l <= len(mb)-4 {
							// key: the "fatal error:" / "panic:" line (stable), not the preceding
							// "runtime: ..." detail line, which carries byte counts that vary per run
							first := ""
							for _, pfx := range []string{"fatal error:", "panic:", "runtime:"} {
								for _, ln := range strings.Split(eb.String(), "\n") {
									if strings.HasPrefix(ln, pfx) {
										first = ln
										break
									}
								}
								if first != "" {
									break
								}
							}
							if first == "" {
								first = "fatal"
							}
							ev, _ := json.Marshal(map[string]any{"part": "crash", "key": "fatal-crash:" + first, "msg": "harness process died while evaluating the announced input " + string(mb[4:4+l]) + ":\n" + tail(eb.String(), 1500), "input": string(mb[4 : 4+l])})
							results[i] = &shardResult{Check: id, Shard: sh, EnumViol: []json.RawMessage{ev}, Incomplete: []string{fmt.Sprintf("shard %d crashed", sh)}}
							return
						}
					}
					if strings.Contains(err.Error(), "signal: killed") && eb.Len() == 0 {
						// killed from outside without a word (the kernel's out-of-memory killer on a
						// machine shared with other jobs): what this shard would have explored is
						// reported as not covered, it is neither a verdict nor a failure of the check
						fmt.Fprintf(os.Stderr, "note: worker %d was killed by the system (memory pressure?); its share of the scenarios is reported as not explored\n", sh)
						results[i] = &shardResult{Check: id, Shard: sh, Incomplete: []string{fmt.Sprintf("shard %d of %d was killed by the system before it could report; its scenarios were not explored", sh, workers)}}
						return
					}
					errs[i] = fmt.Sprintf("shard %d: %v\n%s", sh, err, tail(eb.String(), 4000))
					return
				}
			case <-time.After(time.Duration(budget*float64(time.Second)) + 120*time.Second):
				cmd.Process.Kill()
				errs[i] = fmt.Sprintf("shard %d: killed after hard timeout\n%s", sh, tail(eb.String(), 2000))
				return
			}
			b, err := os.ReadFile(out)
			if err != nil {
				errs[i] = fmt.Sprintf("shard %d: %v\n%s", sh, err, tail(eb.String(), 2000))
				return
			}
			var r shardResult
			if err := json.Unmarshal(b, &r); err != nil {
				errs[i] = fmt.Sprintf("shard %d: %v", sh, err)
				return
			}
			results[i] = &r
		}(i)
	}
	wg.Wait()
	for _, e := range errs {
		if e != "" {
			fmt.Fprintf(os.Stderr, "vcheck: worker failure (engine error, not a verdict):\n%s\n", e)
			return 2
		}
	}
	// merge
	var tot shardResult
	tot.Bounds = map[string]any{}
	tot.Parts = map[string]any{}
	noteSet := map[string]bool{}
	for _, r := range results {
		tot.Scenarios += r.Scenarios
		tot.Execs += r.Execs
		tot.States += r.States
		tot.Transitions += r.Transitions
		tot.Evaluations += r.Evaluations
		tot.Distinct += r.Distinct
		tot.Pruned += r.Pruned
		tot.CapHits += r.CapHits
		if r.MaxDepth > tot.MaxDepth {
			tot.MaxDepth = r.MaxDepth
		}
		if r.MaxPoints > tot.MaxPoints {
			tot.MaxPoints = r.MaxPoints
		}
		tot.Violations = append(tot.Violations, r.Violations...)
		tot.EnumViol = append(tot.EnumViol, r.EnumViol...)
		if len(tot.Samples) < 6 {
			tot.Samples = append(tot.Samples, r.Samples...)
		}
		tot.Incomplete = append(tot.Incomplete, r.Incomplete...)
		for k, v := range r.Bounds {
			tot.Bounds[k] = v
		}
		for k, v := range r.Parts {
			if old, ok := tot.Parts[k]; ok {
				if of, ok1 := old.(float64); ok1 {
					if nf, ok2 := v.(float64); ok2 {
						tot.Parts[k] = of + nf
						continue
					}
				}
			}
			tot.Parts[k] = v
		}
		for _, n := range r.Notes {
			if !noteSet[n] {
				noteSet[n] = true
				tot.Notes = append(tot.Notes, n)
			}
		}
		if r.EngineError != "" && tot.EngineError == "" {
			tot.EngineError = r.EngineError
		}
		tot.TimedOut = tot.TimedOut || r.TimedOut
	}
	if tot.EngineError != "" {
		fmt.Fprintf(os.Stderr, "vcheck: engine error (not a verdict): %s\n", tot.EngineError)
		return 2
	}
	if len(tot.Samples) > 6 {
		tot.Samples = tot.Samples[:6]
	}

	// violations vs known findings
	findings := loadFindings()
	type viol struct {
		Key, Msg string
		Raw      json.RawMessage
	}
	var all []viol
	for _, raw := range tot.Violations {
		var v struct {
			Key string `json:"key"`
			Msg string `json:"msg"`
		}
		json.Unmarshal(raw, &v)
		all = append(all, viol{v.Key, v.Msg, raw})
	}
	for _, raw := range tot.EnumViol {
		var v struct {
			Part string `json:"part"`
			Key  string `json:"key"`
			Msg  string `json:"msg"`
		}
		json.Unmarshal(raw, &v)
		all = append(all, viol{v.Part + ":" + v.Key, v.Msg, raw})
	}
	sort.SliceStable(all, func(i, j int) bool { return all[i].Key < all[j].Key })
	knownPrinted := map[string]bool{}
	newKeys := map[string]bool{}
	exit := 0
	os.MkdirAll(filepath.Join(verifDir, "replays"), 0o755)
	nviol := 0
	var violSummaries []any
	for _, v := range all {
		matched := false
		for _, f := range findings {
			if f.Property != id || f.Status != "open" {
				continue
			}
			re, err := regexp.Compile(f.KeyRe)
			if err != nil {
				fatal("known_findings.json: bad key_re %q", f.KeyRe)
			}
			if re.MatchString(v.Key) {
				matched = true
				if !knownPrinted[f.KeyRe] {
					knownPrinted[f.KeyRe] = true
					fmt.Printf("KNOWN-FINDING: property=%s %s\n", id, f.WhatFails)
				}
				break
			}
		}
		if matched {
			continue
		}
		if newKeys[v.Key] {
			continue
		}
		newKeys[v.Key] = true
		nviol++
		rp := filepath.Join(verifDir, "replays", fmt.Sprintf("%s-%s-%d.json", id, tier, nviol))
		var m map[string]any
		json.Unmarshal(v.Raw, &m)
		if m == nil {
			m = map[string]any{}
		}
		m["property"] = id
		m["tier"] = tier
		mb, _ := json.MarshalIndent(m, "", " ")
		os.WriteFile(rp, mb, 0o644)
		fmt.Printf("VIOLATION property=%s replay=%s\n", id, rp)
		fmt.Printf("  key: %s\n  %s\n", v.Key, indent(tail(v.Msg, 3000)))
		if len(violSummaries) < 10 {
			violSummaries = append(violSummaries, map[string]any{"key": v.Key, "msg": tail(v.Msg, 600), "replay": rp})
		}
		exit = 1
	}

	exhaustive := !tot.TimedOut && len(tot.Incomplete) == 0 && tot.CapHits == 0
	cov := map[string]any{
		"evaluations":         tot.Execs + tot.Evaluations,
		"distinct_nontrivial": tot.Distinct,
		"rule":                ruleFor(id, info),
		"samples":             tot.Samples,
		"exhaustive":          exhaustive,
		"scenarios":           tot.Scenarios,
		"executions":          tot.Execs,
		"enumerated_inputs":   tot.Evaluations,
		"max_depth_steps":     tot.MaxDepth,
		"max_choice_points":   tot.MaxPoints,
		"cache_prunes":        tot.Pruned,
		"step_cap_hits":       tot.CapHits,
		"bounds":              tot.Bounds,
		"parts":               tot.Parts,
		"incomplete":          tot.Incomplete,
		"notes":               tot.Notes,
		"trusted_base":        defaultTrusted,
		"workers":             workers,
		"budget_s_per_shard":  budget,
		"build_s":             buildS,
		"known_findings_seen": len(knownPrinted),
		"violation_summaries": violSummaries,
		"whitebox_groups_unavailable": degraded,
	}
	if tot.States > 0 {
		cov["states"] = tot.States
		cov["transitions"] = tot.Transitions
		cov["traces_validated_against_impl"] = tot.Execs
	}
	if len(tot.Samples) == 0 {
		cov["samples"] = []any{"(no sample recorded)"}
	}
	ev := map[string]any{
		"property_id": id,
		"tier":        tier,
		"seed":        seed,
		"level":       info.Level,
		"coverage":    cov,
		"assumptions": append([]string{
			"the explored transition system is the implementation itself (all non-test .go files of /repo's working tree, re-instrumented at this run); only the environment (transport, broker, clock) and the oracle are models",
			"bounds listed under coverage.bounds; nothing above a completed bound is claimed",
		}, info.Assumptions...),
		"wall_s":     time.Since(t0).Seconds(),
		"violations": nviol,
	}
	eb, _ := json.MarshalIndent(ev, "", " ")
	// VERIF_EVIDENCE_DIR: runs against a changed scratch copy (tools/try_mutant.sh) must not overwrite the
	// evidence of the tree under check.
	evDir := envOr("VERIF_EVIDENCE_DIR", filepath.Join(verifDir, "evidence"))
	os.MkdirAll(evDir, 0o755)
	if id != "SELF" {
		if err := os.WriteFile(filepath.Join(evDir, id+".json"), eb, 0o644); err != nil {
			fatal("%v", err)
		}
		// a copy per tier, so that the record of the last thorough run survives later quick runs
		os.MkdirAll(filepath.Join(evDir, tier), 0o755)
		os.WriteFile(filepath.Join(evDir, tier, id+".json"), eb, 0o644)
	}
	fmt.Printf("%s tier=%s scenarios=%d executions=%d states=%d transitions=%d enumerated=%d distinct_nontrivial=%d exhaustive=%v violations=%d known=%d wall=%.1fs\n",
		id, tier, tot.Scenarios, tot.Execs, tot.States, tot.Transitions, tot.Evaluations, tot.Distinct, exhaustive, nviol, len(knownPrinted), time.Since(t0).Seconds())
	if len(tot.Incomplete) > 0 {
		fmt.Printf("  not completed within budget (exhaustive=false): %d scenario(s), e.g. %s\n", len(tot.Incomplete), tot.Incomplete[0])
	}
	return exit
}

func ruleFor(id string, info *checkInfo) string {
	if info.Rule != "" {
		return info.Rule
	}
	return "every scenario (workload x configuration) of the check is explored exhaustively by a stateless DFS over choice sequences of the real, rewritten implementation under the vrt scheduler, within the deviation budget in bounds; evaluations = executions + enumerated inputs; distinct_nontrivial = distinct final observations (happens-before fingerprint of the final state incl. wire trace) among executions with >=1 deviation from the default schedule/environment, plus distinct enumerated inputs on which the reference takes a non-default branch; states = distinct happens-before fingerprints at choice points; transitions = scheduling steps executed"
}

func tail(s string, n int) string {
	if len(s) > n {
		return s[:n] + "…"
	}
	return s
}

func indent(s string) string { return strings.ReplaceAll(s, "\n", "\n  ") }
