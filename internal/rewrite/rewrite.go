// Package rewrite turns the library's Go sources into semantically equivalent
// sources whose concurrency primitives (go statements, channel operations,
// select, sync, sync/atomic, context, time, math/rand) are served by the vrt
// cooperative scheduler.  Stdlib only.
package rewrite

import (
	"bytes"
	"fmt"
	"go/ast"
	"go/build"
	"go/importer"
	"go/parser"
	"go/printer"
	"go/token"
	"go/types"
	"os"
	"path/filepath"
	"reflect"
	"sort"
	"strconv"
	"strings"
)

// Options selects the instrumentation.
type Options struct {
	Module string // module path of the repository
	Race   bool   // instrument memory accesses for the race monitor / fine-grained mode
}

// Result describes what was rewritten.
type Result struct {
	Files  map[string]string // original path -> rewritten path
	Counts map[string]int
}

var shimOf = map[string]string{
	"sync":        "sync",
	"sync/atomic": "atomic",
	"context":     "context",
	"time":        "time",
	"math/rand":   "rand",
}

type rw struct {
	fset   *token.FileSet
	info   *types.Info
	opt    Options
	n      int
	counts map[string]int
	used   bool
	file   *ast.File
	err    error
	fname  string
	// race instrumentation plan (filled by planRace before the rewrite)
	selPlan map[*ast.SelectorExpr]*accPlan
	idPlan  map[*ast.Ident]*accPlan
	idxPlan map[*ast.IndexExpr]*accPlan
	mapPlan map[ast.Expr]*accPlan // map-typed operand expressions of index/delete/len/range
}

type accPlan struct {
	name  string
	write bool
	site  ast.Expr // computed on the original AST (positions of rewritten children are lost)
}

const vrtName = "__vrt"

// Dir rewrites every non-test .go file of package directory dir into outDir.
func Dir(dir, outDir string, opt Options) (*Result, error) {
	fset := token.NewFileSet()
	ents, err := os.ReadDir(dir)
	if err != nil {
		return nil, err
	}
	var files []*ast.File
	var paths []string
	ctx := build.Default
	ctx.BuildTags = append(ctx.BuildTags, "verif")
	for _, e := range ents {
		n := e.Name()
		if e.IsDir() || !strings.HasSuffix(n, ".go") || strings.HasSuffix(n, "_test.go") {
			continue
		}
		ok, err := ctx.MatchFile(dir, n)
		if err != nil {
			return nil, err
		}
		if !ok {
			continue
		}
		p := filepath.Join(dir, n)
		f, err := parser.ParseFile(fset, p, nil, parser.ParseComments)
		if err != nil {
			return nil, err
		}
		files = append(files, f)
		paths = append(paths, p)
	}
	if len(files) == 0 {
		return nil, fmt.Errorf("no Go files in %s", dir)
	}
	info := &types.Info{
		Types:      map[ast.Expr]types.TypeAndValue{},
		Uses:       map[*ast.Ident]types.Object{},
		Defs:       map[*ast.Ident]types.Object{},
		Selections: map[*ast.SelectorExpr]*types.Selection{},
	}
	conf := types.Config{Importer: importer.ForCompiler(fset, "source", nil), Error: func(err error) {}}
	cwd, _ := os.Getwd()
	os.Chdir(dir)
	_, terr := conf.Check(opt.Module, fset, files, info)
	os.Chdir(cwd)
	if terr != nil {
		return nil, fmt.Errorf("type-checking %s: %v", dir, terr)
	}
	res := &Result{Files: map[string]string{}, Counts: map[string]int{}}
	if err := os.MkdirAll(outDir, 0o755); err != nil {
		return nil, err
	}
	for i, f := range files {
		r := &rw{fset: fset, info: info, opt: opt, counts: res.Counts, file: f, fname: filepath.Base(paths[i])}
		r.rewriteFile(f)
		if r.err != nil {
			return nil, fmt.Errorf("%s: %v", paths[i], r.err)
		}
		var buf bytes.Buffer
		if err := (&printer.Config{Mode: printer.UseSpaces | printer.TabIndent, Tabwidth: 8}).Fprint(&buf, fset, f); err != nil {
			return nil, err
		}
		out := filepath.Join(outDir, filepath.Base(paths[i]))
		if err := os.WriteFile(out, buf.Bytes(), 0o644); err != nil {
			return nil, err
		}
		res.Files[paths[i]] = out
	}
	return res, nil
}

func (r *rw) fail(n ast.Node, format string, a ...any) {
	if r.err == nil {
		r.err = fmt.Errorf("%s: %s", r.fset.Position(n.Pos()), fmt.Sprintf(format, a...))
	}
}

func (r *rw) tmp() *ast.Ident {
	r.n++
	return ast.NewIdent("_vr" + strconv.Itoa(r.n))
}

func (r *rw) vrt(name string) ast.Expr {
	r.used = true
	return &ast.SelectorExpr{X: ast.NewIdent(vrtName), Sel: ast.NewIdent(name)}
}

func call(fun ast.Expr, args ...ast.Expr) *ast.CallExpr {
	return &ast.CallExpr{Fun: fun, Args: args}
}

func (r *rw) site(n ast.Node) ast.Expr {
	p := r.fset.Position(n.Pos())
	return &ast.BasicLit{Kind: token.STRING, Value: strconv.Quote(fmt.Sprintf("%s@%s:%d", r.funcAt(n.Pos()), filepath.Base(p.Filename), p.Line))}
}

// funcAt names the top-level function enclosing pos ("Type.Method" or "func").
func (r *rw) funcAt(pos token.Pos) string {
	for _, d := range r.file.Decls {
		fd, ok := d.(*ast.FuncDecl)
		if !ok || pos < fd.Pos() || pos >= fd.End() {
			continue
		}
		if fd.Recv != nil && len(fd.Recv.List) > 0 {
			return exprString(fd.Recv.List[0].Type) + "." + fd.Name.Name
		}
		return fd.Name.Name
	}
	return "?"
}

func (r *rw) rewriteFile(f *ast.File) {
	// keep only comments before the package clause (build constraints, licence)
	var keep []*ast.CommentGroup
	for _, cg := range f.Comments {
		if cg.End() < f.Package {
			keep = append(keep, cg)
		}
	}
	f.Comments = keep
	f.Doc = nil
	for _, d := range f.Decls {
		if gd, ok := d.(*ast.GenDecl); ok {
			gd.Doc = nil
			for _, s := range gd.Specs {
				switch s := s.(type) {
				case *ast.ImportSpec:
					s.Doc, s.Comment = nil, nil
					p, _ := strconv.Unquote(s.Path.Value)
					if sh, ok := shimOf[p]; ok {
						s.Path = &ast.BasicLit{Kind: token.STRING, Value: strconv.Quote(r.opt.Module + "/internal/verif/shim/" + sh), ValuePos: s.Path.ValuePos}
						r.counts["import:"+p]++
					}
				case *ast.ValueSpec:
					s.Doc, s.Comment = nil, nil
				case *ast.TypeSpec:
					s.Doc, s.Comment = nil, nil
				}
			}
		}
		if fd, ok := d.(*ast.FuncDecl); ok {
			fd.Doc = nil
		}
	}
	stripFieldComments(f)
	if r.opt.Race {
		r.planRace(f)
	}
	for i := range f.Decls {
		r.walk(reflect.ValueOf(&f.Decls[i]).Elem())
	}
	if r.used {
		imp := &ast.GenDecl{Tok: token.IMPORT, Specs: []ast.Spec{&ast.ImportSpec{
			Name: ast.NewIdent(vrtName),
			Path: &ast.BasicLit{Kind: token.STRING, Value: strconv.Quote(r.opt.Module + "/internal/verif/vrt")},
		}}}
		f.Decls = append([]ast.Decl{imp}, f.Decls...)
	}
}

func stripFieldComments(f *ast.File) {
	ast.Inspect(f, func(n ast.Node) bool {
		if fl, ok := n.(*ast.Field); ok {
			fl.Doc, fl.Comment = nil, nil
		}
		return true
	})
}

var (
	exprType = reflect.TypeOf((*ast.Expr)(nil)).Elem()
	stmtType = reflect.TypeOf((*ast.Stmt)(nil)).Elem()
	objType  = reflect.TypeOf((*ast.Object)(nil))
	scpType  = reflect.TypeOf((*ast.Scope)(nil))
)

// walk rewrites the AST below v (addressable) in post-order, with pre-order hooks
// for the statements that must see their original operands.
func (r *rw) walk(v reflect.Value) {
	if r.err != nil {
		return
	}
	switch v.Kind() {
	case reflect.Interface:
		if v.IsNil() {
			return
		}
		if v.Type() == stmtType {
			if ns, done := r.preStmt(v.Interface().(ast.Stmt)); done {
				v.Set(reflect.ValueOf(ns))
				return
			}
		}
		if v.Type() == exprType {
			if ne, done := r.preExpr(v.Interface().(ast.Expr)); done {
				v.Set(reflect.ValueOf(ne))
				return
			}
		}
		r.walk(v.Elem())
		if v.Type() == exprType {
			ne := r.postExpr(v.Interface().(ast.Expr))
			v.Set(reflect.ValueOf(ne))
		} else if v.Type() == stmtType {
			ns := r.postStmt(v.Interface().(ast.Stmt))
			v.Set(reflect.ValueOf(ns))
		}
	case reflect.Ptr:
		if v.IsNil() || v.Type() == objType || v.Type() == scpType {
			return
		}
		r.walk(v.Elem())
	case reflect.Struct:
		for i := 0; i < v.NumField(); i++ {
			f := v.Field(i)
			if f.CanSet() {
				r.walk(f)
			}
		}
	case reflect.Slice:
		for i := 0; i < v.Len(); i++ {
			r.walk(v.Index(i))
		}
	}
}

func (r *rw) walkExpr(e *ast.Expr)  { r.walk(reflect.ValueOf(e).Elem()) }
func (r *rw) walkStmts(s *[]ast.Stmt) { r.walk(reflect.ValueOf(s).Elem()) }

func isRecv(e ast.Expr) (*ast.UnaryExpr, bool) {
	for {
		p, ok := e.(*ast.ParenExpr)
		if !ok {
			break
		}
		e = p.X
	}
	u, ok := e.(*ast.UnaryExpr)
	if ok && u.Op == token.ARROW {
		return u, true
	}
	return nil, false
}

func (r *rw) isChan(e ast.Expr) bool {
	t := r.info.TypeOf(e)
	if t == nil {
		return false
	}
	_, ok := t.Underlying().(*types.Chan)
	return ok
}

func (r *rw) isBuiltin(fun ast.Expr, name string) bool {
	id, ok := fun.(*ast.Ident)
	if !ok || id.Name != name {
		return false
	}
	_, ok = r.info.Uses[id].(*types.Builtin)
	return ok
}

// preExpr handles expressions that must be rewritten before their children.
func (r *rw) preExpr(e ast.Expr) (ast.Expr, bool) {
	return nil, false
}

// postExpr rewrites an expression whose children were already rewritten.
func (r *rw) postExpr(e ast.Expr) ast.Expr {
	if r.opt.Race {
		if ne := r.raceWrap(e); ne != nil {
			return ne
		}
	}
	switch x := e.(type) {
	case *ast.UnaryExpr:
		if x.Op == token.ARROW {
			r.counts["recv"]++
			return call(r.vrt("Recv"), x.X)
		}
	case *ast.CallExpr:
		if len(x.Args) == 1 {
			if r.isBuiltin(x.Fun, "close") {
				r.counts["close"]++
				return call(r.vrt("Close"), x.Args[0])
			}
			if (r.isBuiltin(x.Fun, "len")) && r.isChanArg(x.Args[0]) {
				r.counts["len"]++
				return call(r.vrt("Len"), x.Args[0])
			}
		}
	}
	return e
}

// isChanArg: the argument may already have been rewritten; only plain (unrewritten) expressions carry types.
func (r *rw) isChanArg(e ast.Expr) bool {
	return r.isChan(e)
}

func (r *rw) postStmt(s ast.Stmt) ast.Stmt {
	switch x := s.(type) {
	case *ast.DeferStmt:
		// DeferStmt.Call is a *ast.CallExpr, not an ast.Expr slot, so postExpr never sees the call
		// itself: `defer close(ch)` must become `defer vrt.Close(ch)` here (the operand is evaluated
		// at the defer statement in both forms)
		if len(x.Call.Args) == 1 && r.isBuiltin(x.Call.Fun, "close") {
			r.counts["close"]++
			x.Call = call(r.vrt("Close"), x.Call.Args[0])
		}
		return x
	case *ast.SendStmt:
		r.counts["send"]++
		return &ast.ExprStmt{X: call(&ast.SelectorExpr{X: call(r.vrt("SendTo"), x.Chan), Sel: ast.NewIdent("V")}, x.Value)}
	}
	return s
}

// preStmt handles statements that need their original operands.
func (r *rw) preStmt(s ast.Stmt) (ast.Stmt, bool) {
	switch x := s.(type) {
	case *ast.AssignStmt:
		if len(x.Lhs) == 2 && len(x.Rhs) == 1 {
			if u, ok := isRecv(x.Rhs[0]); ok {
				r.walkExpr(&u.X)
				for i := range x.Lhs {
					r.walkExpr(&x.Lhs[i])
				}
				r.counts["recv"]++
				x.Rhs[0] = call(r.vrt("Recv2"), u.X)
				return x, true
			}
		}
	case *ast.DeclStmt:
		if gd, ok := x.Decl.(*ast.GenDecl); ok && gd.Tok == token.VAR {
			for _, sp := range gd.Specs {
				vs := sp.(*ast.ValueSpec)
				if len(vs.Names) == 2 && len(vs.Values) == 1 {
					if u, ok := isRecv(vs.Values[0]); ok {
						r.walkExpr(&u.X)
						r.counts["recv"]++
						vs.Values[0] = call(r.vrt("Recv2"), u.X)
					}
				}
			}
		}
		return nil, false
	case *ast.GoStmt:
		return r.goStmt(x), true
	case *ast.SelectStmt:
		return r.selectStmt(x, nil), true
	case *ast.LabeledStmt:
		if sel, ok := x.Stmt.(*ast.SelectStmt); ok {
			return r.selectStmt(sel, x.Label), true
		}
		if rs, ok := x.Stmt.(*ast.RangeStmt); ok && r.isChan(rs.X) {
			return r.rangeChan(rs, x.Label), true
		}
	case *ast.RangeStmt:
		if r.isChan(x.X) {
			return r.rangeChan(x, nil), true
		}
		if r.isMap(x.X) {
			r.rangeMap(x)
			return nil, false // continue with the generic walk of the (modified) statement
		}
	}
	return nil, false
}

func (r *rw) isMap(e ast.Expr) bool {
	t := r.info.TypeOf(e)
	if t == nil {
		return false
	}
	_, ok := t.Underlying().(*types.Map)
	return ok
}

// rangeMap makes map iteration order an engine decision: `for k, v := range m {B}` becomes
// `for _, _e := range vrt.MapEntries(m) { k, v, _ok := _e.Get(); if !_ok {continue}; B }`
// (entries deleted before they are reached are skipped, as in Go).
func (r *rw) rangeMap(rs *ast.RangeStmt) {
	r.counts["rangemap"]++
	ent := r.tmp()
	ok := r.tmp()
	var k, v ast.Expr = ast.NewIdent("_"), ast.NewIdent("_")
	if rs.Key != nil {
		k = rs.Key
	}
	if rs.Value != nil {
		v = rs.Value
	}
	var pre []ast.Stmt
	tok := token.DEFINE
	if rs.Tok == token.ASSIGN {
		tok = token.ASSIGN
		pre = append(pre, &ast.DeclStmt{Decl: &ast.GenDecl{Tok: token.VAR, Specs: []ast.Spec{&ast.ValueSpec{Names: []*ast.Ident{ok}, Type: ast.NewIdent("bool")}}}})
	}
	get := &ast.AssignStmt{Lhs: []ast.Expr{k, v, ok}, Tok: tok, Rhs: []ast.Expr{call(&ast.SelectorExpr{X: ent, Sel: ast.NewIdent("Get")})}}
	skip := &ast.IfStmt{Cond: &ast.UnaryExpr{Op: token.NOT, X: ok}, Body: &ast.BlockStmt{List: []ast.Stmt{&ast.BranchStmt{Tok: token.CONTINUE}}}}
	pre = append(pre, get, skip)
	rs.Body.List = append(pre, rs.Body.List...)
	rs.Key = ast.NewIdent("_")
	rs.Value = ent
	rs.Tok = token.DEFINE
	rs.X = call(r.vrt("MapEntries"), rs.X)
}

func (r *rw) isConstOrNil(e ast.Expr) bool {
	tv, ok := r.info.Types[e]
	if !ok {
		return false
	}
	return tv.Value != nil || tv.IsNil()
}

func (r *rw) goStmt(g *ast.GoStmt) ast.Stmt {
	r.counts["go"]++
	c := g.Call
	name := &ast.BasicLit{Kind: token.STRING, Value: strconv.Quote(r.goName(g))}
	if tv, ok := r.info.Types[c.Fun]; ok && tv.IsType() {
		r.fail(g, "go statement with a conversion")
		return g
	}
	if id, ok := c.Fun.(*ast.Ident); ok {
		if _, isB := r.info.Uses[id].(*types.Builtin); isB {
			// `go close(ch)` (and other builtins): operands are evaluated now, the builtin runs in the task
			var pre []ast.Stmt
			args := make([]ast.Expr, len(c.Args))
			for i := range c.Args {
				if tv, ok := r.info.Types[c.Args[i]]; ok && tv.IsType() {
					args[i] = c.Args[i] // make(T), new(T): a type operand
					continue
				}
				konst := r.isConstOrNil(c.Args[i])
				r.walkExpr(&c.Args[i])
				if konst {
					args[i] = c.Args[i]
					continue
				}
				at := r.tmp()
				pre = append(pre, &ast.AssignStmt{Lhs: []ast.Expr{at}, Tok: token.DEFINE, Rhs: []ast.Expr{c.Args[i]}})
				args[i] = at
			}
			var inner ast.Expr
			if id.Name == "close" && len(args) == 1 {
				r.counts["close"]++
				inner = call(r.vrt("Close"), args[0])
			} else {
				ce := &ast.CallExpr{Fun: c.Fun, Args: args}
				if c.Ellipsis != token.NoPos {
					ce.Ellipsis = 1
				}
				inner = ce
			}
			body := &ast.FuncLit{Type: &ast.FuncType{Params: &ast.FieldList{}}, Body: &ast.BlockStmt{List: []ast.Stmt{&ast.ExprStmt{X: inner}}}}
			pre = append(pre, &ast.ExprStmt{X: call(r.vrt("Go"), name, body)})
			return &ast.BlockStmt{List: pre}
		}
	}
	var pre []ast.Stmt
	// function value
	var fun ast.Expr
	constArgs := make([]bool, len(c.Args))
	for i, a := range c.Args {
		constArgs[i] = r.isConstOrNil(a)
		if tv, ok := r.info.Types[a]; ok {
			if _, isTuple := tv.Type.(*types.Tuple); isTuple {
				r.fail(g, "go statement with multi-value argument")
				return g
			}
		}
	}
	if fl, ok := c.Fun.(*ast.FuncLit); ok && len(c.Args) == 0 && fl.Type.Results == nil {
		r.walk(reflect.ValueOf(&fl.Body).Elem())
		return &ast.ExprStmt{X: call(r.vrt("Go"), name, fl)}
	}
	r.walkExpr(&c.Fun)
	ft := r.tmp()
	pre = append(pre, &ast.AssignStmt{Lhs: []ast.Expr{ft}, Tok: token.DEFINE, Rhs: []ast.Expr{c.Fun}})
	fun = ft
	args := make([]ast.Expr, len(c.Args))
	for i := range c.Args {
		r.walkExpr(&c.Args[i])
		if constArgs[i] {
			args[i] = c.Args[i]
			continue
		}
		at := r.tmp()
		pre = append(pre, &ast.AssignStmt{Lhs: []ast.Expr{at}, Tok: token.DEFINE, Rhs: []ast.Expr{c.Args[i]}})
		args[i] = at
	}
	inner := &ast.CallExpr{Fun: fun, Args: args, Ellipsis: c.Ellipsis}
	if c.Ellipsis != token.NoPos {
		inner.Ellipsis = 1
	}
	body := &ast.FuncLit{Type: &ast.FuncType{Params: &ast.FieldList{}}, Body: &ast.BlockStmt{List: []ast.Stmt{&ast.ExprStmt{X: inner}}}}
	pre = append(pre, &ast.ExprStmt{X: call(r.vrt("Go"), name, body)})
	return &ast.BlockStmt{List: pre}
}

func (r *rw) goName(g *ast.GoStmt) string {
	p := r.fset.Position(g.Pos())
	return fmt.Sprintf("%s:%d", strings.TrimSuffix(filepath.Base(p.Filename), ".go"), p.Line)
}

func (r *rw) selectStmt(s *ast.SelectStmt, label *ast.Ident) ast.Stmt {
	r.counts["select"]++
	var pre []ast.Stmt
	var cases []ast.Expr
	hasDefault := false
	sw := &ast.SwitchStmt{Body: &ast.BlockStmt{}}
	idx := r.tmp()
	res := r.tmp()
	k := 0
	resUsed := false
	for _, cc := range s.Body.List {
		c := cc.(*ast.CommClause)
		var body []ast.Stmt
		var caseVal ast.Expr
		if c.Comm == nil {
			hasDefault = true
			caseVal = nil // select's default becomes the switch's default (index -1)
		} else {
			caseVal = &ast.BasicLit{Kind: token.INT, Value: strconv.Itoa(k)}
			k++
			switch cm := c.Comm.(type) {
			case *ast.SendStmt:
				r.walkExpr(&cm.Chan)
				r.walkExpr(&cm.Value)
				ct, vt := r.tmp(), r.tmp()
				pre = append(pre,
					&ast.AssignStmt{Lhs: []ast.Expr{ct}, Tok: token.DEFINE, Rhs: []ast.Expr{cm.Chan}},
					&ast.AssignStmt{Lhs: []ast.Expr{vt}, Tok: token.DEFINE, Rhs: []ast.Expr{call(&ast.SelectorExpr{X: call(r.vrt("CaseSend"), ct), Sel: ast.NewIdent("V")}, cm.Value)}},
				)
				cases = append(cases, vt)
			case *ast.ExprStmt:
				u, ok := isRecv(cm.X)
				if !ok {
					r.fail(cm, "unexpected select case")
					return s
				}
				r.walkExpr(&u.X)
				ct := r.tmp()
				pre = append(pre, &ast.AssignStmt{Lhs: []ast.Expr{ct}, Tok: token.DEFINE, Rhs: []ast.Expr{u.X}})
				cases = append(cases, call(r.vrt("CaseRecv"), ct))
			case *ast.AssignStmt:
				u, ok := isRecv(cm.Rhs[0])
				if !ok {
					r.fail(cm, "unexpected select case")
					return s
				}
				r.walkExpr(&u.X)
				ct := r.tmp()
				pre = append(pre, &ast.AssignStmt{Lhs: []ast.Expr{ct}, Tok: token.DEFINE, Rhs: []ast.Expr{u.X}})
				cases = append(cases, call(r.vrt("CaseRecv"), ct))
				resUsed = true
				fn := "SelRecv"
				if len(cm.Lhs) == 2 {
					fn = "SelRecv2"
				}
				for i := range cm.Lhs {
					r.walkExpr(&cm.Lhs[i])
				}
				as := &ast.AssignStmt{Lhs: cm.Lhs, Tok: cm.Tok, Rhs: []ast.Expr{call(r.vrt(fn), res, ct)}}
				body = append(body, as)
				// silence "declared and not used" for := results, as select allows unused there? (it does not) -- keep as is
			default:
				r.fail(cm, "unexpected select comm")
				return s
			}
		}
		r.walkStmts(&c.Body)
		body = append(body, c.Body...)
		cl := &ast.CaseClause{Body: body}
		if caseVal != nil {
			cl.List = []ast.Expr{caseVal}
		}
		sw.Body.List = append(sw.Body.List, cl)
	}
	if !hasDefault {
		// keeps the statement terminating when every case terminates (as the select was)
		sw.Body.List = append(sw.Body.List, &ast.CaseClause{Body: []ast.Stmt{&ast.ExprStmt{X: call(ast.NewIdent("panic"), &ast.BasicLit{Kind: token.STRING, Value: `"vrt: select index out of range"`})}}})
	}
	hd := "false"
	if hasDefault {
		hd = "true"
	}
	var resLhs ast.Expr = res
	if !resUsed {
		resLhs = ast.NewIdent("_")
	}
	sw.Init = &ast.AssignStmt{Lhs: []ast.Expr{idx, resLhs}, Tok: token.DEFINE, Rhs: []ast.Expr{call(r.vrt("Select"), append([]ast.Expr{ast.NewIdent(hd)}, cases...)...)}}
	sw.Tag = idx
	var st ast.Stmt = sw
	if label != nil {
		st = &ast.LabeledStmt{Label: label, Stmt: sw}
	}
	return &ast.BlockStmt{List: append(pre, st)}
}

func (r *rw) rangeChan(rs *ast.RangeStmt, label *ast.Ident) ast.Stmt {
	r.counts["range"]++
	r.walkExpr(&rs.X)
	ct := r.tmp()
	ok := r.tmp()
	pre := &ast.AssignStmt{Lhs: []ast.Expr{ct}, Tok: token.DEFINE, Rhs: []ast.Expr{rs.X}}
	var key ast.Expr = ast.NewIdent("_")
	tok := token.DEFINE
	if rs.Key != nil {
		key = rs.Key
		tok = rs.Tok
	}
	var recv ast.Stmt
	if tok == token.DEFINE {
		recv = &ast.AssignStmt{Lhs: []ast.Expr{key, ok}, Tok: token.DEFINE, Rhs: []ast.Expr{call(r.vrt("Recv2"), ct)}}
	} else {
		// v, ok = ... needs ok declared
		recv = &ast.BlockStmt{List: []ast.Stmt{}}
		r.fail(rs, "range over channel with assignment form is not supported")
	}
	r.walkStmts(&rs.Body.List)
	brk := &ast.IfStmt{Cond: &ast.UnaryExpr{Op: token.NOT, X: ok}, Body: &ast.BlockStmt{List: []ast.Stmt{&ast.BranchStmt{Tok: token.BREAK}}}}
	loop := &ast.ForStmt{Body: &ast.BlockStmt{List: append([]ast.Stmt{recv, brk}, rs.Body.List...)}}
	var st ast.Stmt = loop
	if label != nil {
		st = &ast.LabeledStmt{Label: label, Stmt: loop}
	}
	return &ast.BlockStmt{List: []ast.Stmt{pre, st}}
}

// SortedCounts renders the counters.
func SortedCounts(m map[string]int) string {
	ks := make([]string, 0, len(m))
	for k := range m {
		ks = append(ks, k)
	}
	sort.Strings(ks)
	var sb strings.Builder
	for _, k := range ks {
		fmt.Fprintf(&sb, "%s=%d ", k, m[k])
	}
	return strings.TrimSpace(sb.String())
}


// ---------------------------------------------------------------------------
// Race / fine-grained instrumentation (Options.Race)

func (r *rw) raceWrap(e ast.Expr) ast.Expr {
	var out ast.Expr
	switch x := e.(type) {
	case *ast.SelectorExpr:
		if p := r.selPlan[x]; p != nil {
			delete(r.selPlan, x)
			fn := "R"
			if p.write {
				fn = "Wr"
			}
			r.counts["race:field"]++
			out = &ast.ParenExpr{X: &ast.StarExpr{X: call(r.vrt(fn), &ast.UnaryExpr{Op: token.AND, X: x}, strlit(p.name), p.site)}}
		}
	case *ast.Ident:
		if p := r.idPlan[x]; p != nil {
			delete(r.idPlan, x)
			fn := "R"
			if p.write {
				fn = "Wr"
			}
			r.counts["race:var"]++
			out = &ast.ParenExpr{X: &ast.StarExpr{X: call(r.vrt(fn), &ast.UnaryExpr{Op: token.AND, X: x}, strlit(p.name), p.site)}}
		}
	case *ast.IndexExpr:
		// an element of a slice / addressable array (a buffer shared between goroutines)
		if p := r.idxPlan[x]; p != nil {
			delete(r.idxPlan, x)
			fn := "R"
			if p.write {
				fn = "Wr"
			}
			r.counts["race:elem"]++
			return &ast.ParenExpr{X: &ast.StarExpr{X: call(r.vrt(fn), &ast.UnaryExpr{Op: token.AND, X: x}, strlit(p.name), p.site)}}
		}
	}
	if p := r.mapPlan[e]; p != nil {
		delete(r.mapPlan, e)
		fn := "MapR"
		if p.write {
			fn = "MapW"
		}
		r.counts["race:map"]++
		in := e
		if out != nil {
			in = out
		}
		out = call(r.vrt(fn), in, strlit(p.name), p.site)
	}
	return out
}

func strlit(s string) ast.Expr { return &ast.BasicLit{Kind: token.STRING, Value: strconv.Quote(s)} }

func unparen(e ast.Expr) ast.Expr {
	for {
		p, ok := e.(*ast.ParenExpr)
		if !ok {
			return e
		}
		e = p.X
	}
}

func isSyncType(t types.Type) bool {
	if p, ok := t.(*types.Pointer); ok {
		t = p.Elem()
	}
	n, ok := t.(*types.Named)
	if !ok || n.Obj().Pkg() == nil {
		return false
	}
	switch n.Obj().Pkg().Path() {
	case "sync", "sync/atomic":
		return true
	}
	return false
}

// addressable reports whether &e is legal (conservatively).
func (r *rw) addressable(e ast.Expr) bool {
	switch x := unparen(e).(type) {
	case *ast.Ident:
		_, ok := r.info.Uses[x].(*types.Var)
		if !ok {
			_, ok = r.info.Defs[x].(*types.Var)
		}
		return ok
	case *ast.StarExpr:
		return true
	case *ast.SelectorExpr:
		sel := r.info.Selections[x]
		if sel == nil || sel.Kind() != types.FieldVal {
			return false
		}
		if sel.Indirect() {
			return true
		}
		return r.addressable(x.X)
	case *ast.IndexExpr:
		t := r.info.TypeOf(x.X)
		if t == nil {
			return false
		}
		switch u := t.Underlying().(type) {
		case *types.Slice:
			return true
		case *types.Array:
			return r.addressable(x.X)
		case *types.Pointer:
			_, ok := u.Elem().Underlying().(*types.Array)
			return ok
		}
	}
	return false
}

// planRace decides, on the original AST, which field selectors, captured local variables and
// map operands are instrumented and whether each access is a write.
func (r *rw) planRace(f *ast.File) {
	r.selPlan = map[*ast.SelectorExpr]*accPlan{}
	r.idPlan = map[*ast.Ident]*accPlan{}
	r.idxPlan = map[*ast.IndexExpr]*accPlan{}
	r.mapPlan = map[ast.Expr]*accPlan{}
	writes := map[ast.Expr]bool{}
	noInstr := map[ast.Expr]bool{}
	// pass 1: find write contexts and address-of operands, captured+mutated variables
	declFn := map[types.Object]*ast.FuncLit{} // innermost FuncLit enclosing the declaration
	captured := map[types.Object]bool{}
	mutated := map[types.Object]bool{}
	var litStack []*ast.FuncLit
	var visit func(n ast.Node) bool
	innermost := func() *ast.FuncLit {
		if len(litStack) == 0 {
			return nil
		}
		return litStack[len(litStack)-1]
	}
	markWrite := func(e ast.Expr) {
		e = unparen(e)
		writes[e] = true
		if id, ok := e.(*ast.Ident); ok {
			if o := r.info.Uses[id]; o != nil {
				mutated[o] = true
			}
		}
		if ix, ok := e.(*ast.IndexExpr); ok && r.isMap(ix.X) {
			writes[unparen(ix.X)] = true
		}
	}
	visit = func(n ast.Node) bool {
		switch x := n.(type) {
		case *ast.FuncLit:
			litStack = append(litStack, x)
			ast.Inspect(x.Type, visit)
			ast.Inspect(x.Body, visit)
			litStack = litStack[:len(litStack)-1]
			return false
		case *ast.AssignStmt:
			if x.Tok != token.DEFINE {
				for _, l := range x.Lhs {
					markWrite(l)
				}
			} else {
				for _, l := range x.Lhs {
					noInstr[unparen(l)] = true
					if id, ok := unparen(l).(*ast.Ident); ok {
						if o := r.info.Uses[id]; o != nil { // redeclaration in := assigns an existing variable
							mutated[o] = true
						}
					}
				}
			}
		case *ast.IncDecStmt:
			markWrite(x.X)
		case *ast.RangeStmt:
			if x.Tok == token.ASSIGN {
				if x.Key != nil {
					markWrite(x.Key)
				}
				if x.Value != nil {
					markWrite(x.Value)
				}
			} else {
				if x.Key != nil {
					noInstr[unparen(x.Key)] = true
				}
				if x.Value != nil {
					noInstr[unparen(x.Value)] = true
				}
			}
		case *ast.UnaryExpr:
			if x.Op == token.AND {
				e := unparen(x.X)
				noInstr[e] = true
				if id, ok := e.(*ast.Ident); ok {
					if o := r.info.Uses[id]; o != nil {
						mutated[o] = true // address taken: may be written through the pointer
					}
				}
			}
		case *ast.CallExpr:
			if r.isBuiltin(x.Fun, "delete") && len(x.Args) == 2 {
				writes[unparen(x.Args[0])] = true
			}
		case *ast.Ident:
			if o, ok := r.info.Defs[x].(*types.Var); ok && o != nil {
				declFn[o] = innermost()
			}
			if o, ok := r.info.Uses[x].(*types.Var); ok && !o.IsField() && o.Pkg() != nil && o.Parent() != o.Pkg().Scope() {
				if df, known := declFn[o]; known && df != innermost() {
					captured[o] = true
				}
			}
		}
		return true
	}
	ast.Inspect(f, visit)
	// pass 2: plan
	ast.Inspect(f, func(n ast.Node) bool {
		switch x := n.(type) {
		case *ast.SelectorExpr:
			sel := r.info.Selections[x]
			if sel == nil || sel.Kind() != types.FieldVal || noInstr[x] {
				return true
			}
			if isSyncType(sel.Type()) {
				return true
			}
			if !r.addressable(x) {
				return true
			}
			recv := sel.Recv()
			if p, ok := recv.(*types.Pointer); ok {
				recv = p.Elem()
			}
			name := types.TypeString(recv, func(*types.Package) string { return "" }) + "." + x.Sel.Name
			r.selPlan[x] = &accPlan{name: name, write: writes[x], site: r.site(x.Sel)}
		case *ast.Ident:
			o, ok := r.info.Uses[x].(*types.Var)
			if !ok || o.IsField() || noInstr[x] || !captured[o] || !mutated[o] {
				return true
			}
			if isSyncType(o.Type()) {
				return true
			}
			r.idPlan[x] = &accPlan{name: "var " + o.Name(), write: writes[x], site: r.site(x)}
		case *ast.IndexExpr:
			if r.isMap(x.X) {
				e := unparen(x.X)
				r.mapPlan[e] = &accPlan{name: "map " + exprString(e), write: writes[e], site: r.site(x)}
			} else if !noInstr[x] && r.addressable(x) {
				if t := r.info.TypeOf(x); t != nil && !isSyncType(t) {
					r.idxPlan[x] = &accPlan{name: "elem " + exprString(unparen(x.X)), write: writes[x], site: r.site(x)}
				}
			}
		case *ast.CallExpr:
			if len(x.Args) >= 1 && (r.isBuiltin(x.Fun, "len") || r.isBuiltin(x.Fun, "delete")) && r.isMap(x.Args[0]) {
				e := unparen(x.Args[0])
				r.mapPlan[e] = &accPlan{name: "map " + exprString(e), write: writes[e], site: r.site(x)}
			}
		}
		return true
	})
	// map operands that are themselves planned selectors/idents: the map plan wraps the (already wrapped) expression
}

func exprString(e ast.Expr) string {
	switch x := e.(type) {
	case *ast.Ident:
		return x.Name
	case *ast.SelectorExpr:
		return exprString(x.X) + "." + x.Sel.Name
	case *ast.StarExpr:
		return "*" + exprString(x.X)
	case *ast.ParenExpr:
		return exprString(x.X)
	}
	return "expr"
}
