// Package selfprog holds small concurrent programs written in ordinary Go.  The very same
// source is compiled twice into the harness: once unchanged (package path .../selfprognative,
// run free on the real Go runtime many times) and once through the source rewriter (package path
// .../selfprog, explored exhaustively under the vrt scheduler).  The engine self-check requires
//   outcomes(native) ⊆ outcomes(vrt) ⊆ Allowed
// i.e. the controlled runtime neither misses behaviours real Go shows nor invents behaviours Go
// forbids (a conformance check of rewriter + shims + scheduler).
package selfprog

import (
	"context"
	"fmt"
	"sort"
	"strings"
	"sync"
	"sync/atomic"
	"time"
)

// Prog is one micro-program.
type Prog struct {
	Name    string
	Run     func() string
	Allowed []string // every outcome Go's semantics permit
}

func join(xs []string) string { sort.Strings(xs); return strings.Join(xs, ",") }

// Progs is the catalogue.
var Progs = []Prog{
	{"mutex-counter", func() string {
		var mu sync.Mutex
		var wg sync.WaitGroup
		n := 0
		for i := 0; i < 3; i++ {
			wg.Add(1)
			go func() { defer wg.Done(); mu.Lock(); n++; mu.Unlock() }()
		}
		wg.Wait()
		return fmt.Sprint(n)
	}, []string{"3"}},
	{"chan-order", func() string {
		c := make(chan int, 2)
		go func() { c <- 1; c <- 2; close(c) }()
		var out []string
		for v := range c {
			out = append(out, fmt.Sprint(v))
		}
		return strings.Join(out, "")
	}, []string{"12"}},
	{"two-senders", func() string {
		c := make(chan string)
		go func() { c <- "a" }()
		go func() { c <- "b" }()
		return <-c + <-c
	}, []string{"ab", "ba"}},
	{"select-ready-both", func() string {
		a, b := make(chan int, 1), make(chan int, 1)
		a <- 1
		b <- 2
		select {
		case v := <-a:
			return fmt.Sprint("a", v)
		case v := <-b:
			return fmt.Sprint("b", v)
		}
	}, []string{"a1", "b2"}},
	{"select-default", func() string {
		c := make(chan int)
		select {
		case <-c:
			return "recv"
		default:
			return "default"
		}
	}, []string{"default"}},
	{"select-nil-chan", func() string {
		var n chan int
		c := make(chan int, 1)
		c <- 7
		select {
		case <-n:
			return "nil"
		case v := <-c:
			return fmt.Sprint(v)
		}
	}, []string{"7"}},
	{"nonblocking-notify", func() string {
		// the notifier polls; the waiter may or may not have arrived yet
		c := make(chan struct{})
		got := make(chan string, 1)
		go func() {
			select {
			case <-c:
				got <- "woken"
			case <-time.After(20 * time.Millisecond):
				got <- "timeout"
			}
		}()
		select {
		case c <- struct{}{}:
		default:
		}
		return <-got
	}, []string{"woken", "timeout"}},
	{"close-wakes-all", func() string {
		c := make(chan struct{})
		var wg sync.WaitGroup
		var n int32
		for i := 0; i < 3; i++ {
			wg.Add(1)
			go func() { defer wg.Done(); <-c; atomic.AddInt32(&n, 1) }()
		}
		close(c)
		wg.Wait()
		_, ok := <-c
		return fmt.Sprint(n, ok)
	}, []string{"3 false"}},
	{"send-on-closed", func() (out string) {
		defer func() {
			if r := recover(); r != nil {
				out = "panic"
			}
		}()
		c := make(chan int, 1)
		close(c)
		c <- 1
		return "sent"
	}, []string{"panic"}},
	{"once", func() string {
		var once sync.Once
		var wg sync.WaitGroup
		var n int32
		for i := 0; i < 3; i++ {
			wg.Add(1)
			go func() { defer wg.Done(); once.Do(func() { atomic.AddInt32(&n, 1) }) }()
		}
		wg.Wait()
		return fmt.Sprint(n)
	}, []string{"1"}},
	{"rwmutex", func() string {
		var mu sync.RWMutex
		x := 0
		var wg sync.WaitGroup
		res := make([]string, 2)
		wg.Add(3)
		go func() { defer wg.Done(); mu.Lock(); x = 1; mu.Unlock() }()
		for i := 0; i < 2; i++ {
			i := i
			go func() { defer wg.Done(); mu.RLock(); res[i] = fmt.Sprint(x); mu.RUnlock() }()
		}
		wg.Wait()
		return res[0] + res[1]
	}, []string{"00", "01", "10", "11"}},
	{"cond", func() string {
		var mu sync.Mutex
		cond := sync.NewCond(&mu)
		ready := false
		done := make(chan string)
		go func() {
			mu.Lock()
			for !ready {
				cond.Wait()
			}
			mu.Unlock()
			done <- "go"
		}()
		mu.Lock()
		ready = true
		mu.Unlock()
		cond.Broadcast()
		return <-done
	}, []string{"go"}},
	{"ctx-cancel", func() string {
		ctx, cancel := context.WithCancel(context.Background())
		child, c2 := context.WithTimeout(ctx, time.Hour)
		defer c2()
		go cancel()
		<-child.Done()
		return child.Err().Error() + "|" + fmt.Sprint(ctx.Err())
	}, []string{"context canceled|context canceled",
		// legal, though only with an hour of scheduling delay: the explorer's early timer firing reaches it
		"context deadline exceeded|<nil>", "context deadline exceeded|context canceled"}},
	{"ctx-timeout-vs-reply", func() string {
		ctx, cancel := context.WithTimeout(context.Background(), 10*time.Millisecond)
		defer cancel()
		r := make(chan int, 1)
		go func() { time.Sleep(10 * time.Millisecond); r <- 1 }()
		select {
		case <-r:
			return "reply"
		case <-ctx.Done():
			return ctx.Err().Error()
		}
	}, []string{"reply", "context deadline exceeded"}},
	{"ctx-value-wrap", func() string {
		type k struct{}
		type wrap struct{ context.Context }
		base, cancel := context.WithCancel(context.WithValue(context.Background(), k{}, "v"))
		w := &wrap{base}
		child, c2 := context.WithCancel(w)
		defer c2()
		cancel()
		<-child.Done()
		return fmt.Sprint(child.Value(k{}), child.Err())
	}, []string{"vcontext canceled"}},
	{"timer-stop", func() string {
		t := time.NewTimer(time.Hour)
		stopped := t.Stop()
		t2 := time.NewTimer(time.Millisecond)
		<-t2.C
		return fmt.Sprint(stopped, t2.Stop())
	}, []string{"true false"}},
	{"ticker", func() string {
		tk := time.NewTicker(2 * time.Millisecond)
		defer tk.Stop()
		n := 0
		for range tk.C {
			n++
			if n == 3 {
				break
			}
		}
		return fmt.Sprint(n)
	}, []string{"3"}},
	{"afterfunc", func() string {
		c := make(chan string, 1)
		time.AfterFunc(time.Millisecond, func() { c <- "fired" })
		return <-c
	}, []string{"fired"}},
	{"go-args-evaluated-now", func() string {
		c := make(chan int, 1)
		x := 1
		go func(v int) { c <- v }(x)
		x = 2
		return fmt.Sprint(<-c, x)
	}, []string{"1 2"}},
	{"labeled-loop", func() string {
		c := make(chan int, 3)
		c <- 1
		c <- 2
		c <- 3
		sum := 0
	L:
		for {
			select {
			case v := <-c:
				if v == 2 {
					continue L
				}
				sum += v
				if v == 3 {
					break L
				}
			}
		}
		return fmt.Sprint(sum, len(c))
	}, []string{"4 0"}},
	{"recv-ok-var", func() string {
		c := make(chan int, 1)
		c <- 5
		close(c)
		var v, ok = <-c
		w, ok2 := <-c
		return fmt.Sprint(v, ok, w, ok2)
	}, []string{"5 true 0 false"}},
	{"atomic-cas", func() string {
		var x int32
		var wg sync.WaitGroup
		wins := int32(0)
		for i := 0; i < 3; i++ {
			wg.Add(1)
			go func() {
				defer wg.Done()
				if atomic.CompareAndSwapInt32(&x, 0, 1) {
					atomic.AddInt32(&wins, 1)
				}
			}()
		}
		wg.Wait()
		return fmt.Sprint(atomic.LoadInt32(&wins), atomic.LoadInt32(&x))
	}, []string{"1 1"}},
	{"producer-consumer", func() string {
		c := make(chan int)
		done := make(chan int)
		go func() {
			s := 0
			for v := range c {
				s += v
			}
			done <- s
		}()
		for i := 1; i <= 3; i++ {
			c <- i
		}
		close(c)
		return fmt.Sprint(<-done)
	}, []string{"6"}},
	{"map-iteration", func() string {
		m := map[int]string{1: "a", 2: "b", 3: "c"}
		var first string
		for _, v := range m {
			first = v
			break
		}
		n := 0
		for k := range m {
			if k > 1 {
				delete(m, k)
			}
			n++
		}
		return fmt.Sprint(first != "", len(m) >= 1, n >= 1)
	}, []string{"true true true"}},
	{"unlock-handoff", func() string {
		var mu sync.Mutex
		order := make(chan string, 2)
		mu.Lock()
		go func() { mu.Lock(); order <- "b"; mu.Unlock() }()
		order <- "a"
		mu.Unlock()
		return <-order + <-order
	}, []string{"ab"}},
	{"sync-map", func() string {
		var m sync.Map
		var wg sync.WaitGroup
		for i := 0; i < 2; i++ {
			i := i
			wg.Add(1)
			go func() {
				defer wg.Done()
				if _, loaded := m.LoadOrStore("k", i); !loaded {
					m.Store(fmt.Sprint("w", i), true)
				}
			}()
		}
		wg.Wait()
		n := 0
		m.Range(func(k, v any) bool { n++; return true })
		v, _ := m.Load("k")
		_, w0 := m.Load("w0")
		_, w1 := m.Load("w1")
		m.Delete("k")
		_, still := m.Load("k")
		return fmt.Sprint(n, v, w0, w1, still)
	}, []string{"2 0 true false false", "2 1 false true false"}},
	{"atomic-pointer-cas", func() string {
		type box struct{ v int }
		var p atomic.Pointer[box]
		first := &box{0}
		p.Store(first)
		var wins atomic.Int32
		var wg sync.WaitGroup
		for i := 1; i <= 2; i++ {
			i := i
			wg.Add(1)
			go func() {
				defer wg.Done()
				if p.CompareAndSwap(first, &box{i}) {
					wins.Add(1)
				}
			}()
		}
		wg.Wait()
		var v atomic.Value
		v.Store("x")
		old := v.Swap("y")
		return fmt.Sprintf("%v %v %v %v", wins.Load(), p.Load().v, old, v.Load())
	}, []string{"1 1 x y", "1 2 x y"}},
	{"ctx-afterfunc-cause", func() string {
		ctx, cancel := context.WithCancelCause(context.Background())
		ran := make(chan string, 1)
		stop := context.AfterFunc(ctx, func() { ran <- "ran" })
		cancel(fmt.Errorf("why"))
		r := <-ran
		stopped := stop()
		ctx2, cancel2 := context.WithCancel(context.Background())
		stop2 := context.AfterFunc(ctx2, func() { ran <- "ran2" })
		s2 := stop2()
		cancel2()
		wc := context.WithoutCancel(ctx)
		return fmt.Sprintf("%v %v %v %v %v %v %v", r, stopped, context.Cause(ctx), ctx.Err(), s2, len(ran), wc.Err())
	}, []string{"ran false why context canceled true 0 <nil>"}},
	{"once-value-pool", func() string {
		calls := 0
		f := sync.OnceValue(func() int { calls++; return 7 })
		var wg sync.WaitGroup
		sum := atomic.Int64{}
		for i := 0; i < 2; i++ {
			wg.Add(1)
			go func() { defer wg.Done(); sum.Add(int64(f())) }()
		}
		wg.Wait()
		pl := sync.Pool{New: func() any { return new(int) }}
		x := pl.Get().(*int)
		pl.Put(x)
		return fmt.Sprint(calls, sum.Load(), *x)
	}, []string{"1 14 0"}},
	{"ticker-stop", func() string {
		tk := time.NewTicker(2 * time.Millisecond)
		n := 0
		for range tk.C {
			n++
			if n == 3 {
				tk.Stop()
				break
			}
		}
		tm := time.AfterFunc(time.Hour, func() {})
		return fmt.Sprint(n, tm.Stop())
	}, []string{"3 true"}},
	{"ctx-cause-bypasses-wrapper", func() string {
		ctx, cancel := context.WithTimeoutCause(context.Background(), time.Millisecond, fmt.Errorf("too slow"))
		defer cancel()
		w := errWrapCtx{ctx}
		<-w.Done()
		child, cancel2 := context.WithCancel(w)
		defer cancel2()
		<-child.Done()
		return fmt.Sprintf("%v | %v | %v | %v", w.Err(), context.Cause(w), child.Err(), context.Cause(child))
	}, []string{"wrapped: context deadline exceeded | too slow | wrapped: context deadline exceeded | too slow"}},
	{"defer-close-and-go-builtin", func() string {
		done := make(chan struct{})
		res := make(chan int, 1)
		go func() {
			defer close(done) // the deferred call is the builtin itself
			res <- 1
		}()
		<-done
		gone := make(chan struct{})
		go close(gone) // a go statement whose call is a builtin
		<-gone
		m := map[int]string{1: "a", 2: "b"}
		func() {
			defer delete(m, 1)
		}()
		return fmt.Sprint(<-res, len(m))
	}, []string{"1 1"}},
	{"range-without-key-and-select-lvalues", func() string {
		c := make(chan int, 3)
		c <- 1
		c <- 2
		c <- 3
		close(c)
		n := 0
		for range c {
			n++
		}
		type box struct{ f [2]int }
		var b box
		var ok bool
		d := make(chan int, 1)
		d <- 7
		i := 1
		select {
		case b.f[i], ok = <-d:
		}
		e := make(chan int, 1)
		var m = map[string]int{}
		e <- 9
		select {
		case m["k"] = <-e:
		default:
		}
	outer:
		for k := 0; k < 3; k++ {
			select {
			case e <- k:
				continue outer
			default:
				break outer
			}
		}
		return fmt.Sprint(n, b.f[1], ok, m["k"], len(e))
	}, []string{"3 7 true 9 1"}},
	{"slice-and-array-elements", func() string {
		// element accesses in every syntactic position (the race instrumentation wraps them)
		type cell struct{ v int }
		buf := make([]byte, 4)
		cells := make([]cell, 2)
		var arr [3]int
		pa := &arr
		var wg sync.WaitGroup
		for g := 0; g < 2; g++ {
			g := g
			wg.Add(1)
			go func() {
				defer wg.Done()
				buf[g] = byte(g + 1)
				buf[g+2] += byte(10 * (g + 1))
				cells[g].v = g + 5
				pa[g]++
			}()
		}
		wg.Wait()
		buf[0], buf[1] = buf[1], buf[0]
		p := &buf[3]
		*p |= 1
		arr[2] = len(buf[1:3])
		str := "héllo"
		sum := 0
		for i := range cells {
			sum += cells[i].v
		}
		return fmt.Sprint(buf, sum, arr, str[1] == 0xc3, first[int]([]int{4, 5}))
	}, []string{"[2 1 10 21] 11 [1 1 2] true 4"}},
}

func first[T any](xs []T) T { return xs[0] }

// Names lists the program names.
func Names() []string {
	var out []string
	for _, p := range Progs {
		out = append(out, p.Name)
	}
	return out
}

var _ = join

// errWrapCtx is a context wrapper that overrides Err (as the library's requestContext does).
type errWrapCtx struct{ context.Context }

func (c errWrapCtx) Err() error {
	if e := c.Context.Err(); e != nil {
		return fmt.Errorf("wrapped: %w", e)
	}
	return nil
}
