#!/bin/sh
# usage: tools/ingest_round5.sh <id>: copies /tmp/mt5/<id>/out into seeded/<id>-7 and -8
ID=$1
S=/verif/seeded
for n in 1 2; do
  k=$((n+6))
  [ -f /tmp/mt5/$ID/out/change$n.diff ] || { echo "missing change$n for $ID"; continue; }
  mkdir -p $S/$ID-$k
  cp /tmp/mt5/$ID/out/change$n.diff $S/$ID-$k/patch.diff
  cp /tmp/mt5/$ID/out/zz_demo${n}_test.go $S/$ID-$k/demo_test.go
  echo "$ID" > $S/$ID-$k/claims.txt
done
cp /tmp/mt5/$ID/out/notes.md $S/$ID-round5-notes.md 2>/dev/null
