#!/bin/sh
# usage: tools/ingest_benign.sh <Bk>: copies /tmp/bn/<Bk>/out/refactor{1,2,3}.diff into benign/<Bk>-{1,2,3}/patch.diff
B=$1
for n in 1 2 3; do
  [ -f /tmp/bn/$B/out/refactor$n.diff ] || continue
  mkdir -p /verif/benign/$B-$n
  cp /tmp/bn/$B/out/refactor$n.diff /verif/benign/$B-$n/patch.diff
done
cp /tmp/bn/$B/out/notes.md /verif/benign/$B-notes.md 2>/dev/null
ls /verif/benign | grep "^$B"
