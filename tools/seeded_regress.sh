#!/bin/sh
# Runs every seeded change against the quick tier of the check that is expected to catch it.
# usage: tools/seeded_regress.sh [id-prefix]      (uses $VERIF_DIR, default /verif)
#        LIST=<file with one id per line> tools/seeded_regress.sh     (exactly these changes)
V=${VERIF_DIR:-/verif}
export GOFLAGS=-mod=mod GOPROXY=off GOSUMDB=off GOTOOLCHAIN=local
ok=0; bad=0
if [ -n "$LIST" ]; then DIRS=$(sed "s|^|$V/seeded/|; s|\$|/|" "$LIST"); else DIRS=$(ls -d $V/seeded/${1:-}*/); fi
for d in $DIRS; do
  id=$(basename $d)
  [ -f $d/patch.diff ] || continue
  chk=$(python3 -c "import json;m=json.load(open('$d/meta.json'));print(m.get('caught_by',m['breaks_property']))")
  if [ "$chk" = "none" ]; then echo "$id: recorded miss (see meta.json), skipped"; continue; fi
  D=$(mktemp -d /tmp/sr.XXXXXX)
  git -C /repo archive HEAD | tar -x -C $D
  if ! (cd $D && (git apply --unsafe-paths --directory=$D $d/patch.diff 2>/dev/null || patch -p1 -s < $d/patch.diff >/dev/null 2>&1)); then echo "$id: PATCH DOES NOT APPLY"; bad=$((bad+1)); rm -rf $D; continue; fi
  out=$(VERIF_DIR=$V VERIF_REPO=$D VERIF_EVIDENCE_DIR=$D/.evidence $V/bin/vcheck run $chk 2>&1)
  if echo "$out" | grep -q "^VIOLATION property=$chk"; then echo "$id: caught by $chk ($(echo "$out" | grep -m1 '  key:' | cut -c1-110))"; ok=$((ok+1)); else echo "$id: NOT CAUGHT by $chk ($(echo "$out" | tail -1 | cut -c1-160))"; bad=$((bad+1)); fi
  rm -rf $D
done
echo "seeded changes caught: $ok, not caught / not applicable: $bad"
[ $bad -eq 0 ]
