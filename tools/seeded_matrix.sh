#!/bin/sh
# Runs EVERY quick check against every seeded change matching the prefix and prints which checks report it.
# usage: tools/seeded_matrix.sh <id-prefix> [check ...]     (uses $VERIF_DIR, default /verif)
V=${VERIF_DIR:-/verif}
export GOFLAGS=-mod=mod GOPROXY=off GOSUMDB=off GOTOOLCHAIN=local
P=$1; shift
# cheapest checks first; with FAST=1 the checks named in seeded/<id>/claims.txt run first and the run stops at the first check that reports the change
CHECKS=${*:-C14 C19 C20 C05 C04 C13 C15 C07 C18 C10 C06 C11 C17 C08 C09 C16 C01 C02 C12 C03}
case "$P" in *\**) GL="$V/seeded/$P/";; *) GL="$V/seeded/${P}*/";; esac
for d in $GL; do
  id=$(basename $d)
  [ -f $d/patch.diff ] || continue
  D=$(mktemp -d /tmp/sm.XXXXXX)
  git -C /repo archive HEAD | tar -x -C $D
  if ! (cd $D && (git apply --unsafe-paths --directory=$D $d/patch.diff 2>/dev/null || patch -p1 -s < $d/patch.diff >/dev/null 2>&1)); then echo "$id: PATCH DOES NOT APPLY"; rm -rf $D; continue; fi
  if ! (cd $D && go build ./... 2>/dev/null); then echo "$id: does not build"; rm -rf $D; continue; fi
  by=""
  order="$CHECKS"
  if [ -f $d/claims.txt ]; then
    cl=$(cat $d/claims.txt)
    rest=""; for c in $CHECKS; do case " $cl " in *" $c "*) ;; *) rest="$rest $c";; esac; done
    order="$cl $rest"
  fi
  for chk in $order; do
    [ -n "$FAST" ] && [ -n "$by" ] && break
    out=$(VERIF_DIR=$V VERIF_REPO=$D VERIF_EVIDENCE_DIR=$D/.evidence $V/bin/vcheck run $chk 2>&1); rc=$?
    if echo "$out" | grep -q "^VIOLATION property=$chk"; then
      by="$by $chk($(echo "$out" | grep -m1 '  key:' | sed 's/  key: //' | cut -c1-70))"
    elif [ $rc -ne 0 ]; then
      by="$by $chk(EXIT$rc:$(echo "$out" | grep -m1 'vcheck:' | cut -c1-80))"
    fi
  done
  if [ -n "$by" ]; then echo "$id: caught by$by"; else echo "$id: NOT CAUGHT by any of: $CHECKS"; fi
  rm -rf $D
done
