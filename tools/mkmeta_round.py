#!/usr/bin/env python3
"""Writes seeded/<id>/meta.json for one round from the sub-agents' notes and a first-try result table.

usage: mkmeta_round.py <round: 7|8> <first_try.tsv> <now.tsv>
  first_try.tsv / now.tsv: lines "<id>\t<check or none>" (which check reported the change at the first
  try with the checks as they stood when the round came in / with the checks as they are now).
The description ("what") is the header of the change in seeded/<prefix>-round<N>-notes.md plus the first
paragraph under it.
"""
import json, re, sys, os, glob

rnd, first_f, now_f = sys.argv[1:4]
S = '/verif/seeded'


def table(f):
    t = {}
    for l in open(f):
        l = l.strip()
        if l:
            a, b = l.split('\t')[:2]
            t[a] = b
    return t


first, now = table(first_f), table(now_f)
origin = {
    '7': "seventh round: independent sub-agent given the property text, a scratch worktree and the changed lines of every earlier change for this property; asked for changes that need something specific of a long-running deployment to show",
    '8': "eighth round: independent sub-agent given all twenty statements, a scratch worktree and a USAGE PROFILE of the library instead of a property; three changes each that an application of that profile would hit",
}[rnd]
for notes in sorted(glob.glob('%s/*-round%s-notes.md' % (S, rnd))):
    prefix = os.path.basename(notes).split('-')[0]
    txt = open(notes).read()
    parts = re.split(r'(?m)^#+ .*?[Cc]hange ?(\d)', txt)
    # parts: [pre, n, body, n, body ...]; the header text is lost by the split, recover it
    heads = re.findall(r'(?m)^#+ (.*?[Cc]hange ?\d.*)$', txt)
    for i in range(1, len(parts), 2):
        n = int(parts[i])
        body = parts[i + 1]
        head = heads[(i - 1) // 2]
        para = ' '.join(x.strip() for x in body.split('\n\n')[0].split('\n')[1:] if x.strip())
        if len(para) < 40:
            para = ' '.join(x.strip() for x in body.split('\n')[1:8] if x.strip())
        k = n + 10 if rnd == '7' else n
        idk = '%s-%d' % (prefix, k)
        d = '%s/%s' % (S, idk)
        if not os.path.isdir(d):
            continue
        claims = open(d + '/claims.txt').read().split() if os.path.exists(d + '/claims.txt') else [prefix]
        what = (head + ': ' + para)[:700]
        f, nw = first.get(idk, 'none'), now.get(idk, 'none')
        m = {"id": idk, "breaks_property": claims[0], "also_claimed": claims[1:], "origin": origin, "what": what,
             "what_i_ran": ["git archive HEAD of /repo into a scratch dir", "demo_test.go on the clean tree: PASS",
                            "patch applied: go build ./... ok, baseline `go test -vet=off -count=1 .` PASS, demo_test.go FAIL",
                            "every quick check against the patched scratch copy until one reports it (tools/seeded_matrix.sh, FAST)"],
             "caught_by_quick_check_at_first_try": f != 'none', "caught_at_first_try_by": f,
             "caught_by_quick_check_now": nw != 'none', "caught_by": nw}
        json.dump(m, open(d + '/meta.json', 'w'), indent=1)
        print(idk, f, nw)
