#!/usr/bin/env python3
"""Writes seeded/<id>-13/meta.json for round 9. usage: mkmeta_round9.py  (table below is the record of what was run)."""
import json, os
origin = "ninth round: independent sub-agent given only the property text and a scratch worktree (no earlier changes shown, 10-12 minute budget, one change each); re-inventions of earlier changes are noted"
W = {
 'C02-13': ("C02", "publish.go retryPublish2: when the PUBREL write fails the error carries retryPublish (PUBLISH with DUP) instead of retryPublish2: after a cut behind PUBREL (broker released the id) and a failing PUBREL write on the next connection, the third connection sends PUBLISH(DUP), which a session-keeping broker delivers a second time", "C02", "c02/delivered-twice:faults=...+PUBREL/ack-lost+close+PUBREL/write-error"),
 'C03-13': ("C03", "RetryClient.Retry: the two re-queue appends merged into append(oldRetryQueue[i+1:], retry): a request whose retransmission fails goes behind the not-yet-retried newer requests; the third connection carries m2, m3, m1 (same mechanism as C03-1, other statement)", "C03", "c03/conn-order:faults=CONNECT/ack-lost+close+PUBLISH/ack-lost+close"),
 'C13-13': ("C13", "keepalive.go: the per-ping timeout context is cancelled right after Ping returns ('no defer in a loop'), so the timeout test on ctxTo.Done() is always true: a ping that fails immediately (write error, closed transport) is reported as ErrPingTimeout (classification clause, like C19-2 at another site)", "C13", "c13/ping-error-lost, c13/timeout-declared-early"),
 'C16-13': ("C16", "disconnect.go: connStateUpdate(StateDisconnected) moved behind the DISCONNECT write: a peer that closes at once on DISCONNECT while Write returns late makes the reader report Closed(EOF) and set Err() although Disconnect was called", "C16", "c16/closed-on-graceful-disconnect, c16/disconnected-missing, c16/err-after-graceful-disconnect"),
 'C01-13': ("C01", "RetryClient.Resubscribe returns early when nothing is subscribed, after `c.retryQueue = nil`: the pending retry queue is dropped; needs a pending retry + a non-first reconnect with SessionPresent=0 (or AlwaysResubscribe) + no established subscription", "C01", "c01/lost:p1@B:faults=PUBLISH/ack-lost+close"),
 'C08-13': ("C08", "subscriptions.go unsubscriptions.applyTo ranges over the slice it shrinks (`range *d` instead of `range (*d)[:l]`): a filter repeated inside one Unsubscribe call removes another live entry from the established list, visible at the next reconnect without session", "C08", "c08/table-differs:dup-in-call+filter-resubscribed+unsub:faults=SUBSCRIBE/ack-lost+close"),
 'C09-13': ("C09", "reconnclient.go: the back-off is reset after a successful dial instead of after a successful CONNECT: consecutive handshake failures (refused / absent CONNACK) never lengthen the wait", "C09", "c09/backoff-too-short:k1"),
 'C11-13': ("C11", "serve.go readPacket: `shift >= 21` became `shift > 21`: a five-byte remaining-length field is accepted, the malformed packet does not end the link, Done() stays open, pending calls stay blocked", "C06", "c06:overlong-length:not-ended-by-malformed-packet, c06:oversize-read (the clause 'malformed input ends the link' is C06's; C11's malformed-packet cause uses other malformed packets and stays silent)"),
 'C12-13': ("C12", "publish.go publishImpl: 'collision protection' picks another message.ID while the id is still in the signaller map: a retry through ErrorWithRetry on the same live BaseClient retransmits with a different identifier", "C12", "c12/retransmission-differs:faults=PUBLISH/ack-lost+close; also C15 c15/caller-id-changed"),
 'C17-13': ("C17", "RetryClient.Connect registers a handler snapshot taken before c.mu was released: a concurrent RetryClient.Handle landing in the gap is overwritten by the stale handler until the next reconnect", "C17", "c17/not-handed-over:conn0:faults="),
}
for k, (p, what, by, key) in W.items():
    notes = '/verif/seeded/%s-round9-notes.md' % p
    m = {"id": k, "breaks_property": p, "origin": origin, "what": what,
         "needs_to_manifest": open(notes).read()[:900] if os.path.exists(notes) else "see 'what'",
         "what_i_ran": ["git archive HEAD of /repo (3c859bf) into a scratch dir", "demo_test.go on the clean tree: PASS",
                        "patch applied: go build ./... ok, baseline `go test -vet=off -count=1 .` PASS, demo_test.go FAIL",
                        "./bin/vcheck run %s (quick) against the patched scratch copy (tools/try_mutant.sh): VIOLATION" % by],
         "caught_by_quick_check_at_first_try": True, "caught_at_first_try_by": by, "caught_by_quick_check_now": True,
         "caught_by": by, "violation_keys": key}
    if os.path.isdir('/verif/seeded/' + k):
        json.dump(m, open('/verif/seeded/%s/meta.json' % k, 'w'), indent=1)
