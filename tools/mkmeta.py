#!/usr/bin/env python3
# usage: mkmeta.py <id-k> <first:yes|no> <caught_by> <what> [strengthening]
import json,sys
idk,first,by,what=sys.argv[1:5]
st=sys.argv[5] if len(sys.argv)>5 else ""
m={"id":idk,"breaks_property":__import__("os").environ.get("BREAKS",idk.split("-")[0]),
 "origin":__import__("os").environ.get("ORIGIN","third round: independent sub-agent given the property text, a scratch worktree and one-line descriptions of the four earlier changes for this property to avoid"),
 "what":what,
 "what_i_ran":["git archive HEAD of /repo into a scratch dir","demo_test.go on the clean tree: PASS","patch applied: go build ./... ok, baseline `go test -vet=off -count=1 .` PASS, demo_test.go FAIL","./bin/vcheck run <check> (quick) against the patched scratch copy (tools/try_mutant.sh)"],
 "caught_by_quick_check_at_first_try": first=="yes","caught_by_quick_check_now":True,"caught_by":by}
if st: m["strengthening"]=st
json.dump(m,open('/verif/seeded/%s/meta.json'%idk,'w'),indent=1)
