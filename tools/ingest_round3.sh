#!/bin/sh
# usage: tools/ingest_round3.sh <id> [extra checks...]: copies /tmp/mt3/<id>/out into seeded/<id>-5 and -6 and tries them
ID=$1; shift
S=/verif/seeded
for n in 1 2; do
  k=$((n+4))
  mkdir -p $S/$ID-$k
  cp /tmp/mt3/$ID/out/change$n.diff $S/$ID-$k/patch.diff
  cp /tmp/mt3/$ID/out/zz_demo${n}_test.go $S/$ID-$k/demo_test.go
done
cp /tmp/mt3/$ID/out/notes.md $S/$ID-round3-notes.md
for k in 5 6; do
  echo "##### $ID-$k"
  /verif/tools/try_mutant.sh $S/$ID-$k/patch.diff $S/$ID-$k/demo_test.go $ID "$@"
done
