#!/bin/sh
# Runs every quick check against every behaviour-preserving refactoring in benign/<name>/patch.diff.
# Any VIOLATION, build failure or non-zero exit is a false alarm of the machinery (or a refactoring
# that is not behaviour-preserving after all -- classify by hand).
# usage: tools/benign_regress.sh [name-prefix] [check ...]      (uses $VERIF_DIR, default /verif)
V=${VERIF_DIR:-/verif}
export GOFLAGS=-mod=mod GOPROXY=off GOSUMDB=off GOTOOLCHAIN=local
# runs against changed copies must not overwrite the evidence of the tree under check
export VERIF_EVIDENCE_DIR=${VERIF_EVIDENCE_DIR:-/tmp/benign_evidence.$$}; trap 'rm -rf /tmp/benign_evidence.$$' EXIT
P=${1:-}; [ $# -gt 0 ] && shift
CHECKS=${*:-C01 C02 C03 C04 C05 C06 C07 C08 C09 C10 C11 C12 C13 C14 C15 C16 C17 C18 C19 C20}
bad=0; n=0
for d in $V/benign/${P}*/; do
  name=$(basename $d)
  [ -f $d/patch.diff ] || continue
  D=$(mktemp -d /tmp/bnr.XXXXXX)
  git -C /repo archive HEAD | tar -x -C $D
  if ! (cd $D && (git apply --unsafe-paths --directory=$D $d/patch.diff 2>/dev/null || patch -p1 -s < $d/patch.diff >/dev/null 2>&1)); then echo "$name: PATCH DOES NOT APPLY"; rm -rf $D; continue; fi
  if ! (cd $D && go build ./... 2>/dev/null); then echo "$name: does not build"; rm -rf $D; continue; fi
  n=$((n+1))
  for chk in $CHECKS; do
    out=$(VERIF_DIR=$V VERIF_REPO=$D $V/bin/vcheck run $chk 2>&1); rc=$?
    if [ $rc -ne 0 ] || echo "$out" | grep -q "^VIOLATION"; then
      bad=$((bad+1))
      echo "$name: $chk ALARM (exit $rc): $(echo "$out" | grep -m2 -E '  key:|vcheck:|note:' | tr '\n' ' ' | cut -c1-300)"
    else
      note=$(echo "$out" | grep -m1 '^note:' | cut -c1-120)
      echo "$name: $chk ok $(echo "$out" | tail -1 | sed 's/.*exhaustive=/exhaustive=/' | cut -c1-60) $note"
    fi
  done
  rm -rf $D
done
echo "refactorings tried: $n, alarms: $bad"
[ $bad -eq 0 ]
