#!/bin/sh
# usage: tools/ingest_round5.sh <id>: copies /tmp/mt6/<id>/out into seeded/<id>-9 and -10
ID=$1
S=/verif/seeded
for n in 1 2; do
  k=$((n+8))
  [ -f /tmp/mt6/$ID/out/change$n.diff ] || { echo "missing change$n for $ID"; continue; }
  mkdir -p $S/$ID-$k
  cp /tmp/mt6/$ID/out/change$n.diff $S/$ID-$k/patch.diff
  cp /tmp/mt6/$ID/out/zz_demo${n}_test.go $S/$ID-$k/demo_test.go
  echo "$ID" > $S/$ID-$k/claims.txt
done
cp /tmp/mt6/$ID/out/notes.md $S/$ID-round6-notes.md 2>/dev/null
