#!/bin/sh
# usage: try_mutant.sh <diff> <demo_test.go|-> <check> [<check>...]
# Applies the diff to a scratch copy of /repo's HEAD, confirms build + baseline tests + demo behaviour, runs checks.
DIFF=$1; DEMO=$2; shift; shift
export GOFLAGS=-mod=mod GOPROXY=off GOSUMDB=off GOTOOLCHAIN=local
D=$(mktemp -d /tmp/mut.XXXXXX)
git -C /repo archive HEAD | tar -x -C $D
if [ "$DEMO" != "-" ]; then
  cp $DEMO $D/zz_demo_test.go
  (cd $D && go test -vet=off -count=1 -run 'Demo|demo|ZZ' . >/tmp/demo_clean.log 2>&1) && echo "demo on clean tree: PASS" || { echo "demo on clean tree: FAIL"; tail -5 /tmp/demo_clean.log; }
fi
(cd $D && git apply --unsafe-paths --directory=$D $DIFF 2>/dev/null || patch -p1 -s < $DIFF) || { echo "PATCH FAILED"; rm -rf $D; exit 3; }
(cd $D && go build ./...) || { echo "MUTANT DOES NOT BUILD"; rm -rf $D; exit 3; }
if [ "$DEMO" != "-" ]; then
  (cd $D && go test -vet=off -count=1 -run 'Demo|demo|ZZ' . >/tmp/demo_mut.log 2>&1) && echo "demo with change: PASS (unexpected)" || echo "demo with change: FAIL (expected)"
  rm -f $D/zz_demo_test.go
fi
(cd $D && go test -vet=off -count=1 . >/tmp/base_mut.log 2>&1) && echo "baseline tests with change: PASS" || { echo "baseline tests with change: FAIL"; tail -5 /tmp/base_mut.log; }
for ID in "$@"; do
  VERIF_REPO=$D VERIF_EVIDENCE_DIR=$D/.evidence /verif/bin/vcheck run $ID 2>&1 | grep -E "^(VIOLATION|KNOWN|  key|C[0-9]+ tier|vcheck)" | head -${HEADN:-6}
done
rm -rf $D
