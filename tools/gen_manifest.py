#!/usr/bin/env python3
"""Regenerates /verif/MANIFEST.json from the table below (kept next to the checks it describes)."""
import json, os
V = os.path.dirname(os.path.dirname(os.path.abspath(__file__)))
props = [json.loads(l) for l in open(os.path.join(V, 'properties.jsonl'))]

# id -> (technique, level text, level note, design ref)
RC_NOTE = "trusted: vrt scheduler+shims, rewriter, in-memory transport, broker model (MQTT 3.1.1 server for one client id, QoS 2 receiver method A/B), independent codec, oracle; fault alphabet per client->broker packet {deliver, lost+peer closes, write error, processed+responses lost+peer closes} plus refused/absent CONNACK and dial error; bounded by N requests, F faults, P preemptions, S select deviations as stated in evidence.coverage.bounds"
CHECKS = {
 "C01": ("stateless exhaustive DFS over fault placements (F) x schedules (P,S) of the real ReconnectClient/RetryClient running under the vrt controlled scheduler against a broker model; oracle on the wire trace at quiescence",
         "For every workload of <=N requests (QoS0/1/2 publish, subscribe, unsubscribe; submitted before Connect / when settled / immediately / during an outage) every placement of up to F faults over every client->broker packet, CONNECT/CONNACK and dial, and (for a focused family) every schedule with bounded preemptions is executed on the real code; at final quiescence every accepted request must have its completing acknowledgement on the wire. A coverage statement for the bound, which the timing-based integration tests cannot give.",
         RC_NOTE, "DESIGN.md 3 C01"),
 "C02": ("stateless exhaustive DFS over cut placements at PUBLISH/PUBREC/PUBREL/PUBCOMP/CONNECT of the real client against a QoS 2 receiver model (methods A and B); oracle on the broker's onward-delivery log and the wire trace",
         "Every placement of up to F connection cuts (including several cuts hitting the same in-flight message) over workloads containing QoS 2 publishes is executed on the real retry path; the broker model's onward-delivery count per message must never exceed 1 and be 1 at quiescence, and nothing may be transmitted for a message after its PUBCOMP was received.",
         RC_NOTE, "DESIGN.md 3 C02"),
 "C03": ("stateless exhaustive DFS over fault placements of the real client with one submitting task; order oracle over every connection of the wire trace and the broker's first-delivery log",
         "For all workloads of <=N requests from one submitting task and every placement of <=F faults: PUBLISH packets per connection are in submission order (retransmissions included), first transmissions are in submission order, and with close-only faults the broker first-delivers QoS>=1 messages in submission order.",
         RC_NOTE, "DESIGN.md 3 C03"),
 "C04": ("exhaustive enumeration of all inbound packet sequences (length<=4 quick / <=6 thorough over a 12-symbol alphabet, 4 delivery modes) executed on the real BaseClient under the vrt controlled scheduler, compared step by step with a reference receiver",
         "Every broker->client sequence of the bounded alphabet is executed against the real reader goroutine under a controlled scheduler and its single timeline of handler calls and written acknowledgements must equal a reference QoS0/1/2 receiver written from MQTT 3.1.1 section 4.3; short sequences are additionally explored under all schedules with <=1 preemption and a yielding handler. Holds for every sequence within the bound, not for a sample.",
         "trusted: vrt scheduler+shims, rewriter, scripted peer, independent codec, reference receiver; unbounded sequence length and identifiers other than 1..3 are not covered",
         "DESIGN.md 3 C04"),
 "C05": ("bounded-exhaustive input enumeration (all 268,435,456 remaining lengths in the thorough tier; field products at every length boundary) of the real packers and of a real BaseClient run under the vrt scheduler, judged by an independent MQTT 3.1.1 decoder",
         "Every emitted packet of the enumerated space is decoded by a codec written independently from the specification and must be well-formed, minimally length-encoded and carry exactly the requested fields; inbound PUBLISH packets produced by the independent encoder must reach the handler unchanged; unencodable messages must be rejected with zero bytes written. The state space is the input space; executions of the real client run under the controlled scheduler so writes and handler calls lie on one deterministic timeline.",
         "trusted: independent codec (env/codec.go, reviewed against the OASIS text), scripted peer, vrt scheduler for the client-level parts; strings/payloads beyond the listed alphabets and lengths are not covered",
         "DESIGN.md 3 C05"),
 "C06": ("bounded-exhaustive enumeration of byte strings handed to the 9 parsers and to readPacket (all streams of length<=6/7 over an 8-byte alphabet, every first byte) plus every listed malformed-packet category sent to a real BaseClient under the vrt scheduler; crash attribution through a marker file for unrecoverable runtime errors",
         "All byte strings of the bounded space are run through the real parsers and the real read loop: no panic, no read request above 268,435,455 bytes, no fatal allocation (worker processes run under a memory limit and announce each input so that an unrecoverable crash is attributed to it); for every malformed category named in the statement the connection of a real client must end with Err()!=nil, Done() closed, exactly one Closed callback with an error, and the preceding well-formed messages delivered.",
         "trusted: independent codec as classifier of malformed input, scripted peer, vrt scheduler; byte strings longer than the bound or outside the alphabet are not covered",
         "DESIGN.md 3 C06"),
 "C12": ("stateless exhaustive DFS over fault placements at every step of the QoS 1 / QoS 2 exchange (reconnecting client) and over BaseClient Publish -> ErrorWithRetry.Retry chains of depth <=4/5; every transmission attempt (failed writes included) judged",
         "For every message and every placement of up to F faults (request lost, acknowledgement lost, write error, silence until the context expires) every PUBLISH/PUBREL attempt on the wire trace is judged: first attempt DUP=0, later ones DUP=1 with identical id/topic/payload/QoS/retain, QoS 0 attempted once, no PUBLISH after a successfully written PUBREL.",
         RC_NOTE, "DESIGN.md 3 C12"),
 "C14": ("bounded-exhaustive enumeration of all filter strings over {a,b,+,#,/} (length<=6 quick / <=8 thorough) x all topics over {a,b,/} (length<=5 / <=7) and of all ordered ServeMux registrations of <=3 handlers from an 8-filter pool, compared with an independent level-recursive reference of MQTT 3.1.1 section 4.7",
         "The complete bounded input space is evaluated on the real validator, matcher and ServeMux and compared with a reference written from section 4.7 independently of filter.go; the state space is the input space.",
         "trusted: the reference matcher/validator; alphabets larger than two literal characters and longer strings are not covered ('$' topics are excluded by the statement)",
         "DESIGN.md 3 C14"),
 "C19": ("bounded-exhaustive enumeration of error chains (depth<=3 quick / <=5 thorough, 6 wrapper kinds, 19 bases x 19 targets) and exhaustive schedule exploration (P<=2/3) of every request kind x failure step on real BaseClients, with Retry replayed on a fresh connected client; RetryClient response-timeout errors checked with errors.As, and the ending reported by RetryClient.Ping (caller context first vs ResponseTimeout first) with errors.Is / errors.As",
         "errors.Is on every generated chain must equal membership computed from the construction recipe; io.EOF and nil pass through; every interrupted QoS>=1 publish/subscribe/unsubscribe on a real client (write error, peer close, context cancel, also between PUBREC and PUBCOMP) returns an ErrorWithRetry whose Retry re-issues exactly that request on the client it is given; an expired response timeout is identifiable as RequestTimeoutError.",
         "trusted: the construction-recipe oracle, scripted peer, vrt scheduler; chains deeper than the bound are not covered",
         "DESIGN.md 3 C19"),
 "C20": ("bounded-exhaustive enumeration of messages x lists of 1-3 mutating handlers through ServeMux, and exhaustive schedule exploration (P<=2/3) of ServeAsync handler tasks against a caller that mutates and reuses its message",
         "Every handler of every enumerated (message, handler list, mutation kind) must observe exactly the original content and the caller's message must be unchanged; asynchronous handlers are real library goroutines run under the controlled scheduler against a caller overwriting its message after Serve returned, for all schedules within the preemption bound.",
         "trusted: the oracle's deep-copy bookkeeping, vrt scheduler; payloads longer than 3 bytes and more than 3 handlers are not covered",
         "DESIGN.md 3 C20"),
 "C07": ("exhaustive exploration (all acknowledgement orders and foreign/duplicate/unsolicited acknowledgements as free choices; preemptions P<=2/3, select deviations S<=1) of K=2,3 concurrent real BaseClient callers against a scripted peer",
         "For every pair/triple of request kinds the peer delivers the owed acknowledgements in every order, optionally preceded or followed by acknowledgements of other kinds/identifiers, duplicates and unsolicited packets; in a second mode it answers inside the client's Write under all schedules within the preemption bound. A call may return nil only after its own final acknowledgement was delivered, every call returns once its acknowledgements are delivered, Subscribe returns the granted QoS in order; every SUBACK return-code vector over {0,1,2,0x80}^n and wrong lengths is enumerated.",
         "trusted: vrt scheduler+shims, rewriter, scripted peer, independent codec; more than 3 concurrent callers and identifiers beyond the ones drawn are not covered",
         "DESIGN.md 3 C07"),
 "C08": ("stateless exhaustive DFS over fault placements of the real reconnecting client for every Subscribe/Unsubscribe call sequence of the bounded alphabet x (session kept, AlwaysResubscribe, CleanSession) configurations; table oracle at quiescence; exhaustive enumeration of the bookkeeping type against a map",
         "Every call sequence of length<=2/3 over a 10-symbol alphabet (repeated filters, changed QoS, multi-filter calls, duplicates inside a call, unsubscribing absent filters, a publish) is run with every placement of <=F connection cuts; at quiescence the broker model's subscription table must equal the fold of the accepted calls, no resubscription may appear on the first connection, and with a kept session no SUBSCRIBE may be acknowledged more often than the application asked for.",
         RC_NOTE, "DESIGN.md 3 C08"),
 "C10": ("happens-before race monitor (vector clocks over exactly the Go memory model edges) and chunked-write atomicity oracle evaluated on every execution of an exhaustive, deviation-bounded schedule exploration of all call pairs on BaseClient and on the reconnecting client (with a reconnect in progress)",
         "Every unordered pair of API calls runs concurrently with each other, with the reader acknowledging inbound QoS 1/2 traffic and (upper layers) with a reconnect; all schedules within the stated preemption / delay bound are executed on the instrumented real code; any two conflicting accesses not ordered by happens-before are reported (so detection does not depend on the accesses being adjacent in a lucky run), and every Write must stay contiguous on a transport that hands each Write to the peer in two chunks.",
         "trusted: vrt scheduler+shims and the vector-clock monitor, rewriter instrumentation of struct fields, maps, captured variables and slice/array elements (data reached only through copy/append or behind pointers handed to user code is not instrumented); transport reads/writes are not treated as happens-before edges",
         "DESIGN.md 3 C10, 2.6"),
 "C11": ("exhaustive schedule exploration (P<=1/2 after settling, P<=2/3 S<=1 T<=1 with a racing cause) of every blocking call x exchange step x cause on a real BaseClient / ReconnectClient under virtual time",
         "For every call kind, every step of its exchange and every cause (context cancel, deadline, local Close, peer close, malformed packet, cause before the call) alone and in pairs, at quiescence no caller is still blocked, a cancelled context is reported as that context's error, Done() is closed and the reader task has exited when the connection ended.",
         "trusted: vrt scheduler+shims (virtual time, context shim), scripted peer; known finding recorded for calls issued while a Connect is stalled",
         "DESIGN.md 3 C11"),
 "C15": ("exhaustive enumeration of all 65,536 counter states and full wrap-around cycles; fine-grained (every field access a scheduling point) exhaustive exploration with P<=2/3 of 2-3 concurrent callers around the wrap with the happens-before race monitor; one deterministic long-outstanding history",
         "All counter states are enumerated for zero/repeat; concurrent callers are explored with field-level scheduling points so a non-atomic increment yields a duplicate identifier or a reported race; caller-supplied identifiers must pass through unchanged.",
         "trusted: vrt scheduler+shims, race monitor, rewriter; more than 3 concurrent callers not covered; the long-outstanding wrap-around reuse is a recorded known finding",
         "DESIGN.md 3 C15"),
 "C09": ("exhaustive enumeration of all scripts of <=3/4 consecutive connection-attempt outcomes (7 outcome kinds) x 4 (base,max) settings executed on the real ReconnectClient under exact virtual time, with every single (thorough: double) scheduling deviation; Disconnect / context cancellation at every instant of a time grid",
         "For every script of dial errors, refused/absent CONNACKs, peer closes, protocol errors and keep-alive timeouts the real reconnect loop runs under a virtual clock: the wait before each redial is measured exactly and must respect the doubling lower bound (restarting after a success), no dial may happen while an earlier transport is open, every connection starts with one identical CONNECT, and after Disconnect / cancellation (issued at every instant of a grid, also +-1 ns around timer instants) no dial may start and Disconnect must return.",
         "trusted: vrt scheduler+shims (virtual clock, timers, context), scripted per-attempt peer; scripts longer than the bound and wait settings other than the four listed are not covered",
         "DESIGN.md 3 C09"),
 "C13": ("exhaustive enumeration of ping-outcome sequences x (interval,timeout) settings x cancellation instants (free choice over a grid incl. +-1 ns around every tick and deadline) of the real KeepAlive loop against a scripted Client under exact virtual time (S<=1, P<=2), compared with a reference simulation of Go's ticker; plus fault enumeration (peer goes silent at any packet) on the real ReconnectClient",
         "Ping start times must equal the reference ticker simulation exactly; KeepAlive may report ErrPingTimeout only when a ping deadline really passed before any cancellation, the context's error when the parent was cancelled, the ping's own error otherwise, and must keep running while answers arrive in time; a connection whose broker went silent must be closed within interval+timeout and replaced, a healthy one never.",
         "trusted: vrt virtual clock / ticker model (capacity-1 channel, dropped ticks), scripted Client, broker model; early (slow-computation) timer firings are deliberately not used here because the oracle is about exact times",
         "DESIGN.md 3 C13"),
 "C16": ("exhaustive schedule exploration (P<=1/2, S<=1) of every combination of CONNACK outcome x ending event x Disconnect x order (sequenced and racing) on a real BaseClient with a per-connection monitor; fault enumeration on the real ReconnectClient with keep-alive, every BaseClient handed out by the dialer monitored, virtual time running several keep-alive intervals past each reconnect",
         "The callback log, Err() and Done() of every connection are judged against the statement: Active at most once and only after an accepting CONNACK, Closed exactly once with the error Err() returns when the connection ended without Disconnect, Disconnected exactly once and never followed by Closed, Err() nil while healthy and after a graceful Disconnect, Done() closed iff ended; overlapping Disconnect/ending races accept both linearisations.",
         "trusted: vrt scheduler+shims, scripted peer / broker model, the monitor's classification of races (an ending event inside the Disconnect call interval is treated as concurrent)",
         "DESIGN.md 3 C16"),
 "C17": ("stateless exhaustive DFS over fault placements (F<=2/3) and preemptions (P<=1/2) of the real reconnecting client with Handle called in every phase (before Connect, settled, immediately, during an outage, during the reconnect handshake, replaced later) while the broker model pushes messages right after every CONNACK",
         "Every message the broker pushes on a connection whose inbound exchange completed must be handed exactly once to a handler that was registered when it was sent or later; never twice.",
         RC_NOTE, "DESIGN.md 3 C17"),
 "C18": ("stateless exhaustive DFS over placements of 'answer withheld, link stays up' faults (F<=2/3) on first transmissions and retransmissions of every request kind, with early timer firings (T<=1), on the real RetryClient with ResponseTimeout under virtual time",
         "For QoS 1 publish, QoS 2 publish (either phase), subscribe and unsubscribe: whenever an answer is withheld the connection must be closed within ResponseTimeout, a RequestTimeoutError must reach OnError, and at quiescence every accepted request must be acknowledged on a later connection (never stalled).",
         RC_NOTE, "DESIGN.md 3 C18"),
}
NA = {}

m = json.load(open(os.path.join(V, 'MANIFEST.json')))
m["checks"] = []
m["not_applicable"] = []
for p in props:
    i = p["id"]
    if i in CHECKS:
        tech, text, note, ref = CHECKS[i]
        m["checks"].append({
            "property_id": i,
            "quick_cmd": f"./bin/vcheck run {i} --tier quick",
            "thorough_cmd": f"./bin/vcheck run {i} --tier thorough",
            "evidence_file": f"/verif/evidence/{i}.json",
            "replay_cmd_template": "./bin/vcheck replay {path}",
            "engine": "vrt",
            "level_claimed": {"category": "model_checking", "text": text, "design_ref": ref},
            "level_note": note,
            "technique": tech,
        })
    else:
        m["not_applicable"].append({"property_id": i, "reason": NA.get(i, "check under construction in this session (engine built; harness for this property not yet registered)")})
m["notes"] = ("exit 0 held / 1 VIOLATION / 2 engine or build error (never a verdict). Known findings (open and fixed): known_findings.json; "
              "counterexamples as found: findings/; seeded changes and which check reports them: seeded/ (tools/seeded_regress.sh); "
              "behaviour-preserving refactorings as negative controls: benign/ (tools/benign_regress.sh); what each tier covered on its last run: "
              "docs/COVERAGE.md. See DESIGN.md (section 9: as built).")
json.dump(m, open(os.path.join(V, 'MANIFEST.json'), 'w'), indent=1)
print("checks:", [c["property_id"] for c in m["checks"]])
