#!/usr/bin/env python3
"""Regenerates /verif/MANIFEST.json from the table below (kept next to the checks it describes)."""
import json, os
V = os.path.dirname(os.path.dirname(os.path.abspath(__file__)))
props = [json.loads(l) for l in open(os.path.join(V, 'properties.jsonl'))]

# id -> (technique, level text, level note, design ref)
CHECKS = {
 "C04": ("exhaustive enumeration of all inbound packet sequences (length<=4 quick / <=6 thorough over a 12-symbol alphabet, 4 delivery modes) executed on the real BaseClient under the vrt controlled scheduler, compared step by step with a reference receiver",
         "Every broker->client sequence of the bounded alphabet is executed against the real reader goroutine under a controlled scheduler and its single timeline of handler calls and written acknowledgements must equal a reference QoS0/1/2 receiver written from MQTT 3.1.1 section 4.3; short sequences are additionally explored under all schedules with <=1 preemption and a yielding handler. Holds for every sequence within the bound, not for a sample.",
         "trusted: vrt scheduler+shims, rewriter, scripted peer, independent codec, reference receiver; unbounded sequence length and identifiers other than 1..3 are not covered",
         "DESIGN.md 3 C04"),
}
NA = {}

m = json.load(open(os.path.join(V, 'MANIFEST.json')))
m["checks"] = []
m["not_applicable"] = []
for p in props:
    i = p["id"]
    if i in CHECKS:
        tech, text, note, ref = CHECKS[i]
        m["checks"].append({
            "property_id": i,
            "quick_cmd": f"./bin/vcheck run {i} --tier quick",
            "thorough_cmd": f"./bin/vcheck run {i} --tier thorough",
            "evidence_file": f"/verif/evidence/{i}.json",
            "replay_cmd_template": "./bin/vcheck replay {path}",
            "engine": "vrt",
            "level_claimed": {"category": "model_checking", "text": text, "design_ref": ref},
            "level_note": note,
            "technique": tech,
        })
    else:
        m["not_applicable"].append({"property_id": i, "reason": NA.get(i, "check under construction in this session (engine built; harness for this property not yet registered)")})
json.dump(m, open(os.path.join(V, 'MANIFEST.json'), 'w'), indent=1)
print("checks:", [c["property_id"] for c in m["checks"]])
