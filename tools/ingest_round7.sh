#!/bin/sh
# usage: tools/ingest_round5.sh <id>: copies /tmp/mt7/<id>/out into seeded/<id>-11 and -12
ID=$1
S=/verif/seeded
for n in 1 2; do
  k=$((n+10))
  [ -f /tmp/mt7/$ID/out/change$n.diff ] || { echo "missing change$n for $ID"; continue; }
  mkdir -p $S/$ID-$k
  cp /tmp/mt7/$ID/out/change$n.diff $S/$ID-$k/patch.diff
  cp /tmp/mt7/$ID/out/zz_demo${n}_test.go $S/$ID-$k/demo_test.go
  echo "$ID" > $S/$ID-$k/claims.txt
done
cp /tmp/mt7/$ID/out/notes.md $S/$ID-round7-notes.md 2>/dev/null
