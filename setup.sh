#!/bin/sh
# Builds the coordinator from files on disk only (stdlib, no module downloads), pre-warms the
# Go build cache for the instrumented harness and runs the engine self-checks.
set -e
cd "$(dirname "$0")"
export GOFLAGS=-mod=mod GOPROXY=off GOSUMDB=off GOTOOLCHAIN=local CGO_ENABLED=0
mkdir -p bin evidence replays
go build -o bin/vcheck ./cmd/vcheck
./bin/vcheck run SELF --budget 120
