module verif

go 1.18
