#!/bin/sh
# usage: mutate.sh <check> <patch-or-sed-script.sh> : runs a check against a scratch copy of /repo with a change applied
set -e
ID=$1; shift
D=$(mktemp -d /tmp/mut.XXXXXX)
cp -r /repo/. $D/
rm -rf $D/.git
(cd $D && sh -c "$1")
(cd $D && GOFLAGS=-mod=mod GOPROXY=off GOSUMDB=off GOTOOLCHAIN=local go build ./... ) || { echo "MUTANT DOES NOT BUILD"; rm -rf $D; exit 3; }
if [ -z "$SKIPTESTS" ]; then (cd $D && GOFLAGS=-mod=mod GOPROXY=off GOSUMDB=off GOTOOLCHAIN=local go test -vet=off -count=1 . >/dev/null 2>&1) || echo "NOTE: baseline tests FAIL with this mutant"; fi
shift
VERIF_REPO=$D VERIF_EVIDENCE_DIR=$D/.evidence /verif/bin/vcheck run $ID "$@" 2>&1 | grep -E "^(VIOLATION|KNOWN|  key|C[0-9]+ tier|vcheck)" | head -${HEADN:-8}
echo "exit=$?"
rm -rf $D
