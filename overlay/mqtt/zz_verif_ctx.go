//go:build verif

package mqtt

import "context"

type contextT = context.Context
