//go:build verif

package mqtt

// Thin exported wrappers around internals that the verification oracles need, one file per group.
// The files are injected by a go build overlay; they never exist in the repository.  If a file of
// this group does not compile against the tree under check (an internal was renamed or changed
// shape), the coordinator swaps in the stub of the same name from overlay/mqtt_stubs, the flag
// below becomes false and the white-box part that needs the group is skipped and reported as such.

import "io"

const VerifHasCodec = true

func VerifPack(packetType byte, contents ...[]byte) []byte { return pack(packetType, contents...) }
func VerifRemainingLength(n int) []byte                    { return remainingLength(n) }

func VerifReadPacket(r io.Reader) (byte, byte, []byte, error) {
	t, f, c, err := readPacket(r)
	return byte(t), f, c, err
}

func VerifPackPublish(m *Message) []byte { return (&pktPublish{Message: m}).Pack() }
func VerifPackConnect(level ProtocolLevel, clean bool, keepAlive uint16, clientID, user, pass string, will *Message) []byte {
	return (&pktConnect{ProtocolLevel: level, CleanSession: clean, KeepAlive: keepAlive, ClientID: clientID, UserName: user, Password: pass, Will: will}).Pack()
}
func VerifPackSubscribe(id uint16, subs []Subscription) []byte {
	return (&pktSubscribe{ID: id, Subscriptions: subs}).Pack()
}
func VerifPackUnsubscribe(id uint16, topics []string) []byte {
	return (&pktUnsubscribe{ID: id, Topics: topics}).Pack()
}
func VerifPackPubAck(id uint16) []byte  { return (&pktPubAck{ID: id}).Pack() }
func VerifPackPubRec(id uint16) []byte  { return (&pktPubRec{ID: id}).Pack() }
func VerifPackPubRel(id uint16) []byte  { return (&pktPubRel{ID: id}).Pack() }
func VerifPackPubComp(id uint16) []byte { return (&pktPubComp{ID: id}).Pack() }

func VerifParse(ptype byte, flag byte, contents []byte) (any, error) {
	switch packetType(ptype << 4) {
	case packetConnAck:
		return (&pktConnAck{}).Parse(flag, contents)
	case packetPublish:
		p, err := (&pktPublish{}).Parse(flag, contents)
		if err != nil {
			return nil, err
		}
		return p.Message, nil
	case packetPubAck:
		return (&pktPubAck{}).Parse(flag, contents)
	case packetPubRec:
		return (&pktPubRec{}).Parse(flag, contents)
	case packetPubRel:
		return (&pktPubRel{}).Parse(flag, contents)
	case packetPubComp:
		return (&pktPubComp{}).Parse(flag, contents)
	case packetSubAck:
		return (&pktSubAck{}).Parse(flag, contents)
	case packetUnsubAck:
		return (&pktUnsubAck{}).Parse(flag, contents)
	case packetPingResp:
		return (&pktPingResp{}).Parse(flag, contents)
	}
	return nil, nil
}
