//go:build verif

package mqtt

// Thin exported wrappers around internals that the verification oracles need, one file per group.
// The files are injected by a go build overlay; they never exist in the repository.  If a file of
// this group does not compile against the tree under check (an internal was renamed or changed
// shape), the coordinator swaps in the stub of the same name from overlay/mqtt_stubs, the flag
// below becomes false and the white-box part that needs the group is skipped and reported as such.

import "context"

const VerifHasErrors = true

func VerifWrapError(err error, failure string) error { return wrapError(err, failure) }
func VerifWrapErrorf(err error, format string, a ...interface{}) error {
	return wrapErrorf(err, format, a...)
}
func VerifWrapErrorWithRetry(err error, failure string) error {
	return wrapErrorWithRetry(err, func(ctx context.Context, cli *BaseClient) error { return nil }, failure)
}
func VerifNewRequestTimeoutError(err error) error { return &RequestTimeoutError{err} }
