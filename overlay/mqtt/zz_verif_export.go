//go:build verif

package mqtt

import "io"

// Thin exported wrappers around internals that the verification oracles need.
// This file is injected by a go build overlay; it never exists in the repository.

func VerifPack(packetType byte, contents ...[]byte) []byte { return pack(packetType, contents...) }
func VerifRemainingLength(n int) []byte                   { return remainingLength(n) }

func VerifReadPacket(r io.Reader) (byte, byte, []byte, error) {
	t, f, c, err := readPacket(r)
	return byte(t), f, c, err
}

func VerifPackPublish(m *Message) []byte { return (&pktPublish{Message: m}).Pack() }
func VerifPackConnect(level ProtocolLevel, clean bool, keepAlive uint16, clientID, user, pass string, will *Message) []byte {
	return (&pktConnect{ProtocolLevel: level, CleanSession: clean, KeepAlive: keepAlive, ClientID: clientID, UserName: user, Password: pass, Will: will}).Pack()
}
func VerifPackSubscribe(id uint16, subs []Subscription) []byte {
	return (&pktSubscribe{ID: id, Subscriptions: subs}).Pack()
}
func VerifPackUnsubscribe(id uint16, topics []string) []byte {
	return (&pktUnsubscribe{ID: id, Topics: topics}).Pack()
}
func VerifPackPubAck(id uint16) []byte  { return (&pktPubAck{ID: id}).Pack() }
func VerifPackPubRec(id uint16) []byte  { return (&pktPubRec{ID: id}).Pack() }
func VerifPackPubRel(id uint16) []byte  { return (&pktPubRel{ID: id}).Pack() }
func VerifPackPubComp(id uint16) []byte { return (&pktPubComp{ID: id}).Pack() }

// VerifParse runs the parser of the given inbound packet type; it returns a rendering of the
// parsed packet and the error.
func VerifParse(ptype byte, flag byte, contents []byte) (any, error) {
	switch packetType(ptype << 4) {
	case packetConnAck:
		return (&pktConnAck{}).Parse(flag, contents)
	case packetPublish:
		p, err := (&pktPublish{}).Parse(flag, contents)
		if err != nil {
			return nil, err
		}
		return p.Message, nil
	case packetPubAck:
		return (&pktPubAck{}).Parse(flag, contents)
	case packetPubRec:
		return (&pktPubRec{}).Parse(flag, contents)
	case packetPubRel:
		return (&pktPubRel{}).Parse(flag, contents)
	case packetPubComp:
		return (&pktPubComp{}).Parse(flag, contents)
	case packetSubAck:
		return (&pktSubAck{}).Parse(flag, contents)
	case packetUnsubAck:
		return (&pktUnsubAck{}).Parse(flag, contents)
	case packetPingResp:
		return (&pktPingResp{}).Parse(flag, contents)
	}
	return nil, nil
}

func VerifNewTopicFilter(filter string) ([]string, error) {
	f, err := newTopicFilter(filter)
	return []string(f), err
}

func VerifFilterMatch(filter []string, topic string) bool { return topicFilter(filter).Match(topic) }

func VerifWrapError(err error, failure string) error { return wrapError(err, failure) }
func VerifWrapErrorf(err error, format string, a ...interface{}) error {
	return wrapErrorf(err, format, a...)
}
func VerifWrapErrorWithRetry(err error, failure string) error {
	return wrapErrorWithRetry(err, func(ctx contextT, cli *BaseClient) error { return nil }, failure)
}

func VerifApplySubs(calls [][]Subscription, unsub [][]string, order []bool) []Subscription {
	var d subscriptions
	si, ui := 0, 0
	for _, isSub := range order {
		if isSub {
			subscriptions(calls[si]).applyTo(&d)
			si++
		} else {
			unsubscriptions(unsub[ui]).applyTo(&d)
			ui++
		}
	}
	return []Subscription(d)
}

func VerifCloneMessage(m *Message) *Message { return m.clone() }

// VerifIDLast exposes the packet identifier counter.
func VerifSetIDLast(c *BaseClient, v uint32) { c.idLast = v }
func VerifNewID(c *BaseClient) uint16       { return c.newID() }

// VerifNewRequestTimeoutError builds the error that requestContext.Err returns (its embedded field is unexported).
func VerifNewRequestTimeoutError(err error) error { return &RequestTimeoutError{err} }
