//go:build verif

package mqtt

// Thin exported wrappers around internals that the verification oracles need, one file per group.
// The files are injected by a go build overlay; they never exist in the repository.  If a file of
// this group does not compile against the tree under check (an internal was renamed or changed
// shape), the coordinator swaps in the stub of the same name from overlay/mqtt_stubs, the flag
// below becomes false and the white-box part that needs the group is skipped and reported as such.

const VerifHasIDs = true

func VerifSetIDLast(c *BaseClient, v uint32) { c.idLast = v }
func VerifNewID(c *BaseClient) uint16        { return c.newID() }
