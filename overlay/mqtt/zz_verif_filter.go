//go:build verif

package mqtt

// Thin exported wrappers around internals that the verification oracles need, one file per group.
// The files are injected by a go build overlay; they never exist in the repository.  If a file of
// this group does not compile against the tree under check (an internal was renamed or changed
// shape), the coordinator swaps in the stub of the same name from overlay/mqtt_stubs, the flag
// below becomes false and the white-box part that needs the group is skipped and reported as such.

const VerifHasFilter = true

func VerifNewTopicFilter(filter string) ([]string, error) {
	f, err := newTopicFilter(filter)
	return []string(f), err
}

func VerifFilterMatch(filter []string, topic string) bool { return topicFilter(filter).Match(topic) }
