//go:build verif

// Package vrt is a cooperative scheduler ("virtual runtime") under which the
// real, source-rewritten library code is executed one task at a time.  Every
// visible operation (lock acquire, channel operation, select, go, atomic,
// transport I/O, environment choice) first publishes a pending-operation
// descriptor and yields to the scheduler, which picks one enabled task.  All
// nondeterminism is funnelled through World.choose, which either replays a
// prefix of recorded choices or takes alternative 0; the explorer in
// explore.go enumerates the alternatives.
package vrt

import (
	"fmt"
	"runtime"
	"sort"
	"strings"
	"sync"
	"unsafe"
)

// ChoiceKind classifies a choice point; the explorer charges budgets by kind.
type ChoiceKind uint8

const (
	KSched  ChoiceKind = iota // which enabled task runs next
	KSelect                   // which ready select case fires
	KFault                    // environment fault (alternative 0 = no fault)
	KFree                     // free enumeration (data / peer behaviour)
	KTime                     // environment timing deviation (alternative 0 = default), charged to T
)

func (k ChoiceKind) String() string {
	return [...]string{"sched", "select", "fault", "free", "time"}[k]
}

// Point is one recorded choice point of an execution.
type Point struct {
	Kind     ChoiceKind
	N        int  // number of alternatives (>=2)
	Taken    int  // alternative taken
	CurFirst bool // KSched: alternative 0 continues the still-enabled running task
	TimerAlt bool // KSched: last alternative is "fire earliest timer now"
	FP       uint64
	Label    string
}

type opKind uint8

const (
	opNone opKind = iota
	opStart
	opResume
	opLock
	opRLock
	opOnce
	opWait
	opSend
	opRecv
	opSelect
	opSimple // always enabled visible operation (close, go, atomic, unlock-free ops ...)
	opAwait
	opSettle
	opQuiesce
)

type selCase struct {
	ch   *chanState
	send bool
	val  any
}

type pendingOp struct {
	kind    opKind
	enabled func() bool
	mu      *MutexState
	rw      *RWState
	once    *OnceState
	wg      *WGState
	cw      *condWaiter
	ch      *chanState
	sel     []selCase
	hasDef  bool
	desc    string
	arg     int
	site    string
}

// Task is one goroutine of the program under test.
type Task struct {
	id     int
	name   string
	wake   chan struct{}
	pend   pendingOp
	done   bool
	parked bool
	h      uint64 // history hash
	nobj   uint64

	// rendezvous completion by the partner
	arrived bool // registered as waiting on its channel operation (rendezvous partner search)
	rvDone  bool
	rvVal   any
	rvOK    bool
	rvIdx   int

	// Daemon tasks may stay blocked for ever without this being a deadlock.
	daemon bool
}

func (t *Task) String() string { return fmt.Sprintf("T%d(%s)", t.id, t.name) }

// Failure describes why an execution was judged bad.
type Failure struct {
	Kind string // "panic", "deadlock", "oracle", "engine"
	Key  string
	Msg  string
}

// World is the state of one execution.
type World struct {
	tasks   []*Task
	cur     *Task
	dead    bool
	chans   map[unsafe.Pointer]*chanState
	now     int64
	timers  []*Timer
	tseq    int
	horizon int64

	prefix []int
	pos    int
	points []Point

	steps    int
	stepCap  int
	capHit   bool
	failures []Failure
	fatal    bool

	earlyTimers bool
	dueTimers   bool // a timer whose deadline is already reached may fire while tasks are still enabled (costs T, time does not move)
	fine        bool // every instrumented memory access is a scheduling point
	trace       bool
	traceLog    []string

	fin   chan struct{}
	wg    sync.WaitGroup
	objH  map[unsafe.Pointer]*uint64
	evlog uint64

	RandInt31n func(n int32) int32

	// Race monitor
	race *raceState

	userData any
	enBuf    []*Task
}

// W is the current world.  Exactly one world exists per process at a time.
var W *World

// Config configures one execution.
type Config struct {
	Prefix      []int
	Horizon     int64 // virtual ns; timers beyond never fire
	StepCap     int
	EarlyTimers bool
	DueTimers   bool
	Fine        bool
	Trace       bool
	Race        bool
}

// Outcome is what one execution produced.
type Outcome struct {
	Points   []Point
	Failures []Failure
	CapHit   bool
	Steps    int
	Trace    []string
	Now      int64
	FinalFP  uint64
}

// Execute runs body as task 0 of a fresh world and returns when the execution is over.
func Execute(cfg Config, body func()) Outcome {
	w := &World{
		chans:       map[unsafe.Pointer]*chanState{},
		objH:        map[unsafe.Pointer]*uint64{},
		prefix:      cfg.Prefix,
		horizon:     cfg.Horizon,
		stepCap:     cfg.StepCap,
		earlyTimers: cfg.EarlyTimers,
		dueTimers:   cfg.DueTimers,
		fine:        cfg.Fine,
		trace:       cfg.Trace,
		fin:         make(chan struct{}),
		points:      make([]Point, 0, 256),
		enBuf:       make([]*Task, 0, 16),
	}
	if w.stepCap == 0 {
		w.stepCap = 200000
	}
	if cfg.Race {
		w.race = newRaceState()
	}
	W = w
	t := w.newTask("main")
	w.cur = t
	t.pend = pendingOp{kind: opStart}
	w.wg.Add(1)
	go func() {
		defer w.wg.Done()
		defer w.taskEpilogue(t)
		body()
	}()
	<-w.fin
	w.wg.Wait()
	o := Outcome{Points: w.points, Failures: w.failures, CapHit: w.capHit, Steps: w.steps, Trace: w.traceLog, Now: w.now, FinalFP: w.fingerprint()}
	W = nil
	return o
}

func (w *World) newTask(name string) *Task {
	t := &Task{id: len(w.tasks), name: name, wake: make(chan struct{}, 1)}
	t.h = mix(0x9e3779b97f4a7c15, uint64(t.id))
	w.tasks = append(w.tasks, t)
	if w.race != nil {
		w.race.newTask(t)
	}
	return t
}

// taskEpilogue runs (deferred) when a task's function returns, panics or Goexits.
func (w *World) taskEpilogue(t *Task) {
	if r := recover(); r != nil {
		if !w.dead {
			buf := make([]byte, 16384)
			buf = buf[:runtime.Stack(buf, false)]
			w.fail(Failure{Kind: "panic", Key: "panic:" + panicKey(r, buf), Msg: fmt.Sprintf("panic in %s: %v\n%s", t, r, trimStack(buf))})
			w.fatal = true
			w.end()
		}
		return
	}
	if w.dead {
		return
	}
	// normal return of the task function
	t.done = true
	if w.trace {
		w.tracef("%s exits", t)
	}
	if t.id == 0 {
		w.end()
		return
	}
	next := w.pick()
	if next == nil {
		w.deadlock()
		return
	}
	w.cur = next
	next.parked = false
	next.wake <- struct{}{}
}

func panicKey(r any, stack []byte) string {
	s := fmt.Sprint(r)
	// first library frame
	for _, ln := range strings.Split(string(stack), "\n") {
		if strings.Contains(ln, "mqtt-go.") && !strings.Contains(ln, "internal/verif") {
			fn := strings.TrimSpace(ln)
			if i := strings.LastIndex(fn, "("); i > 0 {
				fn = fn[:i]
			}
			if j := strings.LastIndex(fn, "/"); j >= 0 {
				fn = fn[j+1:]
			}
			return fn + ":" + s
		}
	}
	return s
}

func trimStack(b []byte) string {
	lines := strings.Split(string(b), "\n")
	if len(lines) > 40 {
		lines = lines[:40]
	}
	return strings.Join(lines, "\n")
}

// end terminates the execution: every parked task is released and leaves via Goexit.
func (w *World) end() {
	if w.dead {
		return
	}
	w.dead = true
	for _, t := range w.tasks {
		if !t.done && t != w.cur {
			select {
			case t.wake <- struct{}{}:
			default:
			}
		}
	}
	close(w.fin)
}

func (w *World) fail(f Failure) {
	if len(w.failures) < 8 {
		w.failures = append(w.failures, f)
	}
}

func (w *World) deadlock() {
	var sb strings.Builder
	for _, t := range w.tasks {
		if t.done {
			continue
		}
		fmt.Fprintf(&sb, "  %s blocked on %s %s\n", t, t.pend.desc, t.pend.site)
	}
	key := "deadlock"
	// key by the blocked main task operation, which is what the scenario was waiting for
	if len(w.tasks) > 0 && !w.tasks[0].done {
		key += ":" + w.tasks[0].pend.desc
	}
	w.fail(Failure{Kind: "deadlock", Key: key, Msg: "no enabled task and no pending timer:\n" + sb.String()})
	w.fatal = true
	w.end()
}

// Failf records an oracle failure for the current execution.
func Failf(key, format string, a ...any) {
	w := W
	if w == nil || w.dead {
		return
	}
	w.fail(Failure{Kind: "oracle", Key: key, Msg: fmt.Sprintf(format, a...)})
}

// Failed reports whether a failure was recorded already.
func Failed() bool { return W != nil && len(W.failures) > 0 }

func (w *World) engineError(format string, a ...any) {
	msg := fmt.Sprintf(format, a...)
	w.fail(Failure{Kind: "engine", Key: "engine", Msg: msg})
	w.fatal = true
	w.end()
	runtime.Goexit()
}

func (w *World) tracef(format string, a ...any) {
	w.traceLog = append(w.traceLog, fmt.Sprintf("[%6d t=%dms] ", w.steps, w.now/1e6)+fmt.Sprintf(format, a...))
}

// Tracef lets harness code add a line to the execution trace (replay mode only).
func Tracef(format string, a ...any) {
	if W != nil && W.trace && !W.dead {
		W.tracef(format, a...)
	}
}

// Tracing reports whether a trace is being recorded.
func Tracing() bool { return W != nil && W.trace }

func callerSite() string {
	var pcs [24]uintptr
	n := runtime.Callers(3, pcs[:])
	fr := runtime.CallersFrames(pcs[:n])
	for {
		f, more := fr.Next()
		if !strings.Contains(f.File, "internal/verif/vrt") && !strings.Contains(f.File, "internal/verif/shim") && !strings.Contains(f.File, "/runtime/") {
			file := f.File
			if i := strings.LastIndex(file, "/"); i >= 0 {
				file = file[i+1:]
			}
			return fmt.Sprintf("%s:%d", file, f.Line)
		}
		if !more {
			break
		}
	}
	return "?"
}

// ---------------------------------------------------------------------------
// Scheduling

func (w *World) opEnabled(t *Task) bool {
	p := &t.pend
	switch p.kind {
	case opStart, opResume, opSimple:
		return true
	case opSend:
		return p.ch.canSend(t)
	case opRecv:
		return p.ch.canRecv(t)
	case opSelect:
		if p.hasDef {
			return true
		}
		for i := range p.sel {
			c := &p.sel[i]
			if c.ch == nil {
				continue
			}
			if c.send && c.ch.canSend(t) || !c.send && c.ch.canRecv(t) {
				return true
			}
		}
		return false
	case opSettle, opQuiesce:
		return false // handled by pick
	case opLock:
		if p.mu != nil {
			return !p.mu.locked
		}
		return !p.rw.writer && p.rw.readers == 0
	case opRLock:
		return !p.rw.writer
	case opOnce:
		return !p.once.running
	case opWait:
		if p.wg != nil {
			return p.wg.n == 0
		}
		return p.cw.signalled
	default:
		return p.enabled == nil || p.enabled()
	}
}

// pick chooses the next task to run (firing timers when nothing else can run).
// It returns nil when nothing can ever run again.
func (w *World) pick() *Task {
	for {
		en := w.enBuf[:0]
		curEnabled := false
		if w.cur != nil && !w.cur.done && w.opEnabled(w.cur) {
			en = append(en, w.cur)
			curEnabled = true
		}
		for _, t := range w.tasks {
			if t == w.cur || t.done {
				continue
			}
			if w.opEnabled(t) {
				en = append(en, t)
			}
		}
		w.enBuf = en[:0]
		if len(en) > 0 {
			timerAlt := false
			if nt := w.nextTimer(); nt != nil {
				timerAlt = w.earlyTimers || w.dueTimers && nt.when <= w.now
			}
			n := len(en)
			if timerAlt {
				n++
			}
			if n == 1 {
				return en[0]
			}
			c := w.choosePoint(Point{Kind: KSched, N: n, CurFirst: curEnabled, TimerAlt: timerAlt})
			if timerAlt && c == n-1 {
				w.fireNext()
				continue
			}
			return en[c]
		}
		// settle: tasks waiting for everybody else to block
		var st []*Task
		for _, t := range w.tasks {
			if !t.done && t.pend.kind == opSettle {
				st = append(st, t)
			}
		}
		if len(st) > 0 {
			if len(st) == 1 {
				return st[0]
			}
			c := w.choosePoint(Point{Kind: KSched, N: len(st)})
			return st[c]
		}
		if w.nextTimer() != nil {
			w.fireNext()
			continue
		}
		for _, t := range w.tasks {
			if !t.done && t.pend.kind == opQuiesce {
				st = append(st, t)
			}
		}
		if len(st) > 0 {
			if len(st) == 1 {
				return st[0]
			}
			c := w.choosePoint(Point{Kind: KSched, N: len(st)})
			return st[c]
		}
		return nil
	}
}

func (w *World) choosePoint(p Point) int {
	i := w.pos
	w.pos++
	c := 0
	if i < len(w.prefix) {
		c = w.prefix[i]
		if c >= p.N || c < 0 {
			w.engineError("replay divergence at point %d: choice %d of %d (%s)", i, c, p.N, p.Kind)
		}
	}
	p.Taken = c
	p.FP = mix(w.fingerprint(), uint64(p.Kind)+1, uint64(p.N))
	w.points = append(w.points, p)
	if w.trace {
		w.tracef("-- choice #%d %s %s: %d of %d", i, p.Kind, p.Label, c, p.N)
	}
	return c
}

// Choose is an explicit environment choice point with n alternatives.
func Choose(kind ChoiceKind, n int, label string) int {
	w := W
	w.checkDead()
	if n <= 1 {
		return 0
	}
	c := w.choosePoint(Point{Kind: kind, N: n, Label: label})
	t := w.cur
	t.h = mix(t.h, 0xC0+uint64(kind)<<8, uint64(c)<<16|uint64(n))
	return c
}

func (w *World) checkDead() {
	if w == nil {
		panic("vrt: operation outside of an execution")
	}
	if w.dead {
		runtime.Goexit()
	}
}

// yield publishes the pending operation of the running task and waits until the
// scheduler chooses this task to perform it.
func (w *World) yield(p pendingOp) {
	w.checkDead()
	t := w.cur
	w.steps++
	if w.steps > w.stepCap {
		w.capHit = true
		w.fatal = true
		w.end()
		runtime.Goexit()
	}
	if w.trace {
		p.site = callerSite()
	}
	t.pend = p
	next := w.pick()
	if next == nil {
		w.deadlock()
		runtime.Goexit()
	}
	if next != t {
		w.cur = next
		t.parked = true
		next.parked = false
		next.wake <- struct{}{}
		<-t.wake
		if w.dead {
			runtime.Goexit()
		}
	}
	if w.trace {
		if t.pend.arg != 0 {
			w.tracef("%s: %s(%d)  @%s", t, t.pend.desc, t.pend.arg-1, t.pend.site)
		} else {
			w.tracef("%s: %s  @%s", t, t.pend.desc, t.pend.site)
		}
	}
}

// Go starts a new task.
func Go(name string, f func()) {
	w := W
	if w == nil { // native mode (see sync.go)
		go f()
		return
	}
	w.checkDead()
	w.yield(pendingOp{kind: opSimple, desc: "go " + name})
	parent := w.cur
	t := w.newTask(name)
	t.h = mix(t.h, parent.h, 0x60)
	parent.h = mix(parent.h, 0x61, uint64(t.id))
	if w.race != nil {
		w.race.fork(parent, t)
	}
	t.pend = pendingOp{kind: opStart, desc: "start"}
	t.parked = true
	w.wg.Add(1)
	go func() {
		defer w.wg.Done()
		defer w.taskEpilogue(t)
		<-t.wake
		if w.dead {
			runtime.Goexit()
		}
		f()
	}()
}

// GoDaemon starts a task that is allowed to block for ever (environment helpers).
func GoDaemon(name string, f func()) {
	Go(name, f)
	if W != nil {
		W.tasks[len(W.tasks)-1].daemon = true
	}
}

// Yield is a plain scheduling point.
func Yield(desc string) {
	if W == nil {
		return
	}
	W.yield(pendingOp{kind: opSimple, desc: desc})
}

// Await blocks the running task until pred holds.
func Await(desc string, pred func() bool) {
	w := W
	w.yield(pendingOp{kind: opAwait, enabled: pred, desc: desc})
	// the predicate read shared state: make that observation part of the task's history
	w.cur.h = mix(w.cur.h, 0x72, w.globalHash())
}

// AwaitN is Await with a numeric argument shown in traces (avoids formatting on the hot path).
func AwaitN(desc string, n int, pred func() bool) {
	W.yield(pendingOp{kind: opAwait, enabled: pred, desc: desc, arg: n + 1})
}

// YieldN is Yield with a numeric argument shown in traces.
func YieldN(desc string, n int) {
	if W == nil {
		return
	}
	W.yield(pendingOp{kind: opSimple, desc: desc, arg: n + 1})
}

// Settle blocks until no other task can make progress without time passing.
func Settle() {
	w := W
	w.yield(pendingOp{kind: opSettle, desc: "settle"})
	w.cur.h = mix(w.cur.h, 0x70, w.globalHash())
}

// Quiesce blocks until no other task can make progress and no timer is pending before the horizon.
func Quiesce() {
	w := W
	w.yield(pendingOp{kind: opQuiesce, desc: "quiesce"})
	w.cur.h = mix(w.cur.h, 0x71, w.globalHash())
}

// CurrentTaskID returns the id of the running task.
func CurrentTaskID() int { return W.cur.id }

// CurrentTaskName returns the name of the running task.
func CurrentTaskName() string { return W.cur.name }

// TaskInfo describes a task for oracles (which library goroutines are still alive).
type TaskInfo struct {
	ID      int
	Name    string
	Done    bool
	Blocked string
}

// Tasks lists all tasks of the execution.
func Tasks() []TaskInfo {
	w := W
	var r []TaskInfo
	for _, t := range w.tasks {
		r = append(r, TaskInfo{ID: t.id, Name: t.name, Done: t.done, Blocked: t.pend.desc})
	}
	return r
}

// Steps returns the number of scheduling steps so far.
func Steps() int { return W.steps }

// ---------------------------------------------------------------------------
// Hashing / fingerprints

func mix(h uint64, vs ...uint64) uint64 {
	for _, v := range vs {
		h ^= v + 0x9e3779b97f4a7c15 + (h << 6) + (h >> 2)
		h *= 0xff51afd7ed558ccd
		h ^= h >> 33
	}
	return h
}

// HashBytes hashes a byte string (FNV-1a 64).
func HashBytes(b []byte) uint64 {
	h := uint64(14695981039346656037)
	for _, c := range b {
		h ^= uint64(c)
		h *= 1099511628211
	}
	return h
}

// HashString hashes a string.
func HashString(s string) uint64 {
	h := uint64(14695981039346656037)
	for i := 0; i < len(s); i++ {
		h ^= uint64(s[i])
		h *= 1099511628211
	}
	return h
}

// objVer returns the version cell of a synchronisation object identified by address.
func (w *World) objVer(p unsafe.Pointer) *uint64 {
	v := w.objH[p]
	if v == nil {
		t := w.cur
		t.nobj++
		v = new(uint64)
		*v = mix(t.h, 0x0b, t.nobj)
		w.objH[p] = v
	}
	return v
}

// event folds an operation of the running task on object p into the happens-before hashes.
func (w *World) event(p unsafe.Pointer, op uint64, res uint64) {
	t := w.cur
	v := w.objVer(p)
	e := mix(t.h, *v, op, res)
	t.h = e
	*v = e
}

// Event records that the running task touched harness object p (a log, a broker) with payload hash res.
func Event(p unsafe.Pointer, res uint64) {
	w := W
	if w == nil || w.dead {
		return
	}
	w.event(p, 0xE0, res)
}

// Observe folds a value observed by the running task into its history (e.g. the clock).
func Observe(v uint64) {
	w := W
	if w == nil || w.dead {
		return
	}
	w.cur.h = mix(w.cur.h, 0xE1, v)
}

func (w *World) globalHash() uint64 {
	hs := make([]uint64, 0, len(w.tasks))
	for _, t := range w.tasks {
		d := uint64(0)
		if t.done {
			d = 1
		}
		hs = append(hs, mix(t.h, uint64(t.id), d))
	}
	sort.Slice(hs, func(i, j int) bool { return hs[i] < hs[j] })
	return mix(uint64(w.now), hs...)
}

func (w *World) fingerprint() uint64 {
	h := uint64(w.now)
	for _, t := range w.tasks {
		d := uint64(0)
		if t.done {
			d = 1
		}
		h = mix(h, t.h, d)
	}
	c := uint64(0xffff)
	if w.cur != nil && !w.cur.done {
		c = uint64(w.cur.id)
	}
	return mix(h, c)
}
