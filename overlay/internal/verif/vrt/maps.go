//go:build verif

package vrt

import (
	"fmt"
	"reflect"
	"sort"
)

// MapEntry is one entry of a map iteration owned by the engine.
type MapEntry[K comparable, V any] struct {
	m map[K]V
	k K
}

// Get returns the entry's key and current value; ok is false when the entry was deleted meanwhile.
func (e MapEntry[K, V]) Get() (K, V, bool) {
	v, ok := e.m[e.k]
	return e.k, v, ok
}

// MapEntries replaces `range m`: Go's map iteration order is unspecified, so it is made an engine
// decision: keys are sorted deterministically and the starting point is a free choice.
func MapEntries[M ~map[K]V, K comparable, V any](m M) []MapEntry[K, V] {
	keys := make([]K, 0, len(m))
	for k := range m {
		keys = append(keys, k)
	}
	sort.Slice(keys, func(i, j int) bool { return keyLess(reflect.ValueOf(keys[i]), reflect.ValueOf(keys[j])) })
	off := 0
	if W != nil && !W.dead && len(keys) > 1 {
		off = Choose(KFree, len(keys), "map iteration start")
	}
	out := make([]MapEntry[K, V], 0, len(keys))
	for i := range keys {
		out = append(out, MapEntry[K, V]{m, keys[(i+off)%len(keys)]})
	}
	return out
}

func keyLess(a, b reflect.Value) bool {
	switch a.Kind() {
	case reflect.Int, reflect.Int8, reflect.Int16, reflect.Int32, reflect.Int64:
		return a.Int() < b.Int()
	case reflect.Uint, reflect.Uint8, reflect.Uint16, reflect.Uint32, reflect.Uint64, reflect.Uintptr:
		return a.Uint() < b.Uint()
	case reflect.String:
		return a.String() < b.String()
	case reflect.Float32, reflect.Float64:
		return a.Float() < b.Float()
	}
	return fmt.Sprintf("%#v", a.Interface()) < fmt.Sprintf("%#v", b.Interface())
}
