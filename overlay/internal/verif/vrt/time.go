//go:build verif

package vrt

import (
	"runtime"
	gotime "time"
	"unsafe"
)

// Timer is a virtual timer.  Its action runs in scheduler context (not as a task).
type Timer struct {
	when   int64
	seq    int
	period int64
	active bool
	fire   func(t *Timer)
	nat    *gotime.Timer // native mode
	clk    vclock        // creator's clock (race monitor: timer creation -> fire)
	h      uint64
}

// Now returns the virtual time in ns since the start of the execution.
func Now() int64 {
	w := W
	if w == nil {
		return 0
	}
	return w.now
}

// NewTimer arms a timer d ns from now.  period>0 re-arms it after each firing.
func NewTimer(d, period int64, fire func(t *Timer)) *Timer {
	w := W
	if w == nil { // native mode (see sync.go): a real timer on the wall clock
		t := &Timer{period: period, active: true, fire: fire}
		var arm func(dd int64)
		arm = func(dd int64) {
			t.nat = gotime.AfterFunc(gotime.Duration(dd), func() {
				if period > 0 {
					arm(period)
				} else {
					t.active = false
				}
				fire(t)
			})
		}
		arm(d)
		return t
	}
	w.checkDead()
	if d < 0 {
		d = 0
	}
	w.tseq++
	t := &Timer{when: w.now + d, seq: w.tseq, period: period, active: true, fire: fire}
	cur := w.cur
	cur.h = mix(cur.h, 0x30, uint64(t.when), uint64(period))
	t.h = cur.h
	if w.race != nil {
		t.clk = w.race.vc[cur.id].clone()
		w.race.tick(cur)
	}
	w.timers = append(w.timers, t)
	return t
}

// Stop disarms the timer; it reports whether the timer was active.
func (t *Timer) Stop() bool {
	w := W
	if w == nil {
		if t.nat != nil {
			was := t.active
			t.active = false
			t.nat.Stop()
			return was
		}
		return false
	}
	if w.dead {
		return false
	}
	was := t.active
	t.active = false
	for i, x := range w.timers {
		if x == t {
			w.timers = append(w.timers[:i], w.timers[i+1:]...)
			break
		}
	}
	r := uint64(0)
	if was {
		r = 1
	}
	w.cur.h = mix(w.cur.h, 0x31, t.h, r)
	return was
}

// Reset re-arms the timer.
func (t *Timer) Reset(d int64) bool {
	was := t.Stop()
	w := W
	if w == nil {
		if t.nat != nil {
			t.active = true
			t.nat.Reset(gotime.Duration(d))
		}
		return was
	}
	if w.dead {
		return was
	}
	if d < 0 {
		d = 0
	}
	t.when = w.now + d
	w.tseq++
	t.seq = w.tseq
	t.active = true
	w.cur.h = mix(w.cur.h, 0x32, uint64(t.when))
	t.h = w.cur.h
	if w.race != nil {
		t.clk = w.race.vc[w.cur.id].clone()
		w.race.tick(w.cur)
	}
	w.timers = append(w.timers, t)
	return was
}

// When returns the deadline.
func (t *Timer) When() int64 { return t.when }

func (w *World) nextTimer() *Timer {
	var best *Timer
	for _, t := range w.timers {
		if !t.active {
			continue
		}
		if best == nil || t.when < best.when || t.when == best.when && t.seq < best.seq {
			best = t
		}
	}
	if best != nil && w.horizon > 0 && best.when > w.horizon {
		return nil
	}
	return best
}

func (w *World) fireNext() {
	t := w.nextTimer()
	if t == nil {
		return
	}
	if t.when > w.now {
		w.now = t.when
	}
	if t.period > 0 {
		t.when += t.period
	} else {
		t.active = false
		for i, x := range w.timers {
			if x == t {
				w.timers = append(w.timers[:i], w.timers[i+1:]...)
				break
			}
		}
	}
	if w.trace {
		w.tracef("timer fires (deadline %dms)", w.now/1e6)
	}
	t.fire(t)
}

// TimerSend deposits v into buffered channel ch on behalf of timer t (dropped when full).
// Must be called from a timer action.
func TimerSend[T any](t *Timer, ch chan T, v T) {
	w := W
	if w == nil {
		select {
		case ch <- v:
		default:
		}
		return
	}
	c := w.chanOf(chanKey(ch), cap(ch))
	ver := w.objVer(c.key)
	if len(c.buf) < c.cap {
		c.buf = append(c.buf, any(v))
		*ver = mix(*ver, 0x33, t.h, uint64(w.now))
		if w.race != nil {
			w.race.timerSend(c, t.clk)
		}
	} else {
		*ver = mix(*ver, 0x34, t.h)
	}
}

// TimerClose closes ch on behalf of timer t.
func TimerClose[T any](t *Timer, ch chan T) {
	w := W
	if w == nil {
		defer func() { recover() }()
		close(ch)
		return
	}
	c := w.chanOf(chanKey(ch), cap(ch))
	if c.closed {
		return
	}
	c.closed = true
	ver := w.objVer(c.key)
	*ver = mix(*ver, 0x35, t.h, uint64(w.now))
	if w.race != nil {
		w.race.timerClose(c, t.clk)
	}
}

// TimerTouch folds a timer-driven state change of object p into its version.
func TimerTouch(t *Timer, p unsafe.Pointer) {
	w := W
	if w == nil {
		return
	}
	ver := w.objVer(p)
	*ver = mix(*ver, 0x36, t.h, uint64(w.now))
}

// TimerGo starts a task from a timer action (time.AfterFunc).
func TimerGo(t *Timer, name string, f func()) {
	w := W
	if w == nil {
		go f()
		return
	}
	nt := w.newTask(name)
	nt.h = mix(nt.h, t.h, 0x37)
	if w.race != nil {
		w.race.vc[nt.id].join(t.clk)
	}
	nt.pend = pendingOp{kind: opStart, desc: "start"}
	nt.parked = true
	w.wg.Add(1)
	go func() {
		defer w.wg.Done()
		defer w.taskEpilogue(nt)
		<-nt.wake
		if w.dead {
			runtime.Goexit()
		}
		f()
	}()
}

// Sleep blocks the running task for d virtual ns.
func Sleep(d int64) {
	w := W
	if w == nil {
		gotime.Sleep(gotime.Duration(d))
		return
	}
	w.checkDead()
	fired := false
	NewTimer(d, 0, func(t *Timer) { fired = true })
	w.yield(pendingOp{kind: opAwait, enabled: func() bool { return fired }, desc: "sleep"})
	w.cur.h = mix(w.cur.h, 0x38, uint64(w.now))
}

// NewSleepChan returns a channel that is closed after d virtual ns.
func NewSleepChan(d int64) <-chan struct{} {
	ch := make(chan struct{})
	NewTimer(d, 0, func(t *Timer) { TimerClose(t, ch) })
	return ch
}
