//go:build verif

package vrt

import (
	"fmt"
	"os"
	"sort"
	"time"
)

var debugCache = os.Getenv("VRT_DEBUG_CACHE") != ""

// maxSeen bounds the state cache of one scenario (about 1.1 GiB per worker process).
const maxSeen = 8_000_000
var debugIns = map[uint64]string{}

// Budget bounds the deviations from the default execution: P preemptions,
// S non-first select cases, T timing deviations (early timer firings / KTime
// choices), F environment faults; Total bounds their sum (0 = no extra bound).
type Budget struct{ P, S, T, F, Total, D int }

func (b Budget) String() string {
	return fmt.Sprintf("P%d.S%d.T%d.F%d.D%d/%d", b.P, b.S, b.T, b.F, b.D, b.Total)
}

func (b Budget) sum() int { return b.P + b.S + b.T + b.F + b.D }

func (b Budget) pack() uint32 {
	return uint32(b.P)<<24 | uint32(b.S)<<16 | uint32(b.T)<<8 | uint32(b.F) | uint32(b.Total)<<28
}

func dominates(a, b Budget) bool { // a >= b componentwise
	return a.P >= b.P && a.S >= b.S && a.T >= b.T && a.F >= b.F && a.D >= b.D && a.Total >= b.Total
}

// Scenario is one closed program explored exhaustively within Bound.
type Scenario struct {
	Name   string
	Params any // recorded in replay files
	Cfg    Config
	Bound  Budget
	Body   func()
	// Observe is called after every execution (outside the world) and returns a hash of the
	// final observation, used to count distinct outcomes.
	Observe func() uint64
	NoCache bool
	// DelayBound makes the choice of a task other than the lowest-numbered enabled one, at a point
	// where the running task blocked or ended, cost one unit of Bound.D (delay bounding); without it
	// such choices are free (plain iterative context bounding).
	DelayBound bool
}

// Stats are the coverage counters of an exploration.
type Stats struct {
	Execs       int64
	States      int64
	Transitions int64
	MaxDepth    int
	MaxPoints   int
	Pruned      int64
	CapHits     int64
	Deviating   int64 // executions with >=1 deviation
	Distinct    map[uint64]struct{}
	DistinctDev map[uint64]struct{}
	Complete    bool
	LevelDone   int // highest total-deviation level completed
	TimedOut    bool
}

// Violation is a failing execution.
type Violation struct {
	Scenario string   `json:"scenario"`
	Params   any      `json:"params,omitempty"`
	Kind     string   `json:"kind"`
	Key      string   `json:"key"`
	Msg      string   `json:"msg"`
	Choices  []int    `json:"choices"`
	Devs     int      `json:"deviations"`
	Trace    []string `json:"trace,omitempty"`
}

// Explorer enumerates all executions of a scenario within its bound.
type Explorer struct {
	Sc         *Scenario
	Deadline   time.Time
	Stats      Stats
	Violations []Violation
	seenKeys   map[string]bool
	seen       map[uint64][]Budget
	bound      Budget
	engineErr  string
}

// EngineError is non-empty when the engine itself misbehaved (replay divergence, non-determinism).
func (e *Explorer) EngineError() string { return e.engineErr }

func (e *Explorer) cost(p *Point, alt int) Budget {
	if alt == 0 {
		return Budget{}
	}
	switch p.Kind {
	case KSched:
		if p.TimerAlt && alt == p.N-1 {
			return Budget{T: 1}
		}
		if p.CurFirst {
			return Budget{P: 1}
		}
		if e.Sc.DelayBound {
			return Budget{D: 1}
		}
		return Budget{}
	case KSelect:
		return Budget{S: 1}
	case KFault:
		return Budget{F: 1}
	case KTime:
		return Budget{T: 1}
	}
	return Budget{}
}

func add(a, b Budget) Budget {
	return Budget{a.P + b.P, a.S + b.S, a.T + b.T, a.F + b.F, 0, a.D + b.D}
}

func (e *Explorer) within(u Budget) bool {
	b := e.bound
	if u.P > b.P || u.S > b.S || u.T > b.T || u.F > b.F || u.D > b.D {
		return false
	}
	if b.Total > 0 && u.sum() > b.Total {
		return false
	}
	return true
}

func (e *Explorer) remaining(u Budget) Budget {
	b := e.bound
	r := Budget{b.P - u.P, b.S - u.S, b.T - u.T, b.F - u.F, 1 << 20, b.D - u.D}
	if b.Total > 0 {
		r.Total = b.Total - u.sum()
	}
	return r
}

// Run explores the scenario.  Levels of total deviation are raised iteratively so that the
// first counterexample found has the fewest deviations.
func (e *Explorer) Run() {
	e.seenKeys = map[string]bool{}
	e.Stats.Distinct = map[uint64]struct{}{}
	e.Stats.DistinctDev = map[uint64]struct{}{}
	full := e.Sc.Bound
	maxTotal := full.P + full.S + full.T + full.F + full.D
	if full.Total > 0 && full.Total < maxTotal {
		maxTotal = full.Total
	}
	e.Stats.Complete = true
	e.Stats.LevelDone = -1
	levels := []int{0}
	if maxTotal >= 1 {
		levels = append(levels, 1)
	}
	if maxTotal >= 2 {
		levels = append(levels, maxTotal)
	}
	// Every execution actually run is counted; states are those of the largest level.
	for _, lvl := range levels {
		e.bound = full
		e.bound.Total = lvl
		if lvl == 0 {
			e.bound.Total = -1
		}
		e.seen = map[uint64][]Budget{}
		ok := e.explore(nil, Budget{})
		if int64(len(e.seen)) > e.Stats.States {
			e.Stats.States = int64(len(e.seen))
		}
		if !ok {
			e.Stats.Complete = false
			return
		}
		e.Stats.LevelDone = lvl
	}
}

func (e *Explorer) withinLevel(u Budget) bool {
	if e.bound.Total == -1 {
		return u.sum() == 0
	}
	return e.within(u)
}

// explore returns false when the deadline was hit or an engine error occurred.
func (e *Explorer) explore(prefix []int, used Budget) bool {
	if e.engineErr != "" {
		return false
	}
	if !e.Deadline.IsZero() && time.Now().After(e.Deadline) {
		e.Stats.TimedOut = true
		return false
	}
	cfg := e.Sc.Cfg
	cfg.Prefix = prefix
	o := Execute(cfg, e.Sc.Body)
	e.Stats.Execs++
	if used.sum() > 0 {
		e.Stats.Deviating++
	}
	newPts := len(o.Points) - len(prefix)
	if newPts < 0 {
		newPts = 0
	}
	e.Stats.Transitions += int64(o.Steps)
	if len(o.Points) > e.Stats.MaxPoints {
		e.Stats.MaxPoints = len(o.Points)
	}
	if o.Steps > e.Stats.MaxDepth {
		e.Stats.MaxDepth = o.Steps
	}
	if o.CapHit {
		e.Stats.CapHits++
	}
	var obs uint64
	if e.Sc.Observe != nil {
		obs = e.Sc.Observe()
	} else {
		obs = o.FinalFP
	}
	e.Stats.Distinct[obs] = struct{}{}
	if len(prefix) > 0 { // a prefix always ends in a non-default alternative (of any kind)
		e.Stats.DistinctDev[obs] = struct{}{}
	}
	for _, f := range o.Failures {
		if f.Kind == "engine" {
			e.engineErr = f.Msg
			return false
		}
	}
	if len(o.Failures) > 0 {
		e.recordViolation(o, used)
		if e.engineErr != "" {
			return false
		}
	}
	if len(o.Points) < len(prefix) {
		e.engineErr = fmt.Sprintf("replay shorter than prefix: %d < %d", len(o.Points), len(prefix))
		return false
	}
	rem := e.remaining(used)
	if e.bound.Total == -1 {
		rem = Budget{}
	}
	for i := len(prefix); i < len(o.Points); i++ {
		p := &o.Points[i]
		if !e.Sc.NoCache {
			hit := false
			for _, r := range e.seen[p.FP] {
				if dominates(r, rem) {
					hit = true
					break
				}
			}
			if hit {
				e.Stats.Pruned++
				if debugCache {
					fmt.Fprintf(os.Stderr, "PRUNE exec=%v at point %d/%d kind=%s fp=%x rem=%s inserted by %s\n", choicesOf(&o), i, len(o.Points), p.Kind, p.FP, rem, debugIns[p.FP])
				}
				break
			}
			if len(e.seen) < maxSeen { // a full cache only stops growing: less pruning, never less coverage
				e.seen[p.FP] = append(e.seen[p.FP], rem)
			}
			if debugCache {
				debugIns[p.FP] = fmt.Sprintf("%v@%d rem=%s", choicesOf(&o), i, rem)
			}
		} else {
			e.seen[p.FP] = nil
		}
		for alt := 1; alt < p.N; alt++ {
			u := add(used, e.cost(p, alt))
			if !e.withinLevel(u) {
				continue
			}
			np := make([]int, i+1)
			for k := 0; k < i; k++ {
				np[k] = o.Points[k].Taken
			}
			np[i] = alt
			if !e.explore(np, u) {
				return false
			}
		}
	}
	return true
}

func choicesOf(o *Outcome) []int {
	c := make([]int, len(o.Points))
	for i := range o.Points {
		c[i] = o.Points[i].Taken
	}
	return c
}

func (e *Explorer) recordViolation(o Outcome, used Budget) {
	choices := choicesOf(&o)
	for _, f := range o.Failures {
		if e.seenKeys[f.Key] || len(e.seenKeys) >= 40 {
			continue
		}
		// determinism guard: the same choice list must fail the same way 5 times
		for k := 0; k < 5; k++ {
			cfg := e.Sc.Cfg
			cfg.Prefix = choices
			o2 := Execute(cfg, e.Sc.Body)
			if e.Sc.Observe != nil {
				e.Sc.Observe()
			}
			found := false
			for _, f2 := range o2.Failures {
				if f2.Key == f.Key {
					found = true
				}
			}
			if !found || o2.FinalFP != o.FinalFP || len(o2.Points) != len(o.Points) {
				e.engineErr = fmt.Sprintf("non-reproducible failure %q in scenario %s (replay %d: found=%v fp %x vs %x, points %d vs %d)", f.Key, e.Sc.Name, k, found, o2.FinalFP, o.FinalFP, len(o2.Points), len(o.Points))
				return
			}
		}
		e.seenKeys[f.Key] = true
		cfg := e.Sc.Cfg
		cfg.Prefix = choices
		cfg.Trace = true
		o3 := Execute(cfg, e.Sc.Body)
		if e.Sc.Observe != nil {
			e.Sc.Observe()
		}
		tr := o3.Trace
		if len(tr) > 400 {
			tr = append(append([]string{}, tr[:100]...), append([]string{"..."}, tr[len(tr)-300:]...)...)
		}
		e.Violations = append(e.Violations, Violation{Scenario: e.Sc.Name, Params: e.Sc.Params, Kind: f.Kind, Key: f.Key, Msg: f.Msg, Choices: choices, Devs: used.sum(), Trace: tr})
	}
}

// Replay runs one recorded choice list with tracing and returns the outcome.
func Replay(sc *Scenario, choices []int) Outcome {
	cfg := sc.Cfg
	cfg.Prefix = choices
	cfg.Trace = true
	return Execute(cfg, sc.Body)
}

// SortedKeys is a helper for deterministic iteration in harness code.
func SortedKeys[V any](m map[string]V) []string {
	ks := make([]string, 0, len(m))
	for k := range m {
		ks = append(ks, k)
	}
	sort.Strings(ks)
	return ks
}
