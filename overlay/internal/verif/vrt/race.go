//go:build verif

package vrt

import (
	"fmt"
	"reflect"
	"sort"
	"unsafe"
)

// Happens-before race monitor.  Vector clocks carry exactly the edges of the
// Go memory model: unlock->lock, send->receive, k-th receive->(k+cap)-th send,
// close->receive-of-closed, go->start, Once, WaitGroup, atomics on one address,
// timer creation->fire.  No edge is derived from the cooperative scheduler's
// hand-offs, virtual time or task exit.

type vclock []uint32

func (a vclock) get(i int) uint32 {
	if i < len(a) {
		return a[i]
	}
	return 0
}

func (a *vclock) join(b vclock) {
	for len(*a) < len(b) {
		*a = append(*a, 0)
	}
	for i, v := range b {
		if v > (*a)[i] {
			(*a)[i] = v
		}
	}
}

func (a vclock) clone() vclock { return append(vclock(nil), a...) }

type access struct {
	task int
	clk  uint32
	site string
}

type shadow struct {
	w     access
	hasW  bool
	reads []access
}

// RaceReport is one detected data race.
type RaceReport struct {
	Var   string
	SiteA string
	SiteB string
	Kind  string
}

// Key identifies a race by variable and the unordered pair of functions (sites are "func@file:line").
func (r RaceReport) Key() string {
	fa, fb := funcOf(r.SiteA), funcOf(r.SiteB)
	if fa > fb {
		fa, fb = fb, fa
	}
	return r.Var + "|" + fa + "|" + fb
}

func funcOf(site string) string {
	for i := 0; i < len(site); i++ {
		if site[i] == '@' {
			return site[:i]
		}
	}
	return site
}

type raceState struct {
	vc      []vclock // per task
	mem     map[unsafe.Pointer]*shadow
	atom    map[unsafe.Pointer]*vclock
	reports map[string]RaceReport
}

type chanRace struct {
	q        []vclock // clocks of buffered elements
	closeClk vclock
	recvClk  []vclock // clock of k-th receive
	nsend    int
}

func newRaceState() *raceState {
	return &raceState{mem: map[unsafe.Pointer]*shadow{}, atom: map[unsafe.Pointer]*vclock{}, reports: map[string]RaceReport{}}
}

func (r *raceState) newTask(t *Task) {
	for len(r.vc) <= t.id {
		r.vc = append(r.vc, nil)
	}
	vc := make(vclock, t.id+1)
	vc[t.id] = 1
	r.vc[t.id] = vc
}

func (r *raceState) tick(t *Task) {
	vc := r.vc[t.id]
	for len(vc) <= t.id {
		vc = append(vc, 0)
	}
	vc[t.id]++
	r.vc[t.id] = vc
}

func (r *raceState) fork(parent, child *Task) {
	r.vc[child.id].join(r.vc[parent.id])
	r.tick(parent)
}

func (r *raceState) acquire(t *Task, c *vclock) { r.vc[t.id].join(*c) }

func (r *raceState) release(t *Task, c *vclock) {
	*c = r.vc[t.id].clone()
	r.tick(t)
}

func (r *raceState) releaseJoin(t *Task, c *vclock) {
	c.join(r.vc[t.id])
	r.tick(t)
}

func (r *raceState) crOf(c *chanState) *chanRace {
	if c.rc == nil {
		c.rc = &chanRace{}
	}
	return c.rc
}

func (r *raceState) chanSend(t *Task, c *chanState) {
	cr := r.crOf(c)
	// k-th receive happens before the (k+cap)-th send completes
	if k := cr.nsend - c.cap; k >= 0 && k < len(cr.recvClk) {
		r.vc[t.id].join(cr.recvClk[k])
	}
	cr.nsend++
	cr.q = append(cr.q, r.vc[t.id].clone())
	r.tick(t)
}

func (r *raceState) chanRecv(t *Task, c *chanState) {
	cr := r.crOf(c)
	if len(cr.q) > 0 {
		r.vc[t.id].join(cr.q[0])
		cr.q = cr.q[1:]
	}
	cr.recvClk = append(cr.recvClk, r.vc[t.id].clone())
	r.tick(t)
}

func (r *raceState) chanRecvClosed(t *Task, c *chanState) {
	r.vc[t.id].join(r.crOf(c).closeClk)
}

func (r *raceState) chanClose(t *Task, c *chanState) {
	cr := r.crOf(c)
	cr.closeClk = r.vc[t.id].clone()
	r.tick(t)
}

// timerSend: a timer (created with clock tc) deposits a value in a buffered channel.
func (r *raceState) timerSend(c *chanState, tc vclock) {
	cr := r.crOf(c)
	cr.nsend++
	cr.q = append(cr.q, tc.clone())
}

func (r *raceState) timerClose(c *chanState, tc vclock) {
	r.crOf(c).closeClk = tc.clone()
}

func (r *raceState) rendezvous(sender, receiver *Task) {
	s := r.vc[sender.id].clone()
	rv := r.vc[receiver.id].clone()
	r.vc[receiver.id].join(s)
	r.vc[sender.id].join(rv)
	r.tick(sender)
	r.tick(receiver)
}

func (r *raceState) atomicOp(t *Task, p unsafe.Pointer, write bool) {
	c := r.atom[p]
	if c == nil {
		c = &vclock{}
		r.atom[p] = c
	}
	r.vc[t.id].join(*c)
	c.join(r.vc[t.id])
	r.tick(t)
}

func (r *raceState) report(name string, a, b access, kind string) {
	sa, sb := a.site, b.site
	if sa > sb {
		sa, sb = sb, sa
	}
	key := name + "|" + sa + "|" + sb
	if _, ok := r.reports[key]; !ok {
		r.reports[key] = RaceReport{Var: name, SiteA: sa, SiteB: sb, Kind: kind}
	}
}

func (r *raceState) read(t *Task, p unsafe.Pointer, name, site string) {
	sh := r.mem[p]
	if sh == nil {
		sh = &shadow{}
		r.mem[p] = sh
	}
	vc := r.vc[t.id]
	me := access{t.id, vc.get(t.id), site}
	if sh.hasW && sh.w.task != t.id && sh.w.clk > vc.get(sh.w.task) {
		r.report(name, sh.w, me, "write-read")
	}
	for i := range sh.reads {
		if sh.reads[i].task == t.id {
			sh.reads[i] = me
			return
		}
	}
	sh.reads = append(sh.reads, me)
}

func (r *raceState) write(t *Task, p unsafe.Pointer, name, site string) {
	sh := r.mem[p]
	if sh == nil {
		sh = &shadow{}
		r.mem[p] = sh
	}
	vc := r.vc[t.id]
	me := access{t.id, vc.get(t.id), site}
	if sh.hasW && sh.w.task != t.id && sh.w.clk > vc.get(sh.w.task) {
		r.report(name, sh.w, me, "write-write")
	}
	for _, rd := range sh.reads {
		if rd.task != t.id && rd.clk > vc.get(rd.task) {
			r.report(name, rd, me, "read-write")
		}
	}
	sh.w, sh.hasW = me, true
	sh.reads = sh.reads[:0]
}

// R instruments a read of *p.
func R[T any](p *T, name, site string) *T {
	w := W
	if w == nil || w.dead || w.race == nil && !w.fine {
		return p
	}
	if w.fine {
		w.yield(pendingOp{kind: opSimple, desc: "read " + name})
	}
	if w.race != nil {
		w.race.read(w.cur, unsafe.Pointer(p), name, site)
	}
	w.event(unsafe.Pointer(p), 0x40, 0)
	return p
}

// Wr instruments a write of *p.
func Wr[T any](p *T, name, site string) *T {
	w := W
	if w == nil || w.dead || w.race == nil && !w.fine {
		return p
	}
	if w.fine {
		w.yield(pendingOp{kind: opSimple, desc: "write " + name})
	}
	if w.race != nil {
		w.race.write(w.cur, unsafe.Pointer(p), name, site)
	}
	w.event(unsafe.Pointer(p), 0x41, 0)
	return p
}

// MapR / MapW instrument map reads / writes (the map header is one location).
func MapR[M ~map[K]V, K comparable, V any](m M, name, site string) M {
	w := W
	if w == nil || w.dead || w.race == nil || m == nil {
		return m
	}
	key := reflect.ValueOf(m).UnsafePointer()
	w.race.read(w.cur, key, name, site)
	w.event(key, 0x42, 0)
	return m
}

func MapW[M ~map[K]V, K comparable, V any](m M, name, site string) M {
	w := W
	if w == nil || w.dead || w.race == nil || m == nil {
		return m
	}
	key := reflect.ValueOf(m).UnsafePointer()
	w.race.write(w.cur, key, name, site)
	w.event(key, 0x43, 0)
	return m
}

// Races returns the races detected so far in this execution, sorted.
func Races() []RaceReport {
	w := W
	if w == nil || w.race == nil {
		return nil
	}
	var out []RaceReport
	for _, r := range w.race.reports {
		out = append(out, r)
	}
	sort.Slice(out, func(i, j int) bool {
		return fmt.Sprint(out[i]) < fmt.Sprint(out[j])
	})
	return out
}

// RaceEnabled reports whether the monitor is on.
func RaceEnabled() bool { return W != nil && W.race != nil }
