//go:build verif

package vrt

import (
	"fmt"
	"reflect"
	"unsafe"
)

// Real Go channels are used only as identity tokens (and for their capacity);
// all channel semantics are implemented here.

type chanState struct {
	key    unsafe.Pointer
	cap    int
	buf    []any
	closed bool
	// race monitor: vector clocks attached to buffered elements / close
	rc *chanRace
}

func chanKey[T any](ch chan T) unsafe.Pointer    { return *(*unsafe.Pointer)(unsafe.Pointer(&ch)) }
func rchanKey[T any](ch <-chan T) unsafe.Pointer { return *(*unsafe.Pointer)(unsafe.Pointer(&ch)) }
func schanKey[T any](ch chan<- T) unsafe.Pointer { return *(*unsafe.Pointer)(unsafe.Pointer(&ch)) }

func (w *World) chanOf(key unsafe.Pointer, cp int) *chanState {
	if key == nil {
		return nil
	}
	c := w.chans[key]
	if c == nil {
		c = &chanState{key: key, cap: cp}
		w.chans[key] = c
	}
	return c
}

func (c *chanState) partner(self *Task, wantSend bool) (*Task, int) {
	for _, t := range W.tasks {
		if t == self || t.done || t.rvDone || !t.arrived {
			continue
		}
		switch t.pend.kind {
		case opSend:
			if wantSend && t.pend.ch == c {
				return t, 0
			}
		case opRecv:
			if !wantSend && t.pend.ch == c {
				return t, 0
			}
		case opSelect:
			for i := range t.pend.sel {
				sc := &t.pend.sel[i]
				if sc.ch == c && sc.send == wantSend {
					return t, i
				}
			}
		}
	}
	return nil, 0
}

func (c *chanState) canSend(self *Task) bool {
	if c == nil {
		return false
	}
	if c.closed {
		return true // will panic, like Go
	}
	if c.cap > 0 {
		return len(c.buf) < c.cap
	}
	p, _ := c.partner(self, false)
	return p != nil
}

func (c *chanState) canRecv(self *Task) bool {
	if c == nil {
		return false
	}
	if len(c.buf) > 0 || c.closed {
		return true
	}
	if c.cap > 0 {
		return false
	}
	p, _ := c.partner(self, true)
	return p != nil
}

func (w *World) doSend(c *chanState, v any) {
	t := w.cur
	if c.closed {
		panic("send on closed channel")
	}
	if c.cap > 0 {
		c.buf = append(c.buf, v)
		w.event(c.key, 0x10, uint64(len(c.buf)))
		if w.race != nil {
			w.race.chanSend(t, c)
		}
		return
	}
	p, idx := c.partner(t, false)
	if p == nil {
		w.engineError("send on unbuffered channel without partner")
	}
	p.rvDone, p.rvVal, p.rvOK, p.rvIdx = true, v, true, idx
	p.pend = pendingOp{kind: opResume, desc: "resume after rendezvous"}
	w.event(c.key, 0x11, 0)
	p.h = mix(p.h, t.h, 0x12)
	if w.race != nil {
		w.race.rendezvous(t, p)
	}
}

func (w *World) doRecv(c *chanState) (any, bool) {
	t := w.cur
	if len(c.buf) > 0 {
		v := c.buf[0]
		c.buf = c.buf[1:]
		w.event(c.key, 0x13, uint64(len(c.buf)))
		if w.race != nil {
			w.race.chanRecv(t, c)
		}
		return v, true
	}
	if c.closed {
		w.event(c.key, 0x14, 0)
		if w.race != nil {
			w.race.chanRecvClosed(t, c)
		}
		return nil, false
	}
	p, idx := c.partner(t, true)
	if p == nil {
		w.engineError("recv on unbuffered channel without partner")
	}
	var v any
	if p.pend.kind == opSend {
		v = p.pend.sel[0].val
	} else {
		v = p.pend.sel[idx].val
	}
	p.rvDone, p.rvIdx, p.rvOK = true, idx, true
	p.pend = pendingOp{kind: opResume, desc: "resume after rendezvous"}
	w.event(c.key, 0x15, 0)
	p.h = mix(p.h, t.h, 0x16)
	if w.race != nil {
		w.race.rendezvous(p, t)
	}
	return v, true
}

func unbox[T any](v any) T {
	if v == nil {
		var z T
		return z
	}
	return v.(T)
}

// Recv implements <-ch.
func Recv[T any](ch <-chan T) T {
	v, _ := Recv2(ch)
	return v
}

// Recv2 implements v, ok := <-ch.
func Recv2[T any](ch <-chan T) (T, bool) {
	w := W
	if w == nil { // native mode (see sync.go)
		v, ok := <-ch
		return v, ok
	}
	w.checkDead()
	c := w.chanOf(rchanKey(ch), cap(ch))
	t := w.cur
	t.rvDone = false
	if c != nil && c.cap == 0 && !c.canRecv(t) {
		// two-phase rendezvous: arriving at an unbuffered channel is itself a visible step, so
		// that a non-blocking partner can run before this task is registered as waiting
		w.yield(pendingOp{kind: opSimple, desc: "recv (arrive)"})
	}
	t.arrived = true
	w.yield(pendingOp{kind: opRecv, ch: c, desc: "recv"})
	t.arrived = false
	if t.rvDone {
		t.rvDone = false
		return unbox[T](t.rvVal), t.rvOK
	}
	v, ok := w.doRecv(c)
	return unbox[T](v), ok
}

// Sender carries the channel of a send statement so that the value is type-checked
// by ordinary assignability.
type Sender[T any] struct{ ch chan<- T }

// SendTo starts a send statement ch <- v.
func SendTo[T any](ch chan<- T) Sender[T] { return Sender[T]{ch} }

// V completes the send.
func (s Sender[T]) V(v T) {
	w := W
	if w == nil {
		s.ch <- v
		return
	}
	w.checkDead()
	c := w.chanOf(schanKey(s.ch), cap(s.ch))
	t := w.cur
	t.rvDone = false
	if c != nil && c.cap == 0 && !c.canSend(t) {
		w.yield(pendingOp{kind: opSimple, desc: "send (arrive)"})
	}
	t.arrived = true
	w.yield(pendingOp{kind: opSend, ch: c, sel: []selCase{{ch: c, send: true, val: any(v)}}, desc: "send"})
	t.arrived = false
	if t.rvDone {
		t.rvDone = false
		return
	}
	w.doSend(c, any(v))
}

// Close implements close(ch).
func Close[T any](ch chan<- T) {
	w := W
	if w == nil {
		close(ch)
		return
	}
	w.checkDead()
	c := w.chanOf(schanKey(ch), cap(ch))
	if c == nil {
		panic("close of nil channel")
	}
	w.yield(pendingOp{kind: opSimple, desc: "close"})
	if c.closed {
		panic("close of closed channel")
	}
	c.closed = true
	w.event(c.key, 0x17, 0)
	if w.race != nil {
		w.race.chanClose(w.cur, c)
	}
}

// Len implements len(ch).
func Len[T any](ch chan T) int {
	w := W
	if w == nil {
		return len(ch)
	}
	w.checkDead()
	c := w.chanOf(chanKey(ch), cap(ch))
	if c == nil {
		return 0
	}
	w.yield(pendingOp{kind: opSimple, desc: "len"})
	w.event(c.key, 0x18, uint64(len(c.buf)))
	return len(c.buf)
}

// SelCase is one case of a select statement.
type SelCase struct {
	key  unsafe.Pointer
	cap  int
	send bool
	val  any
	ch   any // the Go channel itself (native mode only)
}

// CaseRecv builds a receive case.
func CaseRecv[T any](ch <-chan T) SelCase {
	return SelCase{key: rchanKey(ch), cap: cap(ch), ch: ch}
}

// CaseSender builds a send case.
type CaseSender[T any] struct{ ch chan<- T }

// CaseSend starts a send case.
func CaseSend[T any](ch chan<- T) CaseSender[T] { return CaseSender[T]{ch} }

// V completes a send case.
func (s CaseSender[T]) V(v T) SelCase {
	return SelCase{key: schanKey(s.ch), cap: cap(s.ch), send: true, val: any(v), ch: s.ch}
}

// SelResult carries the value received by the chosen case.
type SelResult struct {
	val any
	ok  bool
}

// SelRecv extracts the received value with the element type of ch.
func SelRecv[T any](r SelResult, ch <-chan T) T { return unbox[T](r.val) }

// SelRecv2 extracts value and ok.
func SelRecv2[T any](r SelResult, ch <-chan T) (T, bool) { return unbox[T](r.val), r.ok }

// Select implements a select statement; it returns the index of the chosen case, -1 for default.
func Select(hasDefault bool, cases ...SelCase) (int, SelResult) {
	w := W
	if w == nil {
		return nativeSelect(hasDefault, cases)
	}
	w.checkDead()
	t := w.cur
	sel := make([]selCase, len(cases))
	for i, c := range cases {
		sel[i] = selCase{ch: w.chanOf(c.key, c.cap), send: c.send, val: c.val}
	}
	t.rvDone = false
	if !hasDefault {
		unbuf, ready := false, false
		for i := range sel {
			sc := &sel[i]
			if sc.ch == nil {
				continue
			}
			if sc.ch.cap == 0 {
				unbuf = true
			}
			if sc.send && sc.ch.canSend(t) || !sc.send && sc.ch.canRecv(t) {
				ready = true
			}
		}
		if unbuf && !ready {
			w.yield(pendingOp{kind: opSimple, desc: "select (arrive)"})
		}
		t.arrived = true
	}
	w.yield(pendingOp{kind: opSelect, sel: sel, hasDef: hasDefault, desc: "select"})
	t.arrived = false
	if t.rvDone {
		t.rvDone = false
		t.h = mix(t.h, 0x19, uint64(t.rvIdx))
		return t.rvIdx, SelResult{t.rvVal, t.rvOK}
	}
	var ready []int
	for i := range sel {
		c := &sel[i]
		if c.ch == nil {
			continue
		}
		if c.send && c.ch.canSend(t) || !c.send && c.ch.canRecv(t) {
			ready = append(ready, i)
		}
	}
	if len(ready) == 0 {
		if !hasDefault {
			w.engineError("select scheduled without ready case")
		}
		t.h = mix(t.h, 0x1a)
		// a failed poll observes the channels' state
		for i := range sel {
			if sel[i].ch != nil {
				t.h = mix(t.h, *w.objVer(sel[i].ch.key))
			}
		}
		return -1, SelResult{}
	}
	k := 0
	if len(ready) > 1 {
		k = w.choosePoint(Point{Kind: KSelect, N: len(ready)})
	}
	i := ready[k]
	t.h = mix(t.h, 0x1b, uint64(i))
	c := &sel[i]
	if c.send {
		w.doSend(c.ch, c.val)
		return i, SelResult{}
	}
	v, ok := w.doRecv(c.ch)
	return i, SelResult{v, ok}
}

func (c *chanState) String() string {
	return fmt.Sprintf("chan(%p cap=%d len=%d closed=%v)", c.key, c.cap, len(c.buf), c.closed)
}

// CloseNoYield closes ch as part of the running task's current transition
// (used by context cancellation, whose visible operation was already taken).
func CloseNoYield[T any](ch chan T) {
	w := W
	if w == nil {
		defer func() { recover() }() // already closed
		close(ch)
		return
	}
	if w.dead {
		return
	}
	c := w.chanOf(chanKey(ch), cap(ch))
	if c.closed {
		return
	}
	c.closed = true
	w.event(c.key, 0x17, 0)
	if w.race != nil {
		w.race.chanClose(w.cur, c)
	}
}

// nativeSelect is Select outside of an execution: reflect.Select over the real channels.
func nativeSelect(hasDefault bool, cases []SelCase) (int, SelResult) {
	rc := make([]reflect.SelectCase, 0, len(cases)+1)
	for _, c := range cases {
		chv := reflect.ValueOf(c.ch)
		if c.send {
			v := reflect.ValueOf(c.val)
			if !v.IsValid() {
				v = reflect.Zero(chv.Type().Elem())
			}
			rc = append(rc, reflect.SelectCase{Dir: reflect.SelectSend, Chan: chv, Send: v})
		} else {
			rc = append(rc, reflect.SelectCase{Dir: reflect.SelectRecv, Chan: chv})
		}
	}
	if hasDefault {
		rc = append(rc, reflect.SelectCase{Dir: reflect.SelectDefault})
	}
	i, v, ok := reflect.Select(rc)
	if hasDefault && i == len(cases) {
		return -1, SelResult{}
	}
	if cases[i].send {
		return i, SelResult{}
	}
	var val any
	if v.IsValid() {
		val = v.Interface()
	}
	return i, SelResult{val, ok}
}
