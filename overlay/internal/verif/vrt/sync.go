//go:build verif

package vrt

import (
	"runtime"
	gosync "sync"
	"sync/atomic"
	"unsafe"
)

// Native mode.  Outside of an execution (W == nil: the enumerating parts of the checks call library
// code directly, on the harness' own goroutine) every primitive falls back to the real one from the
// standard library, so that library code which takes a lock, starts a goroutine or uses a channel on
// such a path simply works; nothing is scheduled or recorded there.

// MutexState is the state of a sync.Mutex (embedded by the shim; zero value = unlocked).
type MutexState struct {
	locked bool
	rc     vclock
	nat    gosync.Mutex // native mode
	natOn  int32        // 1 while locked in native mode
}

func MuLock(m *MutexState) {
	w := W
	if w == nil {
		m.nat.Lock()
		atomic.StoreInt32(&m.natOn, 1)
		return
	}
	w.checkDead()
	w.yield(pendingOp{kind: opLock, mu: m, desc: "Mutex.Lock"})
	m.locked = true
	w.event(unsafe.Pointer(m), 0x20, 0)
	if w.race != nil {
		w.race.acquire(w.cur, &m.rc)
	}
}

func MuTryLock(m *MutexState) bool {
	w := W
	if w == nil {
		if m.nat.TryLock() {
			atomic.StoreInt32(&m.natOn, 1)
			return true
		}
		return false
	}
	w.checkDead()
	w.yield(pendingOp{kind: opSimple, desc: "Mutex.TryLock"})
	if m.locked {
		w.event(unsafe.Pointer(m), 0x21, 0)
		return false
	}
	m.locked = true
	w.event(unsafe.Pointer(m), 0x20, 0)
	if w.race != nil {
		w.race.acquire(w.cur, &m.rc)
	}
	return true
}

func MuUnlock(m *MutexState) {
	w := W
	if w == nil {
		if atomic.CompareAndSwapInt32(&m.natOn, 1, 0) {
			m.nat.Unlock()
		}
		return
	}
	if w.dead {
		return // deferred unlock while the execution is being torn down
	}
	if !m.locked {
		panic("sync: unlock of unlocked mutex")
	}
	m.locked = false
	w.event(unsafe.Pointer(m), 0x22, 0)
	if w.race != nil {
		w.race.release(w.cur, &m.rc)
	}
}

// RWState is the state of a sync.RWMutex.
type RWState struct {
	writer  bool
	readers int
	rc      vclock // released by writers (and readers, joined)
	rrc     vclock // released by readers only
	nat     gosync.RWMutex
	natW    int32 // native mode: write-locked
	natR    int32 // native mode: number of read locks held
}

func RWLock(m *RWState) {
	w := W
	if w == nil {
		m.nat.Lock()
		atomic.StoreInt32(&m.natW, 1)
		return
	}
	w.checkDead()
	w.yield(pendingOp{kind: opLock, rw: m, desc: "RWMutex.Lock"})
	m.writer = true
	w.event(unsafe.Pointer(m), 0x23, 0)
	if w.race != nil {
		w.race.acquire(w.cur, &m.rc)
		w.race.acquire(w.cur, &m.rrc)
	}
}

func RWUnlock(m *RWState) {
	w := W
	if w == nil {
		if atomic.CompareAndSwapInt32(&m.natW, 1, 0) {
			m.nat.Unlock()
		}
		return
	}
	if w.dead {
		return
	}
	if !m.writer {
		panic("sync: Unlock of unlocked RWMutex")
	}
	m.writer = false
	w.event(unsafe.Pointer(m), 0x24, 0)
	if w.race != nil {
		w.race.release(w.cur, &m.rc)
	}
}

func RWRLock(m *RWState) {
	w := W
	if w == nil {
		m.nat.RLock()
		atomic.AddInt32(&m.natR, 1)
		return
	}
	w.checkDead()
	w.yield(pendingOp{kind: opRLock, rw: m, desc: "RWMutex.RLock"})
	m.readers++
	w.event(unsafe.Pointer(m), 0x25, 0)
	if w.race != nil {
		w.race.acquire(w.cur, &m.rc)
	}
}

func RWRUnlock(m *RWState) {
	w := W
	if w == nil {
		if atomic.AddInt32(&m.natR, -1) >= 0 {
			m.nat.RUnlock()
		} else {
			atomic.AddInt32(&m.natR, 1)
		}
		return
	}
	if w.dead {
		return
	}
	if m.readers <= 0 {
		panic("sync: RUnlock of unlocked RWMutex")
	}
	m.readers--
	w.event(unsafe.Pointer(m), 0x26, 0)
	if w.race != nil {
		w.race.releaseJoin(w.cur, &m.rrc)
	}
}

// OnceState is the state of a sync.Once.
type OnceState struct {
	done    bool
	running bool
	rc      vclock
	nat     gosync.Once
}

func OnceDo(o *OnceState, f func()) {
	w := W
	if w == nil {
		o.nat.Do(f)
		return
	}
	w.checkDead()
	w.yield(pendingOp{kind: opOnce, once: o, desc: "Once.Do"})
	if o.done {
		w.event(unsafe.Pointer(o), 0x27, 1)
		if w.race != nil {
			w.race.acquire(w.cur, &o.rc)
		}
		return
	}
	o.running = true
	w.event(unsafe.Pointer(o), 0x27, 0)
	defer func() {
		o.running = false
		o.done = true
		if !w.dead {
			w.event(unsafe.Pointer(o), 0x28, 0)
			if w.race != nil {
				w.race.release(w.cur, &o.rc)
			}
		}
	}()
	f()
}

// WGState is the state of a sync.WaitGroup.
type WGState struct {
	n   int
	rc  vclock
	nat gosync.WaitGroup
}

func WGAdd(g *WGState, d int) {
	w := W
	if w == nil {
		g.nat.Add(d)
		return
	}
	if w.dead {
		return
	}
	g.n += d
	if g.n < 0 {
		panic("sync: negative WaitGroup counter")
	}
	w.event(unsafe.Pointer(g), 0x29, uint64(g.n))
	if w.race != nil && d < 0 {
		w.race.releaseJoin(w.cur, &g.rc)
	}
}

func WGWait(g *WGState) {
	w := W
	if w == nil {
		g.nat.Wait()
		return
	}
	w.checkDead()
	w.yield(pendingOp{kind: opWait, wg: g, desc: "WaitGroup.Wait"})
	w.event(unsafe.Pointer(g), 0x2a, 0)
	if w.race != nil {
		w.race.acquire(w.cur, &g.rc)
	}
}

// CondState is the state of a sync.Cond.
type CondState struct {
	waiters []*condWaiter
	rc      vclock
	natMu   gosync.Mutex
	natGen  uint64
}

type condWaiter struct{ signalled bool }

// CondWait atomically unlocks (via unlock) and waits; the caller re-locks afterwards.
func CondWait(c *CondState, unlock func(), lock func()) {
	w := W
	if w == nil {
		// native mode: a plain generation counter polled with the lock released
		c.natMu.Lock()
		gen := c.natGen
		c.natMu.Unlock()
		unlock()
		for {
			c.natMu.Lock()
			g := c.natGen
			c.natMu.Unlock()
			if g != gen {
				break
			}
			runtime.Gosched()
		}
		lock()
		return
	}
	w.checkDead()
	cw := &condWaiter{}
	c.waiters = append(c.waiters, cw)
	unlock()
	w.yield(pendingOp{kind: opWait, cw: cw, desc: "Cond.Wait"})
	w.event(unsafe.Pointer(c), 0x2b, 0)
	if w.race != nil {
		w.race.acquire(w.cur, &c.rc)
	}
	lock()
}

func CondSignal(c *CondState, all bool) {
	w := W
	if w == nil {
		c.natMu.Lock()
		c.natGen++
		c.natMu.Unlock()
		return
	}
	if w.dead {
		return
	}
	w.yield(pendingOp{kind: opSimple, desc: "Cond.Signal"})
	if w.race != nil {
		w.race.releaseJoin(w.cur, &c.rc)
	}
	w.event(unsafe.Pointer(c), 0x2c, 0)
	for len(c.waiters) > 0 {
		c.waiters[0].signalled = true
		c.waiters = c.waiters[1:]
		if !all {
			break
		}
	}
}

// Atomic is a visible atomic operation on the word at p; f performs it.
func Atomic(p unsafe.Pointer, write bool, f func() uint64) {
	w := W
	if w == nil {
		f()
		return
	}
	w.checkDead()
	w.yield(pendingOp{kind: opSimple, desc: "atomic"})
	r := f()
	w.event(p, 0x2d, r)
	if w.race != nil {
		w.race.atomicOp(w.cur, p, write)
	}
}
