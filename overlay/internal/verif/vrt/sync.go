//go:build verif

package vrt

import "unsafe"

// MutexState is the state of a sync.Mutex (embedded by the shim; zero value = unlocked).
type MutexState struct {
	locked bool
	rc     vclock
}

func MuLock(m *MutexState) {
	w := W
	w.checkDead()
	w.yield(pendingOp{kind: opLock, mu: m, desc: "Mutex.Lock"})
	m.locked = true
	w.event(unsafe.Pointer(m), 0x20, 0)
	if w.race != nil {
		w.race.acquire(w.cur, &m.rc)
	}
}

func MuTryLock(m *MutexState) bool {
	w := W
	w.checkDead()
	w.yield(pendingOp{kind: opSimple, desc: "Mutex.TryLock"})
	if m.locked {
		w.event(unsafe.Pointer(m), 0x21, 0)
		return false
	}
	m.locked = true
	w.event(unsafe.Pointer(m), 0x20, 0)
	if w.race != nil {
		w.race.acquire(w.cur, &m.rc)
	}
	return true
}

func MuUnlock(m *MutexState) {
	w := W
	if w == nil || w.dead {
		return // deferred unlock while the execution is being torn down
	}
	if !m.locked {
		panic("sync: unlock of unlocked mutex")
	}
	m.locked = false
	w.event(unsafe.Pointer(m), 0x22, 0)
	if w.race != nil {
		w.race.release(w.cur, &m.rc)
	}
}

// RWState is the state of a sync.RWMutex.
type RWState struct {
	writer  bool
	readers int
	rc      vclock // released by writers (and readers, joined)
	rrc     vclock // released by readers only
}

func RWLock(m *RWState) {
	w := W
	w.checkDead()
	w.yield(pendingOp{kind: opLock, rw: m, desc: "RWMutex.Lock"})
	m.writer = true
	w.event(unsafe.Pointer(m), 0x23, 0)
	if w.race != nil {
		w.race.acquire(w.cur, &m.rc)
		w.race.acquire(w.cur, &m.rrc)
	}
}

func RWUnlock(m *RWState) {
	w := W
	if w == nil || w.dead {
		return
	}
	if !m.writer {
		panic("sync: Unlock of unlocked RWMutex")
	}
	m.writer = false
	w.event(unsafe.Pointer(m), 0x24, 0)
	if w.race != nil {
		w.race.release(w.cur, &m.rc)
	}
}

func RWRLock(m *RWState) {
	w := W
	w.checkDead()
	w.yield(pendingOp{kind: opRLock, rw: m, desc: "RWMutex.RLock"})
	m.readers++
	w.event(unsafe.Pointer(m), 0x25, 0)
	if w.race != nil {
		w.race.acquire(w.cur, &m.rc)
	}
}

func RWRUnlock(m *RWState) {
	w := W
	if w == nil || w.dead {
		return
	}
	if m.readers <= 0 {
		panic("sync: RUnlock of unlocked RWMutex")
	}
	m.readers--
	w.event(unsafe.Pointer(m), 0x26, 0)
	if w.race != nil {
		w.race.releaseJoin(w.cur, &m.rrc)
	}
}

// OnceState is the state of a sync.Once.
type OnceState struct {
	done    bool
	running bool
	rc      vclock
}

func OnceDo(o *OnceState, f func()) {
	w := W
	w.checkDead()
	w.yield(pendingOp{kind: opOnce, once: o, desc: "Once.Do"})
	if o.done {
		w.event(unsafe.Pointer(o), 0x27, 1)
		if w.race != nil {
			w.race.acquire(w.cur, &o.rc)
		}
		return
	}
	o.running = true
	w.event(unsafe.Pointer(o), 0x27, 0)
	defer func() {
		o.running = false
		o.done = true
		if !w.dead {
			w.event(unsafe.Pointer(o), 0x28, 0)
			if w.race != nil {
				w.race.release(w.cur, &o.rc)
			}
		}
	}()
	f()
}

// WGState is the state of a sync.WaitGroup.
type WGState struct {
	n  int
	rc vclock
}

func WGAdd(g *WGState, d int) {
	w := W
	if w == nil || w.dead {
		return
	}
	g.n += d
	if g.n < 0 {
		panic("sync: negative WaitGroup counter")
	}
	w.event(unsafe.Pointer(g), 0x29, uint64(g.n))
	if w.race != nil && d < 0 {
		w.race.releaseJoin(w.cur, &g.rc)
	}
}

func WGWait(g *WGState) {
	w := W
	w.checkDead()
	w.yield(pendingOp{kind: opWait, wg: g, desc: "WaitGroup.Wait"})
	w.event(unsafe.Pointer(g), 0x2a, 0)
	if w.race != nil {
		w.race.acquire(w.cur, &g.rc)
	}
}

// CondState is the state of a sync.Cond.
type CondState struct {
	waiters []*condWaiter
	rc      vclock
}

type condWaiter struct{ signalled bool }

// CondWait atomically unlocks (via unlock) and waits; the caller re-locks afterwards.
func CondWait(c *CondState, unlock func(), lock func()) {
	w := W
	w.checkDead()
	cw := &condWaiter{}
	c.waiters = append(c.waiters, cw)
	unlock()
	w.yield(pendingOp{kind: opWait, cw: cw, desc: "Cond.Wait"})
	w.event(unsafe.Pointer(c), 0x2b, 0)
	if w.race != nil {
		w.race.acquire(w.cur, &c.rc)
	}
	lock()
}

func CondSignal(c *CondState, all bool) {
	w := W
	if w == nil || w.dead {
		return
	}
	w.yield(pendingOp{kind: opSimple, desc: "Cond.Signal"})
	if w.race != nil {
		w.race.releaseJoin(w.cur, &c.rc)
	}
	w.event(unsafe.Pointer(c), 0x2c, 0)
	for len(c.waiters) > 0 {
		c.waiters[0].signalled = true
		c.waiters = c.waiters[1:]
		if !all {
			break
		}
	}
}

// Atomic is a visible atomic operation on the word at p; f performs it.
func Atomic(p unsafe.Pointer, write bool, f func() uint64) {
	w := W
	if w == nil {
		f()
		return
	}
	w.checkDead()
	w.yield(pendingOp{kind: opSimple, desc: "atomic"})
	r := f()
	w.event(p, 0x2d, r)
	if w.race != nil {
		w.race.atomicOp(w.cur, p, write)
	}
}
