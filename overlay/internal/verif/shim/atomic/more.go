//go:build verif

package atomic

import (
	"unsafe"

	"github.com/at-wat/mqtt-go/internal/verif/vrt"
)

func SwapUint64(addr *uint64, v uint64) (old uint64) {
	vrt.Atomic(unsafe.Pointer(addr), true, func() uint64 { old = *addr; *addr = v; return old })
	return
}
func SwapInt64(addr *int64, v int64) (old int64) {
	vrt.Atomic(unsafe.Pointer(addr), true, func() uint64 { old = *addr; *addr = v; return uint64(old) })
	return
}
func (x *Int64) Swap(v int64) int64    { return SwapInt64(&x.v, v) }
func (x *Uint64) Swap(v uint64) uint64 { return SwapUint64(&x.v, v) }

func AddUintptr(addr *uintptr, delta uintptr) (n uintptr) {
	vrt.Atomic(unsafe.Pointer(addr), true, func() uint64 { *addr += delta; n = *addr; return uint64(n) })
	return
}
func LoadUintptr(addr *uintptr) (v uintptr) {
	vrt.Atomic(unsafe.Pointer(addr), false, func() uint64 { v = *addr; return uint64(v) })
	return
}
func StoreUintptr(addr *uintptr, v uintptr) {
	vrt.Atomic(unsafe.Pointer(addr), true, func() uint64 { *addr = v; return uint64(v) })
}
func SwapUintptr(addr *uintptr, v uintptr) (old uintptr) {
	vrt.Atomic(unsafe.Pointer(addr), true, func() uint64 { old = *addr; *addr = v; return uint64(old) })
	return
}
func CompareAndSwapUintptr(addr *uintptr, o, n uintptr) (ok bool) {
	vrt.Atomic(unsafe.Pointer(addr), true, func() uint64 {
		if *addr == o {
			*addr = n
			ok = true
			return 1
		}
		return 0
	})
	return
}

type Uintptr struct{ v uintptr }

func (x *Uintptr) Load() uintptr                  { return LoadUintptr(&x.v) }
func (x *Uintptr) Store(v uintptr)                { StoreUintptr(&x.v, v) }
func (x *Uintptr) Add(d uintptr) uintptr          { return AddUintptr(&x.v, d) }
func (x *Uintptr) Swap(v uintptr) uintptr         { return SwapUintptr(&x.v, v) }
func (x *Uintptr) CompareAndSwap(o, n uintptr) bool { return CompareAndSwapUintptr(&x.v, o, n) }

// The value folded into the state fingerprint of pointer operations is a modification count, not
// the address (addresses differ between executions).
func LoadPointer(addr *unsafe.Pointer) (v unsafe.Pointer) {
	vrt.Atomic(unsafe.Pointer(addr), false, func() uint64 { v = *addr; return b2u(v != nil) })
	return
}
func StorePointer(addr *unsafe.Pointer, v unsafe.Pointer) {
	vrt.Atomic(unsafe.Pointer(addr), true, func() uint64 { *addr = v; return b2u(v != nil) })
}
func SwapPointer(addr *unsafe.Pointer, v unsafe.Pointer) (old unsafe.Pointer) {
	vrt.Atomic(unsafe.Pointer(addr), true, func() uint64 { old = *addr; *addr = v; return b2u(old != nil) })
	return
}
func CompareAndSwapPointer(addr *unsafe.Pointer, o, n unsafe.Pointer) (ok bool) {
	vrt.Atomic(unsafe.Pointer(addr), true, func() uint64 {
		if *addr == o {
			*addr = n
			ok = true
		}
		return b2u(ok)
	})
	return
}

func b2u(b bool) uint64 {
	if b {
		return 1
	}
	return 0
}

type Pointer[T any] struct {
	p   *T
	cnt uint32
}

func (x *Pointer[T]) Load() (r *T) {
	vrt.Atomic(unsafe.Pointer(&x.cnt), false, func() uint64 { r = x.p; return uint64(x.cnt) })
	return
}
func (x *Pointer[T]) Store(v *T) {
	vrt.Atomic(unsafe.Pointer(&x.cnt), true, func() uint64 { x.p = v; x.cnt++; return uint64(x.cnt) })
}
func (x *Pointer[T]) Swap(v *T) (old *T) {
	vrt.Atomic(unsafe.Pointer(&x.cnt), true, func() uint64 { old = x.p; x.p = v; x.cnt++; return uint64(x.cnt) })
	return
}
func (x *Pointer[T]) CompareAndSwap(o, n *T) (ok bool) {
	vrt.Atomic(unsafe.Pointer(&x.cnt), true, func() uint64 {
		if x.p == o {
			x.p = n
			x.cnt++
			ok = true
		}
		return uint64(x.cnt)
	})
	return
}

func (x *Value) Swap(v any) (old any) {
	vrt.Atomic(unsafe.Pointer(&x.cnt), true, func() uint64 { old = x.v; x.v = v; x.cnt++; return uint64(x.cnt) })
	return
}
func (x *Value) CompareAndSwap(o, n any) (ok bool) {
	vrt.Atomic(unsafe.Pointer(&x.cnt), true, func() uint64 {
		if x.v == o {
			x.v = n
			x.cnt++
			ok = true
		}
		return uint64(x.cnt)
	})
	return
}
