//go:build verif

// Package atomic replaces sync/atomic: every operation is a visible scheduling point.
package atomic

import (
	"unsafe"

	"github.com/at-wat/mqtt-go/internal/verif/vrt"
)

func AddUint32(addr *uint32, delta uint32) (n uint32) {
	vrt.Atomic(unsafe.Pointer(addr), true, func() uint64 { *addr += delta; n = *addr; return uint64(n) })
	return
}
func AddInt32(addr *int32, delta int32) (n int32) {
	vrt.Atomic(unsafe.Pointer(addr), true, func() uint64 { *addr += delta; n = *addr; return uint64(n) })
	return
}
func AddUint64(addr *uint64, delta uint64) (n uint64) {
	vrt.Atomic(unsafe.Pointer(addr), true, func() uint64 { *addr += delta; n = *addr; return n })
	return
}
func AddInt64(addr *int64, delta int64) (n int64) {
	vrt.Atomic(unsafe.Pointer(addr), true, func() uint64 { *addr += delta; n = *addr; return uint64(n) })
	return
}
func LoadUint32(addr *uint32) (v uint32) {
	vrt.Atomic(unsafe.Pointer(addr), false, func() uint64 { v = *addr; return uint64(v) })
	return
}
func LoadInt32(addr *int32) (v int32) {
	vrt.Atomic(unsafe.Pointer(addr), false, func() uint64 { v = *addr; return uint64(v) })
	return
}
func LoadUint64(addr *uint64) (v uint64) {
	vrt.Atomic(unsafe.Pointer(addr), false, func() uint64 { v = *addr; return v })
	return
}
func LoadInt64(addr *int64) (v int64) {
	vrt.Atomic(unsafe.Pointer(addr), false, func() uint64 { v = *addr; return uint64(v) })
	return
}
func StoreUint32(addr *uint32, v uint32) {
	vrt.Atomic(unsafe.Pointer(addr), true, func() uint64 { *addr = v; return uint64(v) })
}
func StoreInt32(addr *int32, v int32) {
	vrt.Atomic(unsafe.Pointer(addr), true, func() uint64 { *addr = v; return uint64(v) })
}
func StoreUint64(addr *uint64, v uint64) {
	vrt.Atomic(unsafe.Pointer(addr), true, func() uint64 { *addr = v; return v })
}
func StoreInt64(addr *int64, v int64) {
	vrt.Atomic(unsafe.Pointer(addr), true, func() uint64 { *addr = v; return uint64(v) })
}
func SwapUint32(addr *uint32, v uint32) (old uint32) {
	vrt.Atomic(unsafe.Pointer(addr), true, func() uint64 { old = *addr; *addr = v; return uint64(old) })
	return
}
func SwapInt32(addr *int32, v int32) (old int32) {
	vrt.Atomic(unsafe.Pointer(addr), true, func() uint64 { old = *addr; *addr = v; return uint64(old) })
	return
}
func CompareAndSwapUint32(addr *uint32, o, n uint32) (ok bool) {
	vrt.Atomic(unsafe.Pointer(addr), true, func() uint64 {
		if *addr == o {
			*addr = n
			ok = true
			return 1
		}
		return 0
	})
	return
}
func CompareAndSwapInt32(addr *int32, o, n int32) (ok bool) {
	vrt.Atomic(unsafe.Pointer(addr), true, func() uint64 {
		if *addr == o {
			*addr = n
			ok = true
			return 1
		}
		return 0
	})
	return
}
func CompareAndSwapUint64(addr *uint64, o, n uint64) (ok bool) {
	vrt.Atomic(unsafe.Pointer(addr), true, func() uint64 {
		if *addr == o {
			*addr = n
			ok = true
			return 1
		}
		return 0
	})
	return
}
func CompareAndSwapInt64(addr *int64, o, n int64) (ok bool) {
	vrt.Atomic(unsafe.Pointer(addr), true, func() uint64 {
		if *addr == o {
			*addr = n
			ok = true
			return 1
		}
		return 0
	})
	return
}

type Bool struct{ v uint32 }

func (b *Bool) Load() bool { return LoadUint32(&b.v) != 0 }
func (b *Bool) Store(x bool) {
	if x {
		StoreUint32(&b.v, 1)
	} else {
		StoreUint32(&b.v, 0)
	}
}
func (b *Bool) Swap(x bool) bool {
	n := uint32(0)
	if x {
		n = 1
	}
	return SwapUint32(&b.v, n) != 0
}
func (b *Bool) CompareAndSwap(o, n bool) bool {
	var oo, nn uint32
	if o {
		oo = 1
	}
	if n {
		nn = 1
	}
	return CompareAndSwapUint32(&b.v, oo, nn)
}

type Int32 struct{ v int32 }

func (x *Int32) Load() int32                  { return LoadInt32(&x.v) }
func (x *Int32) Store(v int32)                { StoreInt32(&x.v, v) }
func (x *Int32) Add(d int32) int32            { return AddInt32(&x.v, d) }
func (x *Int32) Swap(v int32) int32           { return SwapInt32(&x.v, v) }
func (x *Int32) CompareAndSwap(o, n int32) bool { return CompareAndSwapInt32(&x.v, o, n) }

type Uint32 struct{ v uint32 }

func (x *Uint32) Load() uint32                  { return LoadUint32(&x.v) }
func (x *Uint32) Store(v uint32)                { StoreUint32(&x.v, v) }
func (x *Uint32) Add(d uint32) uint32           { return AddUint32(&x.v, d) }
func (x *Uint32) Swap(v uint32) uint32          { return SwapUint32(&x.v, v) }
func (x *Uint32) CompareAndSwap(o, n uint32) bool { return CompareAndSwapUint32(&x.v, o, n) }

type Int64 struct{ v int64 }

func (x *Int64) Load() int64                  { return LoadInt64(&x.v) }
func (x *Int64) Store(v int64)                { StoreInt64(&x.v, v) }
func (x *Int64) Add(d int64) int64            { return AddInt64(&x.v, d) }
func (x *Int64) CompareAndSwap(o, n int64) bool { return CompareAndSwapInt64(&x.v, o, n) }

type Uint64 struct{ v uint64 }

func (x *Uint64) Load() uint64                  { return LoadUint64(&x.v) }
func (x *Uint64) Store(v uint64)                { StoreUint64(&x.v, v) }
func (x *Uint64) Add(d uint64) uint64           { return AddUint64(&x.v, d) }
func (x *Uint64) CompareAndSwap(o, n uint64) bool { return CompareAndSwapUint64(&x.v, o, n) }

type Value struct {
	v   any
	cnt uint32
}

func (x *Value) Load() (r any) {
	vrt.Atomic(unsafe.Pointer(&x.cnt), false, func() uint64 { r = x.v; return uint64(x.cnt) })
	return
}
func (x *Value) Store(v any) {
	vrt.Atomic(unsafe.Pointer(&x.cnt), true, func() uint64 { x.v = v; x.cnt++; return uint64(x.cnt) })
}
