//go:build verif

package context

import (
	"time"

	"github.com/at-wat/mqtt-go/internal/verif/vrt"
)

// The rest of the standard context API (Go 1.20/1.21 additions), so that a library change that
// starts using it still builds under the checker.

func WithCancelCause(parent Context) (Context, CancelCauseFunc) {
	c := newCtx(parent)
	return c, func(e error) {
		vrt.Yield("ctx cancel")
		c.cancelC(Canceled, e, nil)
	}
}

func WithDeadlineCause(parent Context, d time.Time, cause error) (Context, CancelFunc) {
	return WithTimeoutCause(parent, d.Sub(epoch.Add(time.Duration(vrt.Now()))), cause)
}

func WithTimeoutCause(parent Context, timeout time.Duration, cause error) (Context, CancelFunc) {
	ctx, cancel := WithTimeout(parent, timeout)
	if c, ok := ctx.(*vctx); ok {
		c.dlCause = cause
	}
	return ctx, cancel
}

type withoutCancel struct{ c Context }

func (withoutCancel) Deadline() (time.Time, bool) { return time.Time{}, false }
func (withoutCancel) Done() <-chan struct{}       { return nil }
func (withoutCancel) Err() error                  { return nil }
func (w withoutCancel) Value(key any) any {
	if k, ok := key.(*vkey); ok && k == &cancelKey {
		return nil
	}
	return w.c.Value(key)
}

func WithoutCancel(parent Context) Context { return withoutCancel{parent} }

// AfterFunc runs f in its own task once ctx is done.
func AfterFunc(ctx Context, f func()) (stop func() bool) {
	stopCh := make(chan struct{})
	var o, ran uint32
	vrt.GoDaemon("ctx-afterfunc", func() {
		i, _ := vrt.Select(false, vrt.CaseRecv(ctx.Done()), vrt.CaseRecv((<-chan struct{})(stopCh)))
		if i == 0 {
			vrt.Yield("ctx afterfunc")
			if o == 0 {
				o, ran = 1, 1
				f()
			}
		}
	})
	return func() bool {
		vrt.Yield("ctx afterfunc stop")
		if o != 0 {
			return false
		}
		o = 1
		vrt.CloseNoYield(stopCh)
		return ran == 0
	}
}
