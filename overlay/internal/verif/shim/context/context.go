//go:build verif

// Package context replaces the standard context package for the rewritten
// library sources.  Context is an alias of the standard interface, so the
// exported API keeps its exact types; cancellation, deadlines (virtual time)
// and Done channels are implemented on the vrt scheduler.
package context

import (
	stdctx "context"
	"time"
	"unsafe"

	"github.com/at-wat/mqtt-go/internal/verif/vrt"
)

type Context = stdctx.Context
type CancelFunc = stdctx.CancelFunc
type CancelCauseFunc = stdctx.CancelCauseFunc

var Canceled = stdctx.Canceled
var DeadlineExceeded = stdctx.DeadlineExceeded

func Background() Context { return stdctx.Background() }
func TODO() Context       { return stdctx.TODO() }

var epoch = time.Unix(1700000000, 0)

type vkey int

var cancelKey vkey

type vctx struct {
	parent   Context
	done     chan struct{}
	err      error
	dlCause  error // cause to report when the deadline fires (WithTimeoutCause)
	cause    error // what Cause reports once closed (err itself unless a cause was given)
	closed   bool
	deadline int64 // virtual ns; 0 = none
	hasDL    bool
	children []*vctx
	timer    *vrt.Timer
	vparent  *vctx
}

func (c *vctx) Deadline() (time.Time, bool) {
	if c.hasDL {
		return epoch.Add(time.Duration(c.deadline)), true
	}
	return c.parent.Deadline()
}

func (c *vctx) Done() <-chan struct{} { return c.done }

func (c *vctx) Err() error {
	var e error
	vrt.Atomic(unsafe.Pointer(&c.closed), false, func() uint64 {
		e = c.err
		if e != nil {
			return 1
		}
		return 0
	})
	return e
}

func (c *vctx) Value(key any) any {
	if k, ok := key.(*vkey); ok && k == &cancelKey {
		return c
	}
	return c.parent.Value(key)
}

// cancelLocked performs the cancellation; task==true when called from a task (visible op
// already taken), false when called from a timer action.
func (c *vctx) cancel(err error, tm *vrt.Timer) { c.cancelC(err, nil, tm) }

// cancelC cancels with an explicit cause (nil: the error itself).
func (c *vctx) cancelC(err, cause error, tm *vrt.Timer) {
	if c.closed {
		return
	}
	if cause == nil {
		cause = err
	}
	c.closed = true
	c.err = err
	c.cause = cause
	if tm != nil {
		vrt.TimerClose(tm, c.done)
		vrt.TimerTouch(tm, unsafe.Pointer(&c.closed))
	} else {
		vrt.CloseNoYield(c.done)
	}
	if c.timer != nil && tm == nil {
		c.timer.Stop()
	}
	for _, ch := range c.children {
		ch.cancelC(err, cause, tm)
	}
	c.children = nil
	if c.vparent != nil {
		p := c.vparent
		for i, x := range p.children {
			if x == c {
				p.children = append(p.children[:i], p.children[i+1:]...)
				break
			}
		}
	}
}

func newCtx(parent Context) *vctx {
	if parent == nil {
		panic("cannot create context from nil parent")
	}
	c := &vctx{parent: parent, done: make(chan struct{})}
	pd := parent.Done()
	if pd == nil {
		return c
	}
	if p, ok := parent.Value(&cancelKey).(*vctx); ok && p != nil && (<-chan struct{})(p.done) == pd {
		if p.closed {
			c.closed = true
			c.err = p.err
			if _, wrapped := parent.(*vctx); !wrapped {
				// as in the standard library: a parent that is already done hands down what its own
				// Err method says (a wrapper type may override it)
				if e := parent.Err(); e != nil {
					c.err = e
				}
			}
			c.cause = p.cause
			vrt.CloseNoYield(c.done)
			return c
		}
		p.children = append(p.children, c)
		c.vparent = p
		return c
	}
	// foreign parent with a Done channel: watch it from a helper task
	vrt.GoDaemon("ctx-watch", func() {
		i, _ := vrt.Select(false, vrt.CaseRecv(pd), vrt.CaseRecv((<-chan struct{})(c.done)))
		if i == 0 {
			vrt.Yield("ctx cancel (propagated)")
			c.cancel(parent.Err(), nil)
		}
	})
	return c
}

func WithCancel(parent Context) (Context, CancelFunc) {
	c := newCtx(parent)
	return c, func() {
		vrt.Yield("ctx cancel")
		c.cancel(Canceled, nil)
	}
}

func WithDeadline(parent Context, d time.Time) (Context, CancelFunc) {
	return WithTimeout(parent, d.Sub(epoch.Add(time.Duration(vrt.Now()))))
}

func WithTimeout(parent Context, timeout time.Duration) (Context, CancelFunc) {
	c := newCtx(parent)
	dl := vrt.Now() + int64(timeout)
	if pdl, ok := parent.Deadline(); ok {
		if p := int64(pdl.Sub(epoch)); p <= dl {
			// parent expires first
			return c, func() {
				vrt.Yield("ctx cancel")
				c.cancel(Canceled, nil)
			}
		}
	}
	c.hasDL = true
	c.deadline = dl
	if !c.closed {
		if timeout <= 0 {
			vrt.Yield("ctx deadline already passed")
			c.cancel(DeadlineExceeded, nil)
		} else {
			c.timer = vrt.NewTimer(int64(timeout), 0, func(tm *vrt.Timer) { c.cancelC(DeadlineExceeded, c.dlCause, tm) })
		}
	}
	return c, func() {
		vrt.Yield("ctx cancel")
		c.cancel(Canceled, nil)
	}
}

type valueCtx struct {
	Context
	key, val any
}

func (c *valueCtx) Value(key any) any {
	if c.key == key {
		return c.val
	}
	return c.Context.Value(key)
}

func WithValue(parent Context, key, val any) Context {
	return &valueCtx{parent, key, val}
}

// Cause reports why c was cancelled.  As in the standard library it asks the innermost
// cancellable context (found through Value), so an Err method overridden by a wrapper type is
// bypassed.
func Cause(c Context) error {
	if p, ok := c.Value(&cancelKey).(*vctx); ok && p != nil {
		var e error
		vrt.Atomic(unsafe.Pointer(&p.closed), false, func() uint64 {
			e = p.cause
			if e != nil {
				return 1
			}
			return 0
		})
		return e
	}
	return stdctx.Cause(c)
}
