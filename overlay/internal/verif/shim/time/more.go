//go:build verif

package time

import stdtime "time"

// Pure parts of the standard time package passed through unchanged.

type ParseError = stdtime.ParseError

const (
	Layout      = stdtime.Layout
	ANSIC       = stdtime.ANSIC
	UnixDate    = stdtime.UnixDate
	RubyDate    = stdtime.RubyDate
	RFC822      = stdtime.RFC822
	RFC822Z     = stdtime.RFC822Z
	RFC850      = stdtime.RFC850
	RFC1123     = stdtime.RFC1123
	RFC1123Z    = stdtime.RFC1123Z
	Kitchen     = stdtime.Kitchen
	Stamp       = stdtime.Stamp
	StampMilli  = stdtime.StampMilli
	StampMicro  = stdtime.StampMicro
	StampNano   = stdtime.StampNano
	DateTime    = stdtime.DateTime
	DateOnly    = stdtime.DateOnly
	TimeOnly    = stdtime.TimeOnly
)

const (
	January   = stdtime.January
	February  = stdtime.February
	March     = stdtime.March
	April     = stdtime.April
	May       = stdtime.May
	June      = stdtime.June
	July      = stdtime.July
	August    = stdtime.August
	September = stdtime.September
	October   = stdtime.October
	November  = stdtime.November
	December  = stdtime.December
)

const (
	Sunday    = stdtime.Sunday
	Monday    = stdtime.Monday
	Tuesday   = stdtime.Tuesday
	Wednesday = stdtime.Wednesday
	Thursday  = stdtime.Thursday
	Friday    = stdtime.Friday
	Saturday  = stdtime.Saturday
)

func UnixMicro(us int64) Time                     { return stdtime.UnixMicro(us) }
func Parse(layout, value string) (Time, error)    { return stdtime.Parse(layout, value) }
func FixedZone(name string, offset int) *Location { return stdtime.FixedZone(name, offset) }
func LoadLocation(name string) (*Location, error) { return stdtime.LoadLocation(name) }
func ParseInLocation(layout, value string, loc *Location) (Time, error) {
	return stdtime.ParseInLocation(layout, value, loc)
}
