//go:build verif

// Package time replaces the standard time package: the clock is virtual and
// timers are owned by the vrt scheduler.  Time and Duration are aliases.
package time

import (
	stdtime "time"

	"github.com/at-wat/mqtt-go/internal/verif/vrt"
)

type Duration = stdtime.Duration
type Time = stdtime.Time
type Month = stdtime.Month
type Weekday = stdtime.Weekday
type Location = stdtime.Location

const (
	Nanosecond  = stdtime.Nanosecond
	Microsecond = stdtime.Microsecond
	Millisecond = stdtime.Millisecond
	Second      = stdtime.Second
	Minute      = stdtime.Minute
	Hour        = stdtime.Hour
)

const (
	RFC3339     = stdtime.RFC3339
	RFC3339Nano = stdtime.RFC3339Nano
)

var UTC = stdtime.UTC
var Local = stdtime.Local

var epoch = stdtime.Unix(1700000000, 0)

func Unix(sec, nsec int64) Time { return stdtime.Unix(sec, nsec) }
func UnixMilli(ms int64) Time   { return stdtime.UnixMilli(ms) }
func Date(y int, m Month, d, h, mi, s, ns int, l *Location) Time {
	return stdtime.Date(y, m, d, h, mi, s, ns, l)
}
func ParseDuration(s string) (Duration, error) { return stdtime.ParseDuration(s) }

// Now returns the virtual time.
func Now() Time {
	n := vrt.Now()
	vrt.Observe(uint64(n))
	return epoch.Add(Duration(n))
}

func Since(t Time) Duration { return Now().Sub(t) }
func Until(t Time) Duration { return t.Sub(Now()) }

func Sleep(d Duration) { vrt.Sleep(int64(d)) }

type Timer struct {
	C <-chan Time
	c chan Time
	t *vrt.Timer
}

func NewTimer(d Duration) *Timer {
	c := make(chan Time, 1)
	tm := &Timer{C: c, c: c}
	tm.t = vrt.NewTimer(int64(d), 0, func(t *vrt.Timer) {
		vrt.TimerSend(t, c, epoch.Add(Duration(vrt.Now())))
	})
	return tm
}

func (t *Timer) Stop() bool { return t.t.Stop() }

func (t *Timer) Reset(d Duration) bool { return t.t.Reset(int64(d)) }

func After(d Duration) <-chan Time { return NewTimer(d).C }

func AfterFunc(d Duration, f func()) *Timer {
	tm := &Timer{}
	tm.t = vrt.NewTimer(int64(d), 0, func(t *vrt.Timer) {
		vrt.TimerGo(t, "afterfunc", f)
	})
	return tm
}

type Ticker struct {
	C <-chan Time
	c chan Time
	t *vrt.Timer
}

func NewTicker(d Duration) *Ticker {
	if d <= 0 {
		panic("non-positive interval for NewTicker")
	}
	c := make(chan Time, 1)
	tk := &Ticker{C: c, c: c}
	tk.t = vrt.NewTimer(int64(d), int64(d), func(t *vrt.Timer) {
		vrt.TimerSend(t, c, epoch.Add(Duration(vrt.Now())))
	})
	return tk
}

func (t *Ticker) Stop() { t.t.Stop() }

func (t *Ticker) Reset(d Duration) {
	t.t.Stop()
	c := t.c
	t.t = vrt.NewTimer(int64(d), int64(d), func(tm *vrt.Timer) {
		vrt.TimerSend(tm, c, epoch.Add(Duration(vrt.Now())))
	})
}

func Tick(d Duration) <-chan Time { return NewTicker(d).C }
