//go:build verif

package rand

// The rest of math/rand's API; values still come from the harness (default 0).

func Int63() int64         { return int64(Int31n(1<<31 - 1)) }
func Uint64() uint64       { return uint64(Int31n(1<<31 - 1)) }
func Float32() float32     { return 0 }
func NormFloat64() float64 { return 0 }
func ExpFloat64() float64  { return 0 }

func Perm(n int) []int {
	p := make([]int, n)
	for i := range p {
		p[i] = i
	}
	Shuffle(n, func(i, j int) { p[i], p[j] = p[j], p[i] })
	return p
}

func Shuffle(n int, swap func(i, j int)) {
	if n < 0 {
		panic("invalid argument to Shuffle")
	}
	for i := n - 1; i > 0; i-- {
		swap(i, Intn(i+1))
	}
}

func Read(p []byte) (int, error) {
	for i := range p {
		p[i] = byte(Int31n(256))
	}
	return len(p), nil
}

func (r *Rand) Uint64() uint64       { r.touch(); return Uint64() }
func (r *Rand) Float32() float32     { r.touch(); return 0 }
func (r *Rand) NormFloat64() float64 { r.touch(); return 0 }
func (r *Rand) ExpFloat64() float64  { r.touch(); return 0 }
func (r *Rand) Perm(n int) []int     { r.touch(); return Perm(n) }
func (r *Rand) Shuffle(n int, swap func(i, j int)) {
	r.touch()
	Shuffle(n, swap)
}
func (r *Rand) Read(p []byte) (int, error) { r.touch(); return Read(p) }
