//go:build verif

// Package rand replaces math/rand: values come from the harness, not from hidden randomness.
package rand

import "github.com/at-wat/mqtt-go/internal/verif/vrt"

func Seed(int64) {}

func Int31n(n int32) int32 {
	if vrt.W != nil && vrt.W.RandInt31n != nil {
		return vrt.W.RandInt31n(n) % n
	}
	return 0
}

func Intn(n int) int {
	if n <= 0 {
		panic("invalid argument to Intn")
	}
	if int64(n) > 1<<31-1 {
		return int(Int31n(1<<31 - 1))
	}
	return int(Int31n(int32(n)))
}
func Int63n(n int64) int64 {
	if n <= 0 {
		panic("invalid argument to Int63n")
	}
	if n > 1<<31-1 {
		return int64(Int31n(1<<31 - 1))
	}
	return int64(Int31n(int32(n)))
}
func Int() int             { return int(Int31n(1 << 30)) }
func Int31() int32         { return Int31n(1<<31 - 1) }
func Uint32() uint32       { return uint32(Int31n(1<<31 - 1)) }
func Float64() float64     { return 0 }

// Source / Rand: generators created by the program.  A *Rand is not safe for concurrent use in the
// standard library; its state is therefore one instrumented memory location, so that the race
// monitor reports unsynchronised sharing.  Values still come from the harness.
type Source interface {
	Int63() int64
	Seed(seed int64)
}

type src struct{ state int64 }

func (s *src) Int63() int64 {
	*vrt.Wr(&s.state, "rand.Source state", "rand.Source.Int63@rand.go:0")++
	return int64(Int31n(1<<31 - 1))
}
func (s *src) Seed(seed int64) { *vrt.Wr(&s.state, "rand.Source state", "rand.Source.Seed@rand.go:0") = seed }

func NewSource(seed int64) Source { return &src{state: seed} }

type Rand struct{ s Source }

func New(s Source) *Rand { return &Rand{s: s} }

func (r *Rand) touch()               { r.s.Int63() }
func (r *Rand) Seed(seed int64)      { r.s.Seed(seed) }
func (r *Rand) Int63() int64         { return r.s.Int63() }
func (r *Rand) Int31() int32         { r.touch(); return Int31() }
func (r *Rand) Int31n(n int32) int32 { r.touch(); return Int31n(n) }
func (r *Rand) Intn(n int) int       { r.touch(); return Intn(n) }
func (r *Rand) Int63n(n int64) int64 { r.touch(); return Int63n(n) }
func (r *Rand) Int() int             { r.touch(); return Int() }
func (r *Rand) Uint32() uint32       { r.touch(); return Uint32() }
func (r *Rand) Float64() float64     { r.touch(); return 0 }
