//go:build verif

// Package rand replaces math/rand: values come from the harness, not from hidden randomness.
package rand

import "github.com/at-wat/mqtt-go/internal/verif/vrt"

func Seed(int64) {}

func Int31n(n int32) int32 {
	if vrt.W != nil && vrt.W.RandInt31n != nil {
		return vrt.W.RandInt31n(n) % n
	}
	return 0
}

func Intn(n int) int       { return int(Int31n(int32(n))) }
func Int63n(n int64) int64 { return int64(Int31n(int32(n))) }
func Int() int             { return int(Int31n(1 << 30)) }
func Int31() int32         { return Int31n(1<<31 - 1) }
func Uint32() uint32       { return uint32(Int31n(1<<31 - 1)) }
func Float64() float64     { return 0 }
