//go:build verif

package sync

import "github.com/at-wat/mqtt-go/internal/verif/vrt"

// The rest of the standard sync API, so that a change of the library that starts using it still
// builds under the checker.  Everything is built from the scheduler-visible Mutex above.

// Map has the semantics of sync.Map (a concurrent map); every operation is one critical section.
type Map struct {
	mu Mutex
	m  map[any]any
	ks []any // insertion order: Range is deterministic
}

func (m *Map) Load(key any) (value any, ok bool) {
	m.mu.Lock()
	defer m.mu.Unlock()
	value, ok = m.m[key]
	return
}

func (m *Map) Store(key, value any) { m.Swap(key, value) }

func (m *Map) Swap(key, value any) (previous any, loaded bool) {
	m.mu.Lock()
	defer m.mu.Unlock()
	if m.m == nil {
		m.m = map[any]any{}
	}
	previous, loaded = m.m[key]
	if !loaded {
		m.ks = append(m.ks, key)
	}
	m.m[key] = value
	return
}

func (m *Map) LoadOrStore(key, value any) (actual any, loaded bool) {
	m.mu.Lock()
	defer m.mu.Unlock()
	if v, ok := m.m[key]; ok {
		return v, true
	}
	if m.m == nil {
		m.m = map[any]any{}
	}
	m.m[key] = value
	m.ks = append(m.ks, key)
	return value, false
}

func (m *Map) del(key any) {
	delete(m.m, key)
	for i, k := range m.ks {
		if k == key {
			m.ks = append(m.ks[:i:i], m.ks[i+1:]...)
			break
		}
	}
}

func (m *Map) LoadAndDelete(key any) (value any, loaded bool) {
	m.mu.Lock()
	defer m.mu.Unlock()
	value, loaded = m.m[key]
	if loaded {
		m.del(key)
	}
	return
}

func (m *Map) Delete(key any) { m.LoadAndDelete(key) }

func (m *Map) CompareAndSwap(key, old, new any) bool {
	m.mu.Lock()
	defer m.mu.Unlock()
	if v, ok := m.m[key]; ok && v == old {
		m.m[key] = new
		return true
	}
	return false
}

func (m *Map) CompareAndDelete(key, old any) bool {
	m.mu.Lock()
	defer m.mu.Unlock()
	if v, ok := m.m[key]; ok && v == old {
		m.del(key)
		return true
	}
	return false
}

func (m *Map) Range(f func(key, value any) bool) {
	m.mu.Lock()
	ks := append([]any(nil), m.ks...)
	m.mu.Unlock()
	for _, k := range ks {
		v, ok := m.Load(k)
		if !ok {
			continue
		}
		if !f(k, v) {
			return
		}
	}
}

func (m *Map) Clear() {
	m.mu.Lock()
	defer m.mu.Unlock()
	m.m, m.ks = nil, nil
}

// Pool retains everything that is Put and hands it out again last-in-first-out (what sync.Pool
// does on one P when no GC intervenes): a value put back while something still refers to it is
// certain to be handed to the next Get, which is the behaviour that exposes reuse bugs.
type Pool struct {
	New func() any

	mu   Mutex
	free []any
	w    *vrt.World // the execution the retained values belong to (a package-level Pool outlives executions)
}

func (p *Pool) sameExecution() {
	if p.w != vrt.W {
		p.w, p.free = vrt.W, nil
	}
}

func (p *Pool) Get() any {
	p.mu.Lock()
	p.sameExecution()
	if n := len(p.free); n > 0 {
		v := p.free[n-1]
		p.free = p.free[:n-1]
		p.mu.Unlock()
		return v
	}
	p.mu.Unlock()
	if p.New != nil {
		return p.New()
	}
	return nil
}

func (p *Pool) Put(v any) {
	if v == nil {
		return
	}
	p.mu.Lock()
	p.sameExecution()
	p.free = append(p.free, v)
	p.mu.Unlock()
}

func OnceFunc(f func()) func() {
	var o Once
	return func() { o.Do(f) }
}

func OnceValue[T any](f func() T) func() T {
	var o Once
	var v T
	return func() T { o.Do(func() { v = f() }); return v }
}

func OnceValues[T1, T2 any](f func() (T1, T2)) func() (T1, T2) {
	var o Once
	var v1 T1
	var v2 T2
	return func() (T1, T2) { o.Do(func() { v1, v2 = f() }); return v1, v2 }
}
