//go:build verif

// Package sync is the drop-in replacement of the standard sync package used by
// the rewritten library sources: same API, implemented on the vrt scheduler.
package sync

import "github.com/at-wat/mqtt-go/internal/verif/vrt"

type Locker interface {
	Lock()
	Unlock()
}

type Mutex struct{ st vrt.MutexState }

func (m *Mutex) Lock()         { vrt.MuLock(&m.st) }
func (m *Mutex) Unlock()       { vrt.MuUnlock(&m.st) }
func (m *Mutex) TryLock() bool { return vrt.MuTryLock(&m.st) }

type RWMutex struct{ st vrt.RWState }

func (m *RWMutex) Lock()    { vrt.RWLock(&m.st) }
func (m *RWMutex) Unlock()  { vrt.RWUnlock(&m.st) }
func (m *RWMutex) RLock()   { vrt.RWRLock(&m.st) }
func (m *RWMutex) RUnlock() { vrt.RWRUnlock(&m.st) }

type rlocker RWMutex

func (r *rlocker) Lock()   { (*RWMutex)(r).RLock() }
func (r *rlocker) Unlock() { (*RWMutex)(r).RUnlock() }

func (m *RWMutex) RLocker() Locker { return (*rlocker)(m) }

type Once struct{ st vrt.OnceState }

func (o *Once) Do(f func()) { vrt.OnceDo(&o.st, f) }

type WaitGroup struct{ st vrt.WGState }

func (g *WaitGroup) Add(d int) { vrt.WGAdd(&g.st, d) }
func (g *WaitGroup) Done()     { vrt.WGAdd(&g.st, -1) }
func (g *WaitGroup) Wait()     { vrt.WGWait(&g.st) }

type Cond struct {
	L  Locker
	st vrt.CondState
}

func NewCond(l Locker) *Cond { return &Cond{L: l} }
func (c *Cond) Wait()        { vrt.CondWait(&c.st, c.L.Unlock, c.L.Lock) }
func (c *Cond) Signal()      { vrt.CondSignal(&c.st, false) }
func (c *Cond) Broadcast()   { vrt.CondSignal(&c.st, true) }
