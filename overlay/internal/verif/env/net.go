//go:build verif

package env

import (
	"errors"
	"fmt"
	"io"
	"net"
	"strings"
	"unsafe"

	"github.com/at-wat/mqtt-go/internal/verif/vrt"
)

// WireEvent is one entry of the global wire trace.
type WireEvent struct {
	Conn int
	Dir  byte // '>' client->peer, '<' peer->client, '!' link event
	Pkt  *Packet
	Raw  []byte
	Note string
	T    int64
	Seq  int
}

func (e WireEvent) String() string {
	switch e.Dir {
	case '!':
		return fmt.Sprintf("c%d ! %s", e.Conn, e.Note)
	}
	s := "?"
	if e.Pkt != nil {
		s = e.Pkt.String()
	} else {
		s = fmt.Sprintf("raw % x", e.Raw)
	}
	if e.Note != "" {
		s += " [" + e.Note + "]"
	}
	return fmt.Sprintf("c%d %c %s", e.Conn, e.Dir, s)
}

// Net is the environment of one execution: all connections and the global wire trace.
type Net struct {
	Conns []*Conn
	Trace []WireEvent
	// EOFWriteErrors: a write on a broken link fails with an error that wraps io.EOF (some
	// transports report a vanished peer that way) instead of the EPIPE-like ErrLinkDown.
	EOFWriteErrors bool
	// PipeErrors: a locally closed transport reports io.ErrClosedPipe (net.Pipe) instead of the
	// socket-style *net.OpError wrapping net.ErrClosed.
	PipeErrors bool
}

// NewNet creates an empty environment.
func NewNet() *Net { return &Net{} }

func (n *Net) log(e WireEvent) {
	e.T = vrt.Now()
	e.Seq = len(n.Trace)
	n.Trace = append(n.Trace, e)
	if vrt.Tracing() {
		vrt.Tracef("   wire: %s", e.String())
	}
}

// TraceHash hashes the wire trace (for distinct-outcome counting).
func (n *Net) TraceHash() uint64 {
	h := uint64(1469598103934665603)
	for i := range n.Trace {
		e := &n.Trace[i]
		h = h*1099511628211 ^ (uint64(e.Conn+1)<<8 | uint64(e.Dir))
		h = h*1099511628211 ^ vrt.HashBytes(e.Raw)
		h = h*1099511628211 ^ vrt.HashString(e.Note)
		h = h*1099511628211 ^ uint64(e.T)
	}
	return h
}

// CanonHash hashes the wire trace per connection (order within a connection matters, the
// interleaving of different connections does not).
func (n *Net) CanonHash() uint64 {
	per := map[int]uint64{}
	for i := range n.Trace {
		e := &n.Trace[i]
		h := per[e.Conn]
		if h == 0 {
			h = 1469598103934665603
		}
		h = h*1099511628211 ^ uint64(e.Dir)
		h = h*1099511628211 ^ vrt.HashBytes(e.Raw)
		h = h*1099511628211 ^ vrt.HashString(e.Note)
		h = h*1099511628211 ^ uint64(e.T)
		per[e.Conn] = h
	}
	var sum uint64
	for c, h := range per {
		sum += h * uint64(2*c+3)
	}
	return sum
}

// TraceStrings renders the wire trace.
func (n *Net) TraceStrings() []string {
	var out []string
	for _, e := range n.Trace {
		out = append(out, fmt.Sprintf("t=%dms %s", e.T/1e6, e.String()))
	}
	return out
}

// NotSent prefixes the note of a '>' trace event whose bytes never left the client.
const NotSent = "NOT SENT: "

// Sent reports whether a '>' event was really handed to the peer side of the link.
func (e WireEvent) Sent() bool { return e.Dir == '>' && !strings.HasPrefix(e.Note, NotSent) }

// ErrLinkDown is returned by Write on a dead link.
var ErrLinkDown = errors.New("env: write on broken link (EPIPE)")

// ErrLinkDownEOF is the flavour of the same event that wraps io.EOF (Net.EOFWriteErrors).
var ErrLinkDownEOF = fmt.Errorf("env: write on broken link: %w", io.EOF)

// LinkDownErr returns the write error of a broken link for this environment.
func (n *Net) LinkDownErr() error {
	if n.EOFWriteErrors {
		return ErrLinkDownEOF
	}
	return ErrLinkDown
}

// ErrClosed is returned by Read/Write after the local side closed the transport.  It is shaped like
// what a real socket returns ("use of closed network connection": a *net.OpError wrapping
// net.ErrClosed), because library code may inspect it with errors.Is.
var ErrClosed error = &net.OpError{Op: "read", Net: "mem", Err: net.ErrClosed}

// ErrClosedPipe is the net.Pipe flavour of the same event (Net.PipeErrors).
var ErrClosedPipe = io.ErrClosedPipe

// Peer receives what the client writes.
type Peer interface {
	// OnData is called inside the client's Write with the bytes written.  A non-nil error is
	// returned by Write (and nothing of data counts as delivered).
	OnData(c *Conn, data []byte) error
}

// Conn is an in-memory transport (io.ReadWriteCloser) between the client and a peer.
type Conn struct {
	Net        *Net
	ID         int
	Peer       Peer
	Chunked    bool  // deliver every Write in two chunks with a scheduling point in between
	CloseErr   error // returned by Close (the transport is closed all the same), e.g. a failed TLS / WebSocket closing handshake
	ReadMax    int   // >0: a Read returns at most this many bytes (short reads: one TCP segment per byte)
	FailWrites bool  // every Write fails with an error and reaches nobody, while the read side stays open and silent (half-dead link)
	Stalled    bool  // the peer stopped reading and the send buffer is full: Write blocks until the transport is closed locally
	in         []byte
	eof        bool
	closed     bool
	dead       bool // writes fail
	Attempts   [][]byte
	Chunks     []Chunk
	MaxReadReq int
	OpenedAt   int64
	ClosedAt   int64
	EOFAt      int64
	nwrite     int
}

// Chunk is a piece of a Write as seen by the peer in chunked mode.
type Chunk struct {
	Write int // index of the Write call
	Part  int
	Data  []byte
}

// NewConn opens a connection to peer.
func (n *Net) NewConn(peer Peer) *Conn {
	c := &Conn{Net: n, ID: len(n.Conns), Peer: peer, OpenedAt: vrt.Now(), ClosedAt: -1, EOFAt: -1}
	n.Conns = append(n.Conns, c)
	vrt.Event(unsafe.Pointer(n), uint64(c.ID))
	n.log(WireEvent{Conn: c.ID, Dir: '!', Note: "open"})
	return c
}

func (c *Conn) Read(p []byte) (int, error) {
	if len(p) > c.MaxReadReq {
		c.MaxReadReq = len(p)
	}
	vrt.AwaitN("Read conn", c.ID, func() bool { return len(c.in) > 0 || c.eof || c.closed })
	if c.closed {
		vrt.Event(unsafe.Pointer(c), 0xC1)
		return 0, c.closedErr()
	}
	if len(c.in) > 0 {
		if c.ReadMax > 0 && len(p) > c.ReadMax {
			p = p[:c.ReadMax]
		}
		n := copy(p, c.in)
		c.in = c.in[n:]
		vrt.Event(unsafe.Pointer(c), uint64(n))
		return n, nil
	}
	vrt.Event(unsafe.Pointer(c), 0xC2)
	return 0, io.EOF
}

func (c *Conn) Write(p []byte) (int, error) {
	vrt.YieldN("Write conn", c.ID)
	cp := append([]byte(nil), p...)
	c.Attempts = append(c.Attempts, cp)
	w := c.nwrite
	c.nwrite++
	vrt.Event(unsafe.Pointer(c), vrt.HashBytes(p))
	if c.closed || c.dead || c.eof || c.FailWrites {
		// a transmission attempt that cannot reach the peer; still part of the trace (C12 judges attempts)
		note := NotSent + "write on transport closed by the client fails"
		err := c.closedErr()
		if !c.closed {
			note, err = NotSent+"write on dead link fails", c.Net.LinkDownErr()
		}
		pk, _, _ := Decode(cp)
		c.Net.log(WireEvent{Conn: c.ID, Dir: '>', Pkt: pk, Raw: cp, Note: note})
		return 0, err
	}
	if c.Stalled {
		pk, _, _ := Decode(cp)
		c.Net.log(WireEvent{Conn: c.ID, Dir: '>', Pkt: pk, Raw: cp, Note: NotSent + "write blocks: the peer has stopped reading"})
		vrt.AwaitN("Write (stalled) conn", c.ID, func() bool { return c.closed })
		vrt.Event(unsafe.Pointer(c), 0xC7)
		return 0, c.closedErr()
	}
	if c.Chunked && len(cp) > 1 {
		h := len(cp) / 2
		c.Chunks = append(c.Chunks, Chunk{w, 0, cp[:h]})
		if err := c.Peer.OnData(c, cp[:h]); err != nil {
			return 0, err
		}
		vrt.YieldN("Write second chunk conn", c.ID)
		if c.closed {
			return h, c.closedErr()
		}
		c.Chunks = append(c.Chunks, Chunk{w, 1, cp[h:]})
		vrt.Event(unsafe.Pointer(c), 0xC3)
		if err := c.Peer.OnData(c, cp[h:]); err != nil {
			return h, err
		}
		return len(p), nil
	}
	c.Chunks = append(c.Chunks, Chunk{w, 0, cp})
	if c.Peer != nil {
		if err := c.Peer.OnData(c, cp); err != nil {
			return 0, err
		}
	}
	return len(p), nil
}

func (c *Conn) closedErr() error {
	if c.Net.PipeErrors {
		return ErrClosedPipe
	}
	return ErrClosed
}

func (c *Conn) Close() error {
	vrt.YieldN("Close conn", c.ID)
	vrt.Event(unsafe.Pointer(c), 0xC4)
	if c.closed {
		return nil
	}
	c.closed = true
	c.ClosedAt = vrt.Now()
	c.Net.log(WireEvent{Conn: c.ID, Dir: '!', Note: "closed by client"})
	return c.CloseErr
}

// Closed reports whether the client closed the transport.
func (c *Conn) Closed() bool { return c.closed }

// EOF reports whether the peer closed the link.
func (c *Conn) EOF() bool { return c.eof }

// Down reports whether the link is finished from either side.
func (c *Conn) Down() bool { return c.closed || c.eof || c.dead }

// Inject makes data readable by the client (peer -> client).  No scheduling point.
func (c *Conn) Inject(data []byte) {
	c.in = append(c.in, data...)
	vrt.Event(unsafe.Pointer(c), vrt.HashBytes(data)^0xC5)
}

// Send injects one well-formed packet and logs it.
func (c *Conn) Send(data []byte, note string) {
	p, _, _ := Decode(data)
	c.Net.log(WireEvent{Conn: c.ID, Dir: '<', Pkt: p, Raw: data, Note: note})
	c.Inject(data)
}

// PeerClose closes the link from the peer side: the client reads EOF after draining.
func (c *Conn) PeerClose(note string) {
	if c.eof {
		return
	}
	c.eof = true
	c.EOFAt = vrt.Now()
	vrt.Event(unsafe.Pointer(c), 0xC6)
	c.Net.log(WireEvent{Conn: c.ID, Dir: '!', Note: "closed by peer: " + note})
}

// Break makes the link dead: writes fail and the reader sees EOF.
func (c *Conn) Break(note string) {
	c.dead = true
	c.PeerClose(note)
}

// Unread returns the number of bytes injected but not yet read by the client.
func (c *Conn) Unread() int { return len(c.in) }

// PeerCloseFromTimer closes the link from the peer side inside a timer action.
func (c *Conn) PeerCloseFromTimer(t *vrt.Timer, note string) {
	if c.eof {
		return
	}
	c.eof = true
	c.EOFAt = vrt.Now()
	vrt.TimerTouch(t, unsafe.Pointer(c))
	c.Net.log(WireEvent{Conn: c.ID, Dir: '!', Note: "closed by peer: " + note})
}

// InjectFromTimer makes data readable by the client inside a timer action.
func (c *Conn) InjectFromTimer(t *vrt.Timer, data []byte) {
	c.in = append(c.in, data...)
	vrt.TimerTouch(t, unsafe.Pointer(c))
	c.Net.log(WireEvent{Conn: c.ID, Dir: '<', Raw: data, Note: "injected by timer"})
}
