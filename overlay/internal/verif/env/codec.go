//go:build verif

// Package env is the modelled environment of the library under test: an
// independent MQTT 3.1.1 codec written from the specification text (OASIS
// mqtt-v3.1.1-os), an in-memory transport, a dialer and a broker model.
package env

import (
	"errors"
	"fmt"
	"strings"
	"unicode/utf8"
)

// Packet types (MQTT 3.1.1 table 2.1).
const (
	CONNECT     = 1
	CONNACK     = 2
	PUBLISH     = 3
	PUBACK      = 4
	PUBREC      = 5
	PUBREL      = 6
	PUBCOMP     = 7
	SUBSCRIBE   = 8
	SUBACK      = 9
	UNSUBSCRIBE = 10
	UNSUBACK    = 11
	PINGREQ     = 12
	PINGRESP    = 13
	DISCONNECT  = 14
)

var typeNames = [...]string{"RESERVED0", "CONNECT", "CONNACK", "PUBLISH", "PUBACK", "PUBREC", "PUBREL", "PUBCOMP", "SUBSCRIBE", "SUBACK", "UNSUBSCRIBE", "UNSUBACK", "PINGREQ", "PINGRESP", "DISCONNECT", "RESERVED15"}

// TypeName returns the name of a packet type.
func TypeName(t byte) string { return typeNames[t&15] }

// MaxRemLen is the largest remaining length representable (section 2.2.3).
const MaxRemLen = 268435455

// ErrIncomplete means more bytes are needed to decode a packet.
var ErrIncomplete = errors.New("incomplete packet")

// Malformed is a protocol violation found by the decoder.
type Malformed struct{ Reason string }

func (m *Malformed) Error() string { return "malformed packet: " + m.Reason }

func malformed(format string, a ...any) error { return &Malformed{fmt.Sprintf(format, a...)} }

// Packet is a decoded MQTT control packet.
type Packet struct {
	Type       byte
	Flags      byte
	Body       []byte // variable header + payload (raw)
	HdrLen     int    // bytes of fixed header
	MinimalLen bool   // remaining length used the minimal encoding

	// CONNECT
	ProtoName  string
	Level      byte
	ConnFlags  byte
	Clean      bool
	HasWill    bool
	WillQoS    byte
	WillRetain bool
	HasUser    bool
	HasPass    bool
	KeepAlive  uint16
	ClientID   string
	WillTopic  string
	WillMsg    []byte
	User       string
	Pass       []byte

	// CONNACK
	SessionPresent bool
	ReturnCode     byte

	// PUBLISH
	Topic   string
	Payload []byte
	QoS     byte
	Dup     bool
	Retain  bool

	// PUBLISH(QoS>0), PUBACK, PUBREC, PUBREL, PUBCOMP, SUBSCRIBE, SUBACK, UNSUBSCRIBE, UNSUBACK
	ID uint16

	// SUBSCRIBE / UNSUBSCRIBE
	Filters []string
	QoSs    []byte
	// SUBACK
	Codes []byte
}

// EncodeRemLen encodes a remaining length per the algorithm of section 2.2.3.
func EncodeRemLen(x int) []byte {
	if x < 0 || x > MaxRemLen {
		panic("remaining length out of range")
	}
	var out []byte
	for {
		d := byte(x % 128)
		x = x / 128
		if x > 0 {
			d |= 128
		}
		out = append(out, d)
		if x == 0 {
			return out
		}
	}
}

// DecodeRemLen decodes a remaining length (section 2.2.3); at most 4 bytes are allowed.
func DecodeRemLen(b []byte) (value, used int, err error) {
	mult := 1
	for i := 0; ; i++ {
		if i >= 4 {
			return 0, 0, malformed("remaining length longer than 4 bytes")
		}
		if i >= len(b) {
			return 0, 0, ErrIncomplete
		}
		value += int(b[i]&127) * mult
		mult *= 128
		if b[i]&128 == 0 {
			return value, i + 1, nil
		}
	}
}

type rd struct {
	b   []byte
	err error
}

func (r *rd) u8(what string) byte {
	if r.err != nil {
		return 0
	}
	if len(r.b) < 1 {
		r.err = malformed("%s: body too short", what)
		return 0
	}
	v := r.b[0]
	r.b = r.b[1:]
	return v
}

func (r *rd) u16(what string) uint16 {
	if r.err != nil {
		return 0
	}
	if len(r.b) < 2 {
		r.err = malformed("%s: body too short", what)
		return 0
	}
	v := uint16(r.b[0])<<8 | uint16(r.b[1])
	r.b = r.b[2:]
	return v
}

func (r *rd) bin(what string) []byte {
	n := int(r.u16(what + " length"))
	if r.err != nil {
		return nil
	}
	if len(r.b) < n {
		r.err = malformed("%s: length prefix %d exceeds remaining %d", what, n, len(r.b))
		return nil
	}
	v := r.b[:n:n]
	r.b = r.b[n:]
	return v
}

// ValidUTF8String checks section 1.5.3: well-formed UTF-8, no U+0000, no surrogates.
func ValidUTF8String(b []byte) error {
	if !utf8.Valid(b) {
		return malformed("ill-formed UTF-8")
	}
	for _, r := range string(b) {
		if r == 0 {
			return malformed("U+0000 in string")
		}
	}
	return nil
}

func (r *rd) str(what string) string {
	b := r.bin(what)
	if r.err != nil {
		return ""
	}
	if err := ValidUTF8String(b); err != nil {
		r.err = malformed("%s: %v", what, err)
		return ""
	}
	return string(b)
}

// Decode decodes one packet from the front of b.  It returns ErrIncomplete if b holds only a
// prefix of a packet, a *Malformed error for protocol violations.
func Decode(b []byte) (*Packet, int, error) {
	if len(b) < 2 {
		return nil, 0, ErrIncomplete
	}
	p := &Packet{Type: b[0] >> 4, Flags: b[0] & 15}
	rl, used, err := DecodeRemLen(b[1:])
	if err != nil {
		return nil, 0, err
	}
	p.HdrLen = 1 + used
	p.MinimalLen = len(EncodeRemLen(rl)) == used
	total := 1 + used + rl
	if len(b) < total {
		return nil, 0, ErrIncomplete
	}
	p.Body = b[1+used : total : total]
	if err := p.parse(); err != nil {
		return p, total, err
	}
	return p, total, nil
}

func (p *Packet) parse() error {
	r := &rd{b: p.Body}
	// reserved flag bits, table 2.2
	switch p.Type {
	case PUBLISH:
	case PUBREL, SUBSCRIBE, UNSUBSCRIBE:
		if p.Flags != 2 {
			return malformed("%s: reserved flags %04b, must be 0010", TypeName(p.Type), p.Flags)
		}
	case 0, 15:
		return malformed("reserved packet type %d", p.Type)
	default:
		if p.Flags != 0 {
			return malformed("%s: reserved flags %04b, must be 0000", TypeName(p.Type), p.Flags)
		}
	}
	switch p.Type {
	case CONNECT:
		p.ProtoName = r.str("protocol name")
		p.Level = r.u8("protocol level")
		p.ConnFlags = r.u8("connect flags")
		p.KeepAlive = r.u16("keep alive")
		if r.err != nil {
			return r.err
		}
		f := p.ConnFlags
		if f&1 != 0 {
			return malformed("CONNECT: reserved flag bit set")
		}
		p.Clean = f&2 != 0
		p.HasWill = f&4 != 0
		p.WillQoS = (f >> 3) & 3
		p.WillRetain = f&32 != 0
		p.HasPass = f&64 != 0
		p.HasUser = f&128 != 0
		if p.WillQoS == 3 {
			return malformed("CONNECT: will QoS 3")
		}
		if !p.HasWill && (p.WillQoS != 0 || p.WillRetain) {
			return malformed("CONNECT: will QoS/retain set without will flag")
		}
		if p.HasPass && !p.HasUser {
			return malformed("CONNECT: password flag without user name flag [MQTT-3.1.2-22]")
		}
		p.ClientID = r.str("client id")
		if p.HasWill {
			p.WillTopic = r.str("will topic")
			p.WillMsg = r.bin("will message")
		}
		if p.HasUser {
			p.User = r.str("user name")
		}
		if p.HasPass {
			p.Pass = r.bin("password")
		}
		if r.err != nil {
			return r.err
		}
		if len(r.b) != 0 {
			return malformed("CONNECT: %d trailing bytes", len(r.b))
		}
	case CONNACK:
		if len(r.b) != 2 {
			return malformed("CONNACK: remaining length %d, must be 2", len(r.b))
		}
		a := r.u8("ack flags")
		p.ReturnCode = r.u8("return code")
		if a&0xFE != 0 {
			return malformed("CONNACK: reserved ack flag bits set")
		}
		p.SessionPresent = a&1 != 0
	case PUBLISH:
		p.Dup = p.Flags&8 != 0
		p.QoS = (p.Flags >> 1) & 3
		p.Retain = p.Flags&1 != 0
		if p.QoS == 3 {
			return malformed("PUBLISH: QoS 3")
		}
		p.Topic = r.str("topic name")
		if r.err != nil {
			return r.err
		}
		if p.QoS > 0 {
			p.ID = r.u16("packet identifier")
			if r.err != nil {
				return r.err
			}
		}
		p.Payload = r.b
	case PUBACK, PUBREC, PUBREL, PUBCOMP, UNSUBACK:
		if len(r.b) != 2 {
			return malformed("%s: remaining length %d, must be 2", TypeName(p.Type), len(r.b))
		}
		p.ID = r.u16("packet identifier")
	case SUBSCRIBE:
		p.ID = r.u16("packet identifier")
		if r.err != nil {
			return r.err
		}
		if len(r.b) == 0 {
			return malformed("SUBSCRIBE: no topic filter")
		}
		for len(r.b) > 0 {
			f := r.str("topic filter")
			q := r.u8("requested QoS")
			if r.err != nil {
				return r.err
			}
			if q > 2 {
				return malformed("SUBSCRIBE: requested QoS %d", q)
			}
			p.Filters = append(p.Filters, f)
			p.QoSs = append(p.QoSs, q)
		}
	case SUBACK:
		p.ID = r.u16("packet identifier")
		if r.err != nil {
			return r.err
		}
		p.Codes = append([]byte(nil), r.b...)
		for _, c := range p.Codes {
			if c > 2 && c != 0x80 {
				return malformed("SUBACK: return code %#x", c)
			}
		}
	case UNSUBSCRIBE:
		p.ID = r.u16("packet identifier")
		if r.err != nil {
			return r.err
		}
		if len(r.b) == 0 {
			return malformed("UNSUBSCRIBE: no topic filter")
		}
		for len(r.b) > 0 {
			f := r.str("topic filter")
			if r.err != nil {
				return r.err
			}
			p.Filters = append(p.Filters, f)
		}
	case PINGREQ, PINGRESP, DISCONNECT:
		if len(r.b) != 0 {
			return malformed("%s: remaining length %d, must be 0", TypeName(p.Type), len(r.b))
		}
	}
	return r.err
}

func putStr(b []byte, s []byte) []byte {
	b = append(b, byte(len(s)>>8), byte(len(s)))
	return append(b, s...)
}

func frame(first byte, body []byte) []byte {
	out := []byte{first}
	out = append(out, EncodeRemLen(len(body))...)
	return append(out, body...)
}

// EncConnAck encodes CONNACK.
func EncConnAck(sessionPresent bool, code byte) []byte {
	a := byte(0)
	if sessionPresent {
		a = 1
	}
	return frame(CONNACK<<4, []byte{a, code})
}

// EncPublish encodes PUBLISH.
func EncPublish(topic string, payload []byte, qos byte, id uint16, dup, retain bool) []byte {
	f := byte(PUBLISH<<4) | qos<<1
	if dup {
		f |= 8
	}
	if retain {
		f |= 1
	}
	var body []byte
	body = putStr(body, []byte(topic))
	if qos > 0 {
		body = append(body, byte(id>>8), byte(id))
	}
	body = append(body, payload...)
	return frame(f, body)
}

// EncAck encodes PUBACK/PUBREC/PUBREL/PUBCOMP/UNSUBACK.
func EncAck(typ byte, id uint16) []byte {
	f := typ << 4
	if typ == PUBREL {
		f |= 2
	}
	return frame(f, []byte{byte(id >> 8), byte(id)})
}

// EncSubAck encodes SUBACK.
func EncSubAck(id uint16, codes []byte) []byte {
	return frame(SUBACK<<4, append([]byte{byte(id >> 8), byte(id)}, codes...))
}

// EncPingResp encodes PINGRESP.
func EncPingResp() []byte { return []byte{PINGRESP << 4, 0} }

// String renders a packet for traces.
func (p *Packet) String() string {
	switch p.Type {
	case CONNECT:
		return fmt.Sprintf("CONNECT(id=%q clean=%v ka=%d)", p.ClientID, p.Clean, p.KeepAlive)
	case CONNACK:
		return fmt.Sprintf("CONNACK(sp=%v code=%d)", p.SessionPresent, p.ReturnCode)
	case PUBLISH:
		s := fmt.Sprintf("PUBLISH(q%d", p.QoS)
		if p.QoS > 0 {
			s += fmt.Sprintf(" id=%d", p.ID)
		}
		if p.Dup {
			s += " dup"
		}
		if p.Retain {
			s += " retain"
		}
		pl := string(p.Payload)
		if len(pl) > 16 {
			pl = pl[:16] + "…"
		}
		return s + fmt.Sprintf(" %s=%q)", p.Topic, pl)
	case SUBSCRIBE:
		var fs []string
		for i, f := range p.Filters {
			fs = append(fs, fmt.Sprintf("%s:q%d", f, p.QoSs[i]))
		}
		return fmt.Sprintf("SUBSCRIBE(id=%d %s)", p.ID, strings.Join(fs, ","))
	case UNSUBSCRIBE:
		return fmt.Sprintf("UNSUBSCRIBE(id=%d %s)", p.ID, strings.Join(p.Filters, ","))
	case SUBACK:
		return fmt.Sprintf("SUBACK(id=%d %v)", p.ID, p.Codes)
	case PUBACK, PUBREC, PUBREL, PUBCOMP, UNSUBACK:
		return fmt.Sprintf("%s(id=%d)", TypeName(p.Type), p.ID)
	}
	return TypeName(p.Type)
}
