//go:build verif

package env

import (
	"fmt"
	"sort"
	"strings"
	"unsafe"

	"github.com/at-wat/mqtt-go/internal/verif/vrt"
)

// FaultSet selects which environment faults are offered at each client->broker packet.
// Alternative 0 of every fault choice is "deliver"; the enabled kinds follow in this order.
type FaultSet struct {
	LostClose         bool // packet lost, write succeeds, peer closes            (request lost)
	WriteErr          bool // packet lost, write returns an error, link dead
	AckLost           bool // packet processed, all responses dropped, peer closes (acknowledgement lost)
	Silent            bool // packet processed, responses dropped, link stays up
	SilentDrop        bool // packet not processed, nothing said, link stays up
	ConnRefuse        bool // CONNECT only: CONNACK with return code 3
	NoConnAck         bool // CONNECT only: no CONNACK, link stays up
	DialErr           bool // dial fails
	DupAck            bool // packet processed, every response is sent twice
	GoSilent          bool // from this packet on the broker never answers on this connection again (link stays up)
	LateAck           bool // packet processed, every response arrives 6 s later (a very slow broker; the link stays up)
	ForgetSession     bool // CONNECT only: the broker has lost the session (restart) and says so in CONNACK; otherwise served normally
	WriteErrTransient bool // packet lost, write returns an error (e.g. a write deadline), link stays up
	Stall             bool // from this packet on the peer stops reading: this and every later Write blocks until the client closes the transport (link stays up, nothing is answered)
	// StallTypes restricts Stall to these packet types (nil = every packet but CONNECT).
	StallTypes map[byte]bool
	// OnlyTypes restricts faults to these packet types (nil = every client->broker packet).
	OnlyTypes map[byte]bool
}

// String lists the enabled fault kinds.
func (f FaultSet) String() string {
	var on []string
	add := func(b bool, n string) {
		if b {
			on = append(on, n)
		}
	}
	add(f.LostClose, "request-lost+close")
	add(f.WriteErr, "write-error")
	add(f.AckLost, "ack-lost+close")
	add(f.Silent, "processed-silently")
	add(f.SilentDrop, "dropped-silently")
	add(f.ConnRefuse, "connack-refused")
	add(f.NoConnAck, "no-connack")
	add(f.DialErr, "dial-error")
	add(f.DupAck, "responses-duplicated")
	add(f.GoSilent, "silent-from-here")
	add(f.WriteErrTransient, "write-error-link-stays-up")
	add(f.Stall, "peer-stops-reading")
	add(f.ForgetSession, "session-forgotten")
	add(f.LateAck, "responses-6s-late")
	s := "{" + strings.Join(on, ", ")
	if f.OnlyTypes != nil {
		var ts []string
		for t := byte(1); t < 15; t++ {
			if f.OnlyTypes[t] {
				ts = append(ts, TypeName(t))
			}
		}
		s += "; only at " + strings.Join(ts, "/")
	}
	if f.Stall && f.StallTypes != nil {
		var ts []string
		for t := byte(1); t < 15; t++ {
			if f.StallTypes[t] {
				ts = append(ts, TypeName(t))
			}
		}
		s += "; stops reading only at " + strings.Join(ts, "/")
	}
	return s + "}"
}

const (
	fDeliver = iota
	fLostClose
	fWriteErr
	fAckLost
	fSilent
	fSilentDrop
	fConnRefuse
	fNoConnAck
	fGoSilent
	fDupAck
	fWriteErrTransient
	fStall
	fForgetSession
	fLateAck
)

var faultNames = [...]string{"deliver", "lost+close", "write-error", "ack-lost+close", "processed-silent", "dropped-silent", "connect-refused", "no-connack", "silent-from-here", "responses-duplicated", "write-error-link-stays-up", "peer-stops-reading", "session-forgotten", "responses-6s-late"}

// ErrWriteTimeout is the transient write failure (the link stays usable).
var ErrWriteTimeout = fmt.Errorf("env: write deadline exceeded (transient)")

// Delivery is one onward delivery of an application message by the broker.
type Delivery struct {
	Tag   string // payload
	Topic string
	QoS   byte
	ID    uint16
	Conn  int
	T     int64
}

// Broker is a model of one MQTT 3.1.1 server serving one client identifier.
type Broker struct {
	Net          *Net
	Faults       FaultSet
	KeepSession  bool  // false: the server forgets the session between connections
	MethodB      bool  // QoS 2 receiver method B (deliver on PUBLISH) instead of A (deliver on PUBREL)
	PingDelay    int64 // PINGRESP is sent this many virtual ns after PINGREQ (0: at once)
	GrantMax     *byte // SUBACK grants min(requested, *GrantMax); 0x80 = every subscription is refused (the table still records what was requested)
	RepeatPubRec bool  // on every reconnect with a kept session the broker repeats, right behind CONNACK, PUBREC for each QoS 2 PUBLISH it has received and not yet seen released (unsolicited from the client's point of view)
	DialDelay    int64 // a failing dial takes this long (virtual ns) before it reports the failure

	// session
	hasSession bool
	Subs       map[string]byte
	q2ids      map[uint16]bool    // method B: identifiers received and not yet released
	q2store    map[uint16]*Packet // method A: messages stored until PUBREL

	Deliveries []Delivery
	ConnCount  int
	// Takeover makes an accepted CONNECT close the connections still open from earlier dials (same client identifier).
	Takeover bool
	// AfterConnAck, if set, is called right after an accepting CONNACK was queued (to push messages).
	AfterConnAck func(b *Broker, c *Conn)
	// per connection
	st map[int]*bconn
	// Acks the client sent for broker->client messages
	ClientAcks []WireEvent
	// FaultLog lists the faults injected
	FaultLog  []string
	nextOutID uint16
}

type bconn struct {
	acc         []byte
	connected   bool
	npkts       int
	silent      bool
	silentSince int64
}

// SilentSince returns the virtual time at which connection id went silent (-1: it did not).
func (b *Broker) SilentSince(id int) int64 {
	if s := b.st[id]; s != nil && s.silent {
		return s.silentSince
	}
	return -1
}

// NewBroker creates a broker on net n.
func NewBroker(n *Net) *Broker {
	return &Broker{Net: n, Subs: map[string]byte{}, q2ids: map[uint16]bool{}, q2store: map[uint16]*Packet{}, st: map[int]*bconn{}, KeepSession: true}
}

// PacketsOn returns the number of client packets processed on connection id.
func (b *Broker) PacketsOn(id int) int {
	if s := b.st[id]; s != nil {
		return s.npkts
	}
	return 0
}

func (b *Broker) wipe() {
	b.Subs = map[string]byte{}
	b.q2ids = map[uint16]bool{}
	b.q2store = map[uint16]*Packet{}
	b.hasSession = false
}

// SubsString renders the subscription table deterministically.
func (b *Broker) SubsString() string {
	var ks []string
	for k := range b.Subs {
		ks = append(ks, k)
	}
	sort.Strings(ks)
	s := ""
	for _, k := range ks {
		s += fmt.Sprintf("%s:q%d ", k, b.Subs[k])
	}
	return s
}

// Dial opens a new connection served by this broker.  With Faults.DialErr a dial failure is a fault choice.
func (b *Broker) Dial() (*Conn, error) {
	vrt.Yield("dial")
	vrt.Event(unsafe.Pointer(b), 0xD0)
	if b.Faults.DialErr {
		if vrt.Choose(vrt.KFault, 2, "dial") == 1 {
			b.FaultLog = append(b.FaultLog, "dial error")
			if b.DialDelay > 0 {
				vrt.Sleep(b.DialDelay) // a connect timeout rather than an immediate refusal
			}
			b.Net.log(WireEvent{Conn: -1, Dir: '!', Note: "dial fails"})
			return nil, fmt.Errorf("env: dial refused")
		}
	}
	c := b.Net.NewConn(b)
	b.st[c.ID] = &bconn{}
	b.ConnCount++
	return c, nil
}

func (b *Broker) faultsFor(p *Packet) []int {
	f := b.Faults
	if f.OnlyTypes != nil && !f.OnlyTypes[p.Type] {
		return []int{fDeliver}
	}
	alts := []int{fDeliver}
	if f.LostClose {
		alts = append(alts, fLostClose)
	}
	if f.WriteErr {
		alts = append(alts, fWriteErr)
	}
	if f.AckLost {
		alts = append(alts, fAckLost)
	}
	// "answer withheld" only makes sense for packets that are answered (a QoS 0 PUBLISH is not)
	answered := !(p.Type == PUBLISH && p.QoS == 0)
	if f.Silent && answered {
		alts = append(alts, fSilent)
	}
	if f.SilentDrop && answered {
		alts = append(alts, fSilentDrop)
	}
	if f.GoSilent {
		alts = append(alts, fGoSilent)
	}
	if f.DupAck && p.Type != CONNECT {
		alts = append(alts, fDupAck)
	}
	if f.LateAck && p.Type != CONNECT {
		alts = append(alts, fLateAck)
	}
	if f.WriteErrTransient && p.Type != CONNECT {
		alts = append(alts, fWriteErrTransient)
	}
	if f.Stall && p.Type != CONNECT && (f.StallTypes == nil || f.StallTypes[p.Type]) {
		alts = append(alts, fStall)
	}
	if p.Type == CONNECT {
		if f.ConnRefuse {
			alts = append(alts, fConnRefuse)
		}
		if f.NoConnAck {
			alts = append(alts, fNoConnAck)
		}
		if f.ForgetSession {
			alts = append(alts, fForgetSession)
		}
	}
	return alts
}

// OnData implements Peer.
func (b *Broker) OnData(c *Conn, data []byte) error {
	vrt.Event(unsafe.Pointer(b), vrt.HashBytes(data)^uint64(c.ID))
	s := b.st[c.ID]
	s.acc = append(s.acc, data...)
	for {
		p, n, err := Decode(s.acc)
		if err == ErrIncomplete {
			return nil
		}
		raw := append([]byte(nil), s.acc[:maxInt(n, 0)]...)
		if err != nil {
			b.Net.log(WireEvent{Conn: c.ID, Dir: '>', Pkt: p, Raw: append([]byte(nil), s.acc...), Note: "MALFORMED: " + err.Error()})
			c.PeerClose("protocol violation by client")
			s.acc = nil
			return nil
		}
		s.acc = s.acc[n:]
		if s.silent {
			b.Net.log(WireEvent{Conn: c.ID, Dir: '>', Pkt: p, Raw: raw, Note: "ignored (broker silent)"})
			continue
		}
		alts := b.faultsFor(p)
		k := fDeliver
		if len(alts) > 1 {
			k = alts[vrt.Choose(vrt.KFault, len(alts), "pkt "+TypeName(p.Type))]
		}
		if k != fDeliver {
			b.FaultLog = append(b.FaultLog, fmt.Sprintf("c%d %s: %s", c.ID, p.String(), faultNames[k]))
		}
		switch k {
		case fLostClose:
			b.Net.log(WireEvent{Conn: c.ID, Dir: '>', Pkt: p, Raw: raw, Note: "LOST, peer closes"})
			c.PeerClose("fault: request lost")
			s.acc = nil
			return nil
		case fWriteErr:
			b.Net.log(WireEvent{Conn: c.ID, Dir: '>', Pkt: p, Raw: raw, Note: "LOST, write error"})
			c.Break("fault: write error")
			s.acc = nil
			return b.Net.LinkDownErr()
		case fWriteErrTransient:
			b.Net.log(WireEvent{Conn: c.ID, Dir: '>', Pkt: p, Raw: raw, Note: "LOST, write error (link stays up)"})
			s.acc = nil
			return ErrWriteTimeout
		case fStall:
			// the peer stops reading: the packet just handed over still went into the send buffer
			// (the write returns), but is never processed; every later Write blocks
			s.silent = true
			s.silentSince = vrt.Now()
			c.Stalled = true
			b.Net.log(WireEvent{Conn: c.ID, Dir: '>', Pkt: p, Raw: raw, Note: "ignored (peer stops reading from here; later writes block)"})
			continue
		case fGoSilent:
			s.silent = true
			s.silentSince = vrt.Now()
			b.Net.log(WireEvent{Conn: c.ID, Dir: '>', Pkt: p, Raw: raw, Note: "ignored (broker goes silent from here)"})
			continue
		case fSilentDrop:
			b.Net.log(WireEvent{Conn: c.ID, Dir: '>', Pkt: p, Raw: raw, Note: "DROPPED silently"})
			continue
		case fNoConnAck:
			b.Net.log(WireEvent{Conn: c.ID, Dir: '>', Pkt: p, Raw: raw, Note: "no CONNACK will be sent"})
			continue
		case fConnRefuse:
			b.Net.log(WireEvent{Conn: c.ID, Dir: '>', Pkt: p, Raw: raw, Note: "refused"})
			c.Send(EncConnAck(false, 3), "refused")
			c.PeerClose("connection refused")
			continue
		}
		note := ""
		if k == fForgetSession {
			b.wipe()
			note = "session forgotten (broker restarted)"
		}
		if k == fAckLost {
			note = "processed, RESPONSES LOST, peer closes"
		} else if k == fSilent {
			note = "processed, responses dropped silently"
		}
		b.Net.log(WireEvent{Conn: c.ID, Dir: '>', Pkt: p, Raw: raw, Note: note})
		mark := len(c.in)
		nlog := len(b.Net.Trace)
		b.process(c, s, p)
		if k == fDupAck {
			dup := append([]byte(nil), c.in[mark:]...)
			// two more copies of the answer arrive one and two (virtual) seconds later
			for _, d := range []int64{1e9, 2e9} {
				vrt.NewTimer(d, 0, func(t *vrt.Timer) {
					if !c.eof && !c.closed {
						c.InjectFromTimer(t, dup)
					}
				})
			}
		}
		if k == fLateAck {
			late := append([]byte(nil), c.in[mark:]...)
			c.in = c.in[:mark]
			for i := nlog; i < len(b.Net.Trace); i++ {
				if b.Net.Trace[i].Dir == '<' {
					b.Net.Trace[i].Dir = '!'
					b.Net.Trace[i].Note = "response held back for 6 s: " + b.Net.Trace[i].Pkt.String()
				}
			}
			vrt.NewTimer(int64(6e9), 0, func(t *vrt.Timer) {
				if !c.eof && !c.closed {
					c.InjectFromTimer(t, late)
				}
			})
		}
		if k == fAckLost || k == fSilent {
			// drop whatever was queued as response to this packet
			c.in = c.in[:mark]
			for i := nlog; i < len(b.Net.Trace); i++ {
				if b.Net.Trace[i].Dir == '<' {
					b.Net.Trace[i].Dir = '!'
					b.Net.Trace[i].Note = "response dropped: " + b.Net.Trace[i].Pkt.String()
				}
			}
			if k == fAckLost {
				c.PeerClose("fault: acknowledgement lost")
				s.acc = nil
				return nil
			}
		}
		if c.eof {
			return nil
		}
	}
}

func maxInt(a, b int) int {
	if a > b {
		return a
	}
	return b
}

func (b *Broker) process(c *Conn, s *bconn, p *Packet) {
	s.npkts++
	if !s.connected {
		if p.Type != CONNECT {
			c.PeerClose("first packet is not CONNECT")
			return
		}
		s.connected = true
		if b.Takeover {
			// [MQTT-3.1.4-2]: a CONNECT with the client identifier of a connected client ends the existing connection
			for _, o := range b.Net.Conns {
				if o != c && o.Peer == Peer(b) && !o.Down() {
					o.PeerClose("session taken over by a newer connection")
				}
			}
		}
		if !b.KeepSession || p.Clean {
			b.wipe()
		}
		sp := b.hasSession
		if !p.Clean {
			b.hasSession = true
		}
		c.Send(EncConnAck(sp, 0), "")
		if b.RepeatPubRec && sp {
			var ids []int
			for id := range b.q2ids {
				ids = append(ids, int(id))
			}
			for id := range b.q2store {
				ids = append(ids, int(id))
			}
			sort.Ints(ids)
			for _, id := range ids {
				c.Send(EncAck(PUBREC, uint16(id)), "repeated PUBREC (unsolicited)")
			}
		}
		if b.AfterConnAck != nil {
			b.AfterConnAck(b, c)
		}
		return
	}
	switch p.Type {
	case CONNECT:
		c.PeerClose("second CONNECT")
	case PUBLISH:
		switch p.QoS {
		case 0:
			b.deliver(c, p)
		case 1:
			b.deliver(c, p)
			c.Send(EncAck(PUBACK, p.ID), "")
		case 2:
			if b.MethodB {
				if !b.q2ids[p.ID] {
					b.q2ids[p.ID] = true
					b.deliver(c, p)
				}
			} else {
				if _, ok := b.q2store[p.ID]; !ok {
					b.q2store[p.ID] = p
				}
			}
			c.Send(EncAck(PUBREC, p.ID), "")
		}
	case PUBREL:
		if b.MethodB {
			delete(b.q2ids, p.ID)
		} else if m, ok := b.q2store[p.ID]; ok {
			b.deliver(c, m)
			delete(b.q2store, p.ID)
		}
		c.Send(EncAck(PUBCOMP, p.ID), "")
	case SUBSCRIBE:
		codes := make([]byte, len(p.Filters))
		for i, f := range p.Filters {
			codes[i] = p.QoSs[i]
			if b.GrantMax != nil && *b.GrantMax == 0x80 {
				codes[i] = 0x80 // refused: nothing is subscribed
				continue
			}
			b.Subs[f] = p.QoSs[i]
			if b.GrantMax != nil && codes[i] > *b.GrantMax {
				codes[i] = *b.GrantMax
			}
		}
		c.Send(EncSubAck(p.ID, codes), "")
	case UNSUBSCRIBE:
		for _, f := range p.Filters {
			delete(b.Subs, f)
		}
		c.Send(EncAck(UNSUBACK, p.ID), "")
	case PINGREQ:
		if b.PingDelay > 0 {
			// a slow but healthy peer
			vrt.NewTimer(b.PingDelay, 0, func(t *vrt.Timer) {
				if !c.eof && !c.closed {
					c.InjectFromTimer(t, EncPingResp())
				}
			})
		} else {
			c.Send(EncPingResp(), "")
		}
	case DISCONNECT:
		c.PeerClose("DISCONNECT received")
	case PUBACK, PUBCOMP:
		b.ClientAcks = append(b.ClientAcks, WireEvent{Conn: c.ID, Pkt: p})
	case PUBREC:
		b.ClientAcks = append(b.ClientAcks, WireEvent{Conn: c.ID, Pkt: p})
		c.Send(EncAck(PUBREL, p.ID), "")
	default:
		c.PeerClose("unexpected packet from client: " + TypeName(p.Type))
	}
}

func (b *Broker) deliver(c *Conn, p *Packet) {
	b.Deliveries = append(b.Deliveries, Delivery{Tag: string(p.Payload), Topic: p.Topic, QoS: p.QoS, ID: p.ID, Conn: c.ID, T: vrt.Now()})
	if vrt.Tracing() {
		vrt.Tracef("   broker: onward delivery of %q (q%d)", string(p.Payload), p.QoS)
	}
}

// Push sends an application message from the broker to the client on connection c.
func (b *Broker) Push(c *Conn, topic, payload string, qos byte) uint16 {
	id := uint16(0)
	if qos > 0 {
		b.nextOutID++
		id = 100 + b.nextOutID
	}
	c.Send(EncPublish(topic, []byte(payload), qos, id, false, false), "push")
	return id
}
