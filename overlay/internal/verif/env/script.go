//go:build verif

package env

import (
	"unsafe"

	"github.com/at-wat/mqtt-go/internal/verif/vrt"
)

// Script is a scripted peer: it records every packet the client writes and lets the
// harness decide what (and when) to answer.
type Script struct {
	Net  *Net
	Conn *Conn
	Got  []*Packet // well-formed packets written by the client, in order
	Bad  []string  // decoding errors of what the client wrote
	acc  []byte
	// AutoConnAck answers CONNECT with an accepting CONNACK (session present = false).
	AutoConnAck bool
	// OnPacket, if set, runs inside the client's Write for every well-formed packet (after recording).
	OnPacket func(s *Script, p *Packet)
	// FailWrites makes every Write return an error (link dead) starting with the n-th packet (0 = never, 1-based).
	FailFrom int
	// TransientFail, if it returns true for a packet, makes that Write fail (nothing is delivered)
	// while the link stays usable, e.g. an expired write deadline.
	TransientFail func(p *Packet) bool
}

// NewScript opens a connection whose peer is a fresh Script.
func NewScript(n *Net) *Script {
	s := &Script{Net: n}
	s.Conn = n.NewConn(s)
	return s
}

// OnData implements Peer.
func (s *Script) OnData(c *Conn, data []byte) error {
	vrt.Event(unsafe.Pointer(s), vrt.HashBytes(data))
	s.acc = append(s.acc, data...)
	for {
		p, n, err := Decode(s.acc)
		if err == ErrIncomplete {
			return nil
		}
		if err != nil {
			s.Bad = append(s.Bad, err.Error())
			s.Net.log(WireEvent{Conn: c.ID, Dir: '>', Pkt: p, Raw: append([]byte(nil), s.acc...), Note: "MALFORMED: " + err.Error()})
			s.acc = nil
			return nil
		}
		raw := append([]byte(nil), s.acc[:n]...)
		s.acc = s.acc[n:]
		if s.FailFrom > 0 && len(s.Got)+1 >= s.FailFrom {
			s.Net.log(WireEvent{Conn: c.ID, Dir: '>', Pkt: p, Raw: raw, Note: "LOST, write error"})
			c.Break("scripted write error")
			s.acc = nil
			return s.Net.LinkDownErr()
		}
		if s.TransientFail != nil && s.TransientFail(p) {
			s.Net.log(WireEvent{Conn: c.ID, Dir: '>', Pkt: p, Raw: raw, Note: "LOST, write error (link stays up)"})
			s.acc = nil
			return ErrWriteTimeout
		}
		s.Got = append(s.Got, p)
		s.Net.log(WireEvent{Conn: c.ID, Dir: '>', Pkt: p, Raw: raw})
		if p.Type == CONNECT && s.AutoConnAck {
			c.Send(EncConnAck(false, 0), "")
		}
		if s.OnPacket != nil {
			s.OnPacket(s, p)
		}
	}
}

// Send delivers a packet to the client as a visible step of the calling task.
func (s *Script) Send(data []byte) {
	vrt.Yield("peer sends")
	s.Conn.Send(data, "")
}

// SendRaw delivers raw (possibly malformed) bytes to the client as a visible step.
func (s *Script) SendRaw(data []byte, note string) {
	vrt.Yield("peer sends raw")
	s.Net.log(WireEvent{Conn: s.Conn.ID, Dir: '<', Raw: data, Note: note})
	s.Conn.Inject(data)
}

// Close closes the link from the peer side as a visible step.
func (s *Script) Close() {
	vrt.Yield("peer closes")
	s.Conn.PeerClose("scripted")
}

// Last returns the most recent packet of the given type written by the client (nil if none).
func (s *Script) Last(typ byte) *Packet {
	for i := len(s.Got) - 1; i >= 0; i-- {
		if s.Got[i].Type == typ {
			return s.Got[i]
		}
	}
	return nil
}
