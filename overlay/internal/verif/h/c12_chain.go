//go:build verif

package main

import (
	"fmt"
	"strings"
	"time"

	mqtt "github.com/at-wat/mqtt-go"
	"github.com/at-wat/mqtt-go/internal/verif/env"
	vctx "github.com/at-wat/mqtt-go/internal/verif/shim/context"
	"github.com/at-wat/mqtt-go/internal/verif/vrt"
)

// c12RetryChains: base-client level.  Publish -> err.(ErrorWithRetry).Retry(newClient) -> ... up to
// depth 4, the exchange being interrupted at every step (request lost, acknowledgement lost, write
// error, silence until the caller's context expires); every transmission attempt is judged.
func c12RetryChains(c *Ctx) {
	f := 3
	if c.Thorough() {
		f = 4
	}
	faults := env.FaultSet{LostClose: true, WriteErr: true, AckLost: true, Silent: true, LateAck: true, OnlyTypes: map[byte]bool{env.PUBLISH: true, env.PUBREL: true}}
	c.Bound("retry-chain", fmt.Sprintf("BaseClient.Publish(QoS 1|2) then ErrorWithRetry.Retry on a fresh connected client, chain depth <= %d; faults %+v on every PUBLISH/PUBREL; caller context with a 5 s (virtual) deadline, for the first call alternatively one that is already cancelled", f+1, faults))
	for _, qd := range []int{1, 2, 5, 6} {
		qos := mqtt.QoS(qd & 3)
		preDup := qd&4 != 0 // the caller's Message already has Dup=true
		var net *env.Net
		var flog []string
		sc := &vrt.Scenario{
			Name:  fmt.Sprintf("C12/chain/q%d/dupset=%v/F%d", qos, preDup, f),
			Bound: vrt.Budget{F: f},
			Cfg:   vrt.Config{Horizon: int64(600 * time.Second)},
			Body: func() {
				net = env.NewNet()
				b := env.NewBroker(net)
				b.Faults = faults
				dials := 0
				vrt.W.RandInt31n = func(n int32) int32 { return int32(1000*dials - 1) }
				newCli := func() *mqtt.BaseClient {
					conn, _ := b.Dial()
					dials++
					cli := &mqtt.BaseClient{Transport: conn}
					if _, err := cli.Connect(vctx.Background(), "cid"); err != nil {
						vrt.Failf("harness", "connect: %v", err)
					}
					return cli
				}
				summary := func() string {
					return fmt.Sprintf("faults %v\n wire:\n  %s", b.FaultLog, strings.Join(net.TraceStrings(), "\n  "))
				}
				msg := &mqtt.Message{Topic: "t/m1", QoS: qos, Payload: []byte("m1"), Retain: true, Dup: preDup}
				cli := newCli()
				ctx, cancel := vctx.WithTimeout(vctx.Background(), 5*time.Second)
				if vrt.Choose(vrt.KFree, 2, "first call with a live / an already cancelled context") == 1 {
					cancel()
				}
				err := cli.Publish(ctx, msg)
				cancel()
				for d := 0; err != nil && d < f+1; d++ {
					re, ok := err.(mqtt.ErrorWithRetry)
					if !ok {
						vrt.Failf("c12/no-retry-handle", "interrupted QoS %d publish returned an error without retry handle: %v\n%s", qos, err, summary())
						break
					}
					cli.Close()
					cli = newCli()
					ctx, cancel := vctx.WithTimeout(vctx.Background(), 5*time.Second)
					err = re.Retry(ctx, cli)
					cancel()
				}
				flog = b.FaultLog
				c12Oracle(net, func(k string) string { return k + ":chain" }, summary)
				if err == nil {
					n := 0
					for _, dl := range b.Deliveries {
						if dl.Tag == "m1" {
							n++
						}
					}
					if n == 0 {
						vrt.Failf("c12/chain-completed-undelivered", "chain completed without error but the broker never got the message\n%s", summary())
					}
				}
				vrt.Quiesce()
			},
			Observe: func() uint64 { return net.TraceHash() },
		}
		c.Explore(sc)
		if net != nil && len(flog) > 1 {
			c.Sample(map[string]any{"chain": sc.Name, "faults": flog, "wire": net.TraceStrings()})
		}
	}
}
