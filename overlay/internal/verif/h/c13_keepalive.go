//go:build verif

package main

import (
	"errors"
	"fmt"
	"strings"
	"time"

	mqtt "github.com/at-wat/mqtt-go"
	"github.com/at-wat/mqtt-go/internal/verif/env"
	vctx "github.com/at-wat/mqtt-go/internal/verif/shim/context"
	"github.com/at-wat/mqtt-go/internal/verif/vrt"
)

// C13 — keep-alive detects a silent peer and only a silent peer.

func init() { register("C13", runC13) }

var errC13PingFailed = errors.New("c13: ping failed immediately")

// c13Client is a scripted mqtt.Client: the k-th Ping behaves as outcomes[k] (then "ok").
type c13Client struct {
	outcomes []string
	late     time.Duration
	starts   []int64
	ends     []int64
}

func (c *c13Client) Ping(ctx vctx.Context) error {
	k := len(c.starts)
	c.starts = append(c.starts, vrt.Now())
	defer func() { c.ends = append(c.ends, vrt.Now()) }()
	o := "ok"
	if k < len(c.outcomes) {
		o = c.outcomes[k]
	}
	if vrt.Tracing() {
		vrt.Tracef("   ping #%d (%s)", k, o)
	}
	switch o {
	case "fail":
		return errC13PingFailed
	case "never":
		vrt.Recv(ctx.Done())
		return mqtt.VerifWrapError(ctx.Err(), "waiting PINGRESP")
	case "late":
		// the answer arrives after c.late unless the context ends first
		tm := vrt.NewSleepChan(int64(c.late))
		i, _ := vrt.Select(false, vrt.CaseRecv(ctx.Done()), vrt.CaseRecv(tm))
		if i == 0 {
			return mqtt.VerifWrapError(ctx.Err(), "waiting PINGRESP")
		}
		return nil
	}
	// answered promptly; a real client notices a context that is already done
	if i, _ := vrt.Select(true, vrt.CaseRecv(ctx.Done())); i == 0 {
		return mqtt.VerifWrapError(ctx.Err(), "waiting PINGRESP")
	}
	return nil
}

func (c *c13Client) Connect(vctx.Context, string, ...mqtt.ConnectOption) (bool, error) {
	panic("unused")
}
func (c *c13Client) Disconnect(vctx.Context) error             { panic("unused") }
func (c *c13Client) Publish(vctx.Context, *mqtt.Message) error { panic("unused") }
func (c *c13Client) Unsubscribe(vctx.Context, ...string) error { panic("unused") }
func (c *c13Client) Handle(mqtt.Handler)                       { panic("unused") }
func (c *c13Client) Subscribe(vctx.Context, ...mqtt.Subscription) ([]mqtt.Subscription, error) {
	panic("unused")
}

// c13Expected simulates Go's ticker (capacity-1 channel, ticks dropped when full) and the loop
// "wait for a tick, ping, repeat" to predict when each ping starts, ignoring cancellation.
func c13Expected(outcomes []string, interval, timeout, late time.Duration, horizon time.Duration) (starts []int64, endErr string, endAt int64) {
	t := int64(0)
	buffered := false
	nextTick := int64(interval)
	for k := 0; ; k++ {
		// wait for a tick
		if buffered {
			buffered = false
		} else {
			t = nextTick
			nextTick += int64(interval)
		}
		if t > int64(horizon) {
			return starts, "", 0
		}
		starts = append(starts, t)
		o := "ok"
		if k < len(outcomes) {
			o = outcomes[k]
		}
		var dur int64
		switch o {
		case "fail":
			return starts, "fail", t
		case "never":
			return starts, "timeout", t + int64(timeout)
		case "late":
			if late >= timeout {
				return starts, "timeout", t + int64(timeout)
			}
			dur = int64(late)
		}
		end := t + dur
		// ticks that occur during the ping: the first is buffered, further ones are dropped
		for nextTick <= end {
			buffered = true
			nextTick += int64(interval)
		}
		t = end
	}
}

func runC13(c *Ctx) {
	c13Loop(c)
	c13Reconnecting(c)
	c13SlowPeerAndStaleAnswers(c)
}

// c13SilenceBound: how long after the broker went silent the client may take to give the connection
// up: the ping timeout when the ignored packet was itself a PINGREQ, otherwise up to one interval more.
func c13SilenceBound(r *rcRun, conn int, interval, timeout time.Duration) time.Duration {
	for _, e := range r.net.Trace {
		if e.Conn == conn && e.Pkt != nil && strings.Contains(e.Note, "goes silent from here") {
			if e.Pkt.Type == env.PINGREQ {
				return timeout
			}
			break
		}
	}
	return interval + timeout
}

// c13SlowPeerAndStaleAnswers: (a) a peer that answers every ping late but within the configured
// timeout (Timeout 10 s > PingInterval 3 s, answer after 5 s) is healthy and must be kept; (b) a
// duplicated PINGRESP must not be taken for the answer to a later ping: when the peer then goes
// silent, the silence must still be detected within interval+timeout.
func c13SlowPeerAndStaleAnswers(c *Ctx) {
	c.Bound("slow-peer", "ReconnectClient with PingInterval 3 s, Timeout 10 s against a broker answering PINGREQ after 5 s: no connection may be given up in 75 s")
	{
		var r *rcRun
		sc := &vrt.Scenario{
			Name: "C13/slow-peer/interval3s.timeout10s.answer5s",
			Cfg:  vrt.Config{Horizon: int64(75 * time.Second)},
			Body: func() {
				rcExecuteInto(&rcCfg{KeepSession: true, PingInterval: 3 * time.Second, ConnTimeout: 10 * time.Second, PingDelay: 5 * time.Second}, &r)
				if !r.connectOK {
					vrt.Failf("harness", "connect failed: %v", r.connErr)
					return
				}
				if len(r.net.Conns) != 1 || r.net.Conns[0].ClosedAt >= 0 {
					vrt.Failf("c13/healthy-connection-closed", "a peer that answers every ping after 5 s (timeout 10 s) was given up\n%s", r.summary())
				}
				n := 0
				for _, e := range r.net.Trace {
					if e.Sent() && e.Pkt != nil && e.Pkt.Type == env.PINGREQ {
						n++
					}
				}
				if n < 8 {
					vrt.Failf("c13/keepalive-stopped", "only %d PINGREQ in 75 s against a slow but healthy peer\n%s", n, r.summary())
				}
			},
			Observe: func() uint64 { return r.net.TraceHash() },
		}
		c.Explore(sc)
	}
	c.Bound("stale-answers", "ReconnectClient (PingInterval 10 s, Timeout 3 s): the broker duplicates the PINGRESP of one ping and goes silent at a later packet (F<=2); the silent connection must be closed within interval+timeout")
	{
		interval, timeout := 10*time.Second, 3*time.Second
		var r *rcRun
		sc := &vrt.Scenario{
			Name:  "C13/stale-answers/F2",
			Bound: vrt.Budget{F: 2},
			Cfg:   vrt.Config{Horizon: int64(75 * time.Second)},
			Body: func() {
				rcExecuteInto(&rcCfg{KeepSession: true, PingInterval: interval, ConnTimeout: timeout, Faults: env.FaultSet{GoSilent: true, DupAck: true, OnlyTypes: map[byte]bool{env.PINGREQ: true}}}, &r)
				if !r.connectOK {
					return
				}
				for _, cn := range r.net.Conns {
					sAt := r.broker.SilentSince(cn.ID)
					if sAt < 0 {
						if cn.ClosedAt >= 0 {
							vrt.Failf("c13/healthy-connection-closed", "connection %d was closed although the broker answered everything\n%s", cn.ID, r.summary())
						}
						continue
					}
					if cn.ClosedAt < 0 {
						if sAt+int64(interval+timeout) < int64(70*time.Second) {
							vrt.Failf("c13/silent-peer-not-detected", "connection %d went silent at %v and is still open at the horizon\n%s", cn.ID, time.Duration(sAt), r.summary())
						}
					} else if bound := c13SilenceBound(r, cn.ID, interval, timeout); cn.ClosedAt-sAt > int64(bound) {
						vrt.Failf("c13/silent-peer-detected-late", "connection %d went silent at %v and was closed only at %v (allowed %v)\n%s", cn.ID, time.Duration(sAt), time.Duration(cn.ClosedAt), bound, r.summary())
					}
				}
			},
			Observe: func() uint64 { return r.net.TraceHash() },
		}
		c.Explore(sc)
	}
}

func c13Loop(c *Ctx) {
	type it struct{ interval, timeout time.Duration }
	its := []it{{10 * time.Second, 3 * time.Second}, {10 * time.Second, 10 * time.Second}, {3 * time.Second, 10 * time.Second}}
	maxLen := 3
	if c.Thorough() {
		maxLen = 5
		its = append(its, it{10 * time.Second, 13 * time.Second}, it{5 * time.Second, 5*time.Second + 1})
	}
	kinds := []string{"ok", "late", "never", "fail"}
	var seqs [][]string
	var rec func(cur []string)
	rec = func(cur []string) {
		seqs = append(seqs, append([]string(nil), cur...))
		if len(cur) == maxLen {
			return
		}
		// a sequence ends at the first outcome that makes KeepAlive return
		if n := len(cur); n > 0 && (cur[n-1] == "never" || cur[n-1] == "fail") {
			return
		}
		for _, k := range kinds {
			rec(append(cur, k))
		}
	}
	rec(nil)
	lates := []time.Duration{2 * time.Second, 4 * time.Second, 12 * time.Second}
	c.Bound("loop", fmt.Sprintf("KeepAlive with a scripted Client: all ping-outcome sequences of length<=%d over %v (then answered promptly), (interval,timeout) in %v, late answers after %v; parent context never cancelled or cancelled at one of the instants {0, tick-1ns, tick, tick+1ns, mid-ping, ping deadline-1ns, deadline, deadline+1ns, ...} (free choice: this is how the timeout-versus-answer and timeout-versus-cancel races are enumerated; virtual time is exact, no early timer firing); S<=1 P<=2", maxLen, kinds, its, lates))
	idx := 0
	for _, x := range its {
		for _, seq := range seqs {
			for _, late := range lates {
				hasLate := false
				for _, o := range seq {
					if o == "late" {
						hasLate = true
					}
				}
				if !hasLate && late != lates[0] {
					continue
				}
				idx++
				x, seq, late := x, seq, late
				horizon := time.Duration(len(seq)+3) * (x.interval + x.timeout + late)
				var obs string
				sc := &vrt.Scenario{
					Name:  fmt.Sprintf("C13/loop/i%v.t%v/late%v/%s", x.interval, x.timeout, late, strings.Join(seq, ",")),
					Bound: vrt.Budget{S: 1, P: 2, Total: 2},
					Cfg:   vrt.Config{Horizon: int64(horizon)},
					Body: func() {
						cli := &c13Client{outcomes: seq, late: late}
						parent, cancel := vctx.WithCancel(vctx.Background())
						expStarts, expEnd, expEndAt := c13Expected(seq, x.interval, x.timeout, late, horizon)
						// instants at which the parent context may be cancelled
						instants := []int64{-1, 0}
						for _, s := range expStarts {
							for _, d := range []int64{-1, 0, 1, int64(time.Second), int64(x.timeout) - 1, int64(x.timeout), int64(x.timeout) + 1} {
								if s+d > 0 && s+d < int64(horizon) {
									instants = append(instants, s+d)
								}
							}
						}
						ci := vrt.Choose(vrt.KFree, len(instants), "cancel instant")
						cancelAt := instants[ci]
						// the parent context ends either by an explicit cancel or by its own deadline
						byDeadline := cancelAt > 0 && vrt.Choose(vrt.KFree, 2, "parent ends by deadline") == 1
						if byDeadline {
							cancel()
							parent, cancel = vctx.WithTimeout(vctx.Background(), time.Duration(cancelAt))
						}
						cancelledAt := int64(-1) // cancellation completed
						cancelStart := int64(-1)
						if byDeadline {
							cancelStart, cancelledAt = cancelAt, cancelAt
						} else if cancelAt >= 0 {
							vrt.GoDaemon("canceller", func() {
								vrt.Sleep(cancelAt)
								cancelStart = vrt.Now()
								cancel()
								cancelledAt = vrt.Now()
							})
						}
						var err error
						returned := false
						retAt := int64(-1)
						vrt.Go("keepalive", func() {
							err = mqtt.KeepAlive(parent, cli, x.interval, x.timeout)
							returned = true
							retAt = vrt.Now()
						})
						vrt.Quiesce()
						obs = fmt.Sprint(cli.starts, returned, err, retAt)
						desc := fmt.Sprintf("interval %v timeout %v outcomes %v late %v; cancel at %v (happened at %v); pings started at %v; returned=%v at %v with %v; expected without cancellation: pings %v end %q at %v",
							x.interval, x.timeout, seq, late, time.Duration(cancelAt), time.Duration(cancelledAt), cli.starts, returned, time.Duration(retAt), err, expStarts, expEnd, time.Duration(expEndAt))
						// 1. ping times (only the part before the cancellation is predictable)
						for k, s := range cli.starts {
							if cancelStart >= 0 && s >= cancelStart {
								break
							}
							if k >= len(expStarts) || expStarts[k] != s {
								vrt.Failf("c13/ping-time", "ping #%d started at %v, expected %v\n%s", k, time.Duration(s), expStarts, desc)
								break
							}
						}
						if cancelStart < 0 && len(cli.starts) < len(expStarts) && !returned {
							vrt.Failf("c13/ping-missing", "only %d pings were sent, expected %d\n%s", len(cli.starts), len(expStarts), desc)
						}
						// 2. return value
						switch {
						case !returned:
							if cancelledAt >= 0 && cancelledAt+int64(x.interval+x.timeout) < int64(horizon) {
								vrt.Failf("c13/not-stopped-after-cancel", "KeepAlive is still running %v after its context was cancelled\n%s", horizon-time.Duration(cancelledAt), desc)
							} else if cancelStart < 0 && expEnd != "" {
								vrt.Failf("c13/not-returned", "KeepAlive did not return although a ping %s\n%s", expEnd, desc)
							}
						case err == nil:
							vrt.Failf("c13/returned-nil", "KeepAlive returned nil\n%s", desc)
						case errors.Is(err, mqtt.ErrPingTimeout):
							// only if a ping deadline really passed and the parent was not cancelled before that instant
							k := len(cli.starts) - 1
							dl := int64(-1)
							if k >= 0 {
								dl = cli.starts[k] + int64(x.timeout)
							}
							if k < 0 || retAt < dl {
								vrt.Failf("c13/timeout-declared-early", "ErrPingTimeout before the ping deadline\n%s", desc)
							} else if cancelledAt >= 0 && cancelledAt < dl {
								vrt.Failf("c13/timeout-instead-of-context-error", "the parent context was cancelled at %v, before the ping deadline %v, but KeepAlive reported ErrPingTimeout\n%s", time.Duration(cancelledAt), time.Duration(dl), desc)
							}
						case errors.Is(err, vctx.Canceled) || errors.Is(err, vctx.DeadlineExceeded):
							if cancelStart < 0 {
								vrt.Failf("c13/context-error-without-cancel", "context error although the parent was never cancelled\n%s", desc)
							}
						case errors.Is(err, errC13PingFailed):
							k := len(cli.starts) - 1
							if cancelledAt >= 0 && k >= 0 && cancelledAt < cli.starts[k] {
								vrt.Failf("c13/ping-error-instead-of-context-error", "the parent context was cancelled before the failing ping started but the ping's error was returned\n%s", desc)
							}
						default:
							vrt.Failf("c13/unexpected-error", "KeepAlive returned %v\n%s", err, desc)
						}
						if returned && cancelStart < 0 {
							if expEnd == "" {
								vrt.Failf("c13/stopped-while-healthy", "KeepAlive returned %v although every ping was answered in time\n%s", err, desc)
							} else if retAt != expEndAt {
								vrt.Failf("c13/return-time", "KeepAlive returned at %v, expected %v\n%s", time.Duration(retAt), time.Duration(expEndAt), desc)
							} else if expEnd == "timeout" && !errors.Is(err, mqtt.ErrPingTimeout) {
								vrt.Failf("c13/timeout-not-reported", "an unanswered ping must be reported as ErrPingTimeout, got %v\n%s", err, desc)
							} else if expEnd == "fail" && !errors.Is(err, errC13PingFailed) {
								vrt.Failf("c13/ping-error-lost", "the ping's own error must be returned, got %v\n%s", err, desc)
							}
						}
						cancel()
					},
					Observe: func() uint64 { return vrt.HashString(obs) },
				}
				c.Explore(sc)
				if obs != "" && idx%97 == 0 {
					c.Sample(map[string]any{"scenario": sc.Name, "observation": obs})
				}
				obs = ""
			}
		}
	}
}

// c13Reconnecting: the reconnecting client against a broker that goes silent at any packet.
func c13Reconnecting(c *Ctx) {
	interval, timeout := 10*time.Second, 3*time.Second
	f := 1
	if c.Thorough() {
		f = 2
	}
	// GoSilent: the peer stops answering; Stall (at a PINGREQ): it also stops reading, so that the
	// next Write of the application blocks while the ping is outstanding
	faults := env.FaultSet{GoSilent: true, Stall: true, StallTypes: map[byte]bool{env.PINGREQ: true}}
	wls := [][]rcReq{
		{},
		{{Kind: "p0", Tag: "m0", Phase: 'U'}},
		{{Kind: "p1", Tag: "m1", Phase: 'S'}},
		{{Kind: "p1", Tag: "m1", Phase: 'T'}},
		{{Kind: "sub", Subs: []string{"a:1"}, Phase: 'S'}, {Kind: "p2", Tag: "m2", Phase: 'T'}},
	}
	c.Bound("reconnecting", fmt.Sprintf("ReconnectClient with PingInterval %v, Timeout %v, no ResponseTimeout; the broker goes silent for good (link stays up) at any client packet (CONNECT, PINGREQ, PUBLISH, ...), F<=%d; workloads: idle, a QoS 0 publish at 11 s (while the first ping is outstanding), one publish, a publish after 15 s, subscribe + QoS 2 publish after 15 s; at a PINGREQ the peer may also stop reading (the next Write blocks until the client closes the transport); S<=1; exact virtual time", interval, timeout, f))
	var sample *rcRun
	for wi0, reqs := range append(wls, wls[0], wls[2]) {
		reqs := reqs
		wi := wi0
		// the last two runs configure keep-alive only through the CONNECT option WithKeepAlive(10):
		// the ping interval and the response timeout must default to it
		viaOption := wi0 >= len(wls)
		var r *rcRun
		sc := &vrt.Scenario{
			Name:  fmt.Sprintf("C13/reconnecting/w%d/viaKeepAliveOption=%v/%s", wi, viaOption, rcName(reqs)),
			Bound: vrt.Budget{F: f, S: 1},
			Cfg:   vrt.Config{Horizon: int64(75 * time.Second)},
			Body: func() {
				timeout := timeout
				if viaOption {
					timeout = interval // Timeout defaults to the ping interval
					rcExecuteInto(&rcCfg{Reqs: reqs, Faults: faults, KeepSession: true, KeepAliveOpt: 10}, &r)
				} else {
					rcExecuteInto(&rcCfg{Reqs: reqs, Faults: faults, KeepSession: true, PingInterval: interval, ConnTimeout: timeout}, &r)
				}
				if !r.connectOK {
					return
				}
				// every silenced connection is closed by the client within interval+timeout, and a new one follows
				for _, cn := range r.net.Conns {
					sAt := r.broker.SilentSince(cn.ID)
					if sAt < 0 {
						continue
					}
					if cn.ClosedAt < 0 {
						if sAt+int64(interval+timeout) < int64(70*time.Second) {
							vrt.Failf("c13/silent-peer-not-detected", "connection %d went silent at %v and is still open at the horizon\n%s", cn.ID, time.Duration(sAt), r.summary())
						}
						continue
					}
					if bound := c13SilenceBound(r, cn.ID, interval, timeout); cn.ClosedAt-sAt > int64(bound) {
						vrt.Failf("c13/silent-peer-detected-late", "connection %d went silent at %v and was closed only at %v (allowed %v)\n%s", cn.ID, time.Duration(sAt), time.Duration(cn.ClosedAt), bound, r.summary())
					}
					if cn.ID == len(r.net.Conns)-1 && cn.ClosedAt+int64(12*time.Second) < int64(70*time.Second) {
						vrt.Failf("c13/no-reconnect-after-timeout", "connection %d was closed after the ping timeout but no new connection was established\n%s", cn.ID, r.summary())
					}
				}
				// a healthy connection is never given up
				for _, cn := range r.net.Conns {
					if r.broker.SilentSince(cn.ID) < 0 && cn.ClosedAt >= 0 {
						vrt.Failf("c13/healthy-connection-closed", "connection %d was closed although the broker answered everything\n%s", cn.ID, r.summary())
					}
				}
				// pings go out every interval on a healthy connection
				last := r.net.Conns[len(r.net.Conns)-1]
				if r.broker.SilentSince(last.ID) < 0 {
					var pings []int64
					for _, e := range r.net.Trace {
						if e.Conn == last.ID && e.Sent() && e.Pkt != nil && e.Pkt.Type == env.PINGREQ {
							pings = append(pings, e.T)
						}
					}
					for i := 1; i < len(pings); i++ {
						if pings[i]-pings[i-1] != int64(interval) {
							vrt.Failf("c13/ping-period", "PINGREQ times on connection %d: %v\n%s", last.ID, pings, r.summary())
							break
						}
					}
					if len(pings) == 0 && last.OpenedAt+int64(interval) < int64(70*time.Second) {
						vrt.Failf("c13/no-ping", "no PINGREQ on healthy connection %d\n%s", last.ID, r.summary())
					}
					if want := int((int64(75*time.Second) - last.OpenedAt) / int64(interval)); len(pings) < want-1 {
						vrt.Failf("c13/keepalive-stopped", "healthy connection %d (opened at %v) saw %d PINGREQ until 75 s, expected about %d\n%s", last.ID, time.Duration(last.OpenedAt), len(pings), want, r.summary())
					}
				}
			},
			Observe: func() uint64 { return r.net.TraceHash() },
		}
		c.Explore(sc)
		if r != nil && len(r.broker.FaultLog) > 0 {
			sample = r
		}
	}
	// a healthy, promptly answering peer under every schedule with one preemption (the PINGRESP may
	// overtake the pinging task): the connection must be kept and pinged every interval
	c.Bound("reconnecting.healthy", fmt.Sprintf("ReconnectClient with PingInterval %v, Timeout %v, broker answers every PINGREQ at once, no faults, 35 s; all schedules with P<=1: the connection is never closed, PINGREQ goes out every interval", interval, timeout))
	{
		var r *rcRun
		sc := &vrt.Scenario{
			Name:  "C13/reconnecting/healthy/P1",
			Bound: vrt.Budget{P: 1},
			Cfg:   vrt.Config{Horizon: int64(35 * time.Second)},
			Body: func() {
				rcExecuteInto(&rcCfg{KeepSession: true, PingInterval: interval, ConnTimeout: timeout}, &r)
				if !r.connectOK {
					return
				}
				if len(r.net.Conns) != 1 || r.net.Conns[0].ClosedAt >= 0 {
					vrt.Failf("c13/healthy-connection-closed", "the broker answered every PINGREQ at once, yet the connection was given up (%d connections)\n%s", len(r.net.Conns), r.summary())
				}
				n := 0
				for _, e := range r.net.Trace {
					if e.Sent() && e.Pkt != nil && e.Pkt.Type == env.PINGREQ {
						n++
					}
				}
				if n != 3 {
					vrt.Failf("c13/ping-period", "%d PINGREQ in 35 s with a 10 s interval, want 3\n%s", n, r.summary())
				}
			},
			Observe: func() uint64 { return r.net.TraceHash() },
		}
		c.Explore(sc)
	}
	if sample != nil {
		c.Sample(map[string]any{"workload": rcName(sample.cfg.Reqs), "faults": sample.broker.FaultLog, "wire": sample.net.TraceStrings()})
	}
}
