//go:build verif

package main

import (
	"bytes"
	"fmt"
	"sort"
	"strings"
	"unsafe"

	mqtt "github.com/at-wat/mqtt-go"
	"github.com/at-wat/mqtt-go/internal/verif/env"
	vctx "github.com/at-wat/mqtt-go/internal/verif/shim/context"
	"github.com/at-wat/mqtt-go/internal/verif/vrt"
)

// C20 - handlers behind ServeMux / ServeAsync get private copies of the message.
//
//   part "mux"   (sequential, exhaustive enumeration): messages x lists of 1..3 matching handlers,
//                each handler records what it sees and then mutates one aspect of what it received.
//   part "async" (scheduler, all interleavings up to P preemptions): ServeAsync handler tasks
//                against a caller that reuses/mutates its message right after Serve returned.
//
// Oracle (from the property text only): every handler invocation observes exactly the content the
// caller's message had when Serve was called; nothing a handler does to what it received is visible
// to another handler of that message, to the handler of a later message, or in the caller's message.

func init() { register("C20", runC20) }

// c20Snap is a deep copy of the observable content of a message.
type c20Snap struct {
	Topic   string
	ID      uint16
	QoS     mqtt.QoS
	Retain  bool
	Dup     bool
	Payload []byte
}

func c20Take(m *mqtt.Message) c20Snap {
	return c20Snap{Topic: string(append([]byte(nil), m.Topic...)), ID: m.ID, QoS: m.QoS, Retain: m.Retain, Dup: m.Dup, Payload: append([]byte{}, m.Payload...)}
}

func (s c20Snap) String() string {
	return fmt.Sprintf("{topic=%q id=%d qos=%d retain=%v dup=%v payload=%x}", s.Topic, s.ID, s.QoS, s.Retain, s.Dup, s.Payload)
}

func (s c20Snap) hash() uint64 { return vrt.HashString(s.String()) }

// c20Diff lists the fields in which two snapshots differ ("" = equal). A nil and an empty payload
// are the same content.
func c20Diff(a, b c20Snap) string {
	var d []string
	if a.Topic != b.Topic {
		d = append(d, "Topic")
	}
	if a.ID != b.ID {
		d = append(d, "ID")
	}
	if a.QoS != b.QoS {
		d = append(d, "QoS")
	}
	if a.Retain != b.Retain {
		d = append(d, "Retain")
	}
	if a.Dup != b.Dup {
		d = append(d, "Dup")
	}
	if !bytes.Equal(a.Payload, b.Payload) {
		d = append(d, "Payload")
	}
	return strings.Join(d, "+")
}

// c20K reduces a field list to a stable violation-key component.
func c20K(d string) string {
	if strings.Contains(d, "+") {
		return "several-fields"
	}
	return d
}

// Mutations a handler applies to what it received.
const (
	c20MutByte0  = iota // overwrite payload byte 0 in place (if any)
	c20MutAppend        // m.Payload = append(m.Payload, x)
	c20MutReuse         // m.Payload = append(m.Payload[:0], x, y, z, w)  (buffer reuse idiom)
	c20MutTopic
	c20MutQoS
	c20MutRetain
	c20MutDup
	c20MutID
	c20NMut
)

var c20MutNames = [...]string{"payload[0]", "payload-append", "payload-reuse", "Topic", "QoS", "Retain", "Dup", "ID"}

func c20Mutate(m *mqtt.Message, kind int) {
	switch kind {
	case c20MutByte0:
		if len(m.Payload) > 0 {
			m.Payload[0] ^= 0xFF
		}
	case c20MutAppend:
		m.Payload = append(m.Payload, 0xEE)
	case c20MutReuse:
		m.Payload = append(m.Payload[:0], 0xE1, 0xE2, 0xE3, 0xE4)
	case c20MutTopic:
		m.Topic = "mutated/by/handler"
	case c20MutQoS:
		m.QoS = (m.QoS + 1) % 3
	case c20MutRetain:
		m.Retain = !m.Retain
	case c20MutDup:
		m.Dup = !m.Dup
	case c20MutID:
		m.ID ^= 0xFFFF
	}
}

// c20Payload builds a payload of length n with spare capacity (as a reused network buffer has), so
// that an aliased append would land in the caller's backing array.
func c20Payload(n int, seed byte) []byte {
	p := make([]byte, n, n+8)
	for i := range p {
		p[i] = seed + byte(i)
	}
	return p
}

type c20Msg struct {
	topic  string
	plen   int
	qos    mqtt.QoS
	retain bool
	dup    bool
	id     uint16
}

func (d c20Msg) build() *mqtt.Message {
	return &mqtt.Message{Topic: d.topic, ID: d.id, QoS: d.qos, Retain: d.retain, Dup: d.dup, Payload: c20Payload(d.plen, 0x10)}
}

func runC20(c *Ctx) {
	c20Mux(c)
	c20Async(c)
	c20ThroughClient(c)
}

// ---------------------------------------------------------------------------------------------
// part "mux"

var c20Filters = []string{"#", "a/#", "+/#"} // each matches both topics "a" and "a/b"

func c20Mux(c *Ctx) {
	var msgs []c20Msg
	for _, tp := range []string{"a", "a/b"} {
		for _, pl := range []int{0, 1, 3} {
			for q := mqtt.QoS(0); q <= 2; q++ {
				for _, rt := range []bool{false, true} {
					for _, dp := range []bool{false, true} {
						for _, id := range []uint16{0, 7} {
							msgs = append(msgs, c20Msg{tp, pl, q, rt, dp, id})
						}
					}
				}
			}
		}
	}
	var lists [][]int
	for n := 1; n <= 3; n++ {
		cnt := 1
		for i := 0; i < n; i++ {
			cnt *= c20NMut
		}
		for k := 0; k < cnt; k++ {
			l := make([]int, n)
			v := k
			for i := n - 1; i >= 0; i-- {
				l[i] = v % c20NMut
				v /= c20NMut
			}
			lists = append(lists, l)
		}
	}
	c.Bound("mux.messages", fmt.Sprintf("%d messages: topic in {a, a/b} x payload length in {0,1,3} (spare capacity 8) x QoS 0..2 x Retain x Dup x ID in {0,7}", len(msgs)))
	c.Bound("mux.handlers", fmt.Sprintf("%d lists: every list of 1..3 handlers in three layouts (filters %q by position, all matching | all under the same filter string '#' | the first handler on the outer mux and the others in a nested ServeMux registered under '#'), each mutating one of %q after recording what it saw; the retained pointers are mutated a second time after Serve returned; the same message is served twice and then a fresh different message once through the same mux", len(lists), c20Filters, c20MutNames))

	var cases int64
	for li, l := range lists {
		if !c.Mine(int64(li)) {
			continue
		}
		if c.Expired() {
			c.Res.Incomplete = append(c.Res.Incomplete, "C20/mux")
			return
		}
		names := make([]string, len(l))
		for i, k := range l {
			names[i] = c20MutNames[k]
		}
		for _, layout := range []string{"distinct-filters", "same-filter", "nested-mux"} {
			if layout != "distinct-filters" && len(l) < 2 {
				continue
			}
			for _, md := range msgs {
				type seen struct {
					pos  int
					snap c20Snap
				}
				var log []seen
				var held []*mqtt.Message
				mux := &mqtt.ServeMux{}
				inner := &mqtt.ServeMux{}
				for pos, kind := range l {
					pos, kind := pos, kind
					filter, target := c20Filters[pos], mux
					switch layout {
					case "same-filter":
						filter = "#" // every handler under the very same filter string
					case "nested-mux":
						if pos > 0 {
							target = inner // all but the first handler sit in a mux that is itself a handler of the outer one
						}
					}
					if err := target.Handle(filter, mqtt.HandlerFunc(func(m *mqtt.Message) {
						log = append(log, seen{pos, c20Take(m)})
						held = append(held, m)
						c20Mutate(m, kind)
					})); err != nil {
						c.EnumFail("mux", "handle-error", fmt.Sprintf("Handle(%q): %v", filter, err), nil)
					}
					if layout == "nested-mux" && pos == 0 {
						if err := mux.Handle("#", inner); err != nil {
							c.EnumFail("mux", "handle-error", fmt.Sprintf("Handle(\"#\", inner mux): %v", err), nil)
						}
					}
				}
				input := map[string]any{"message": fmt.Sprint(c20Take(md.build())), "handler_mutations": names, "layout": layout}
				effective := false
				for _, k := range l {
					if k != c20MutByte0 || md.plen > 0 {
						effective = true
					}
				}
				cases++
				if effective {
					c.Res.Distinct++
				}

				msg := md.build()
				orig := c20Take(msg)
				origPayload := msg.Payload
				serve := func(round string, m *mqtt.Message, want c20Snap) {
					log = log[:0]
					first := len(held)
					mux.Serve(m)
					if len(log) != len(l) {
						c.EnumFail("mux", "invocations/"+round, fmt.Sprintf("%d handler invocations, want %d", len(log), len(l)), input)
					}
					for _, s := range log {
						if d := c20Diff(s.snap, want); d != "" {
							c.EnumFail("mux", fmt.Sprintf("handler-saw-other-content/%s/%s", round, c20K(d)),
								fmt.Sprintf("handler #%d observed %v, the served message was %v (fields %s differ)", s.pos, s.snap, want, d), input)
						}
					}
					// handlers keep what they received and change it again after Serve has returned
					for i := first; i < len(held) && i-first < len(log); i++ {
						c20Mutate(held[i], l[log[i-first].pos])
					}
				}
				serve("first", msg, orig)
				if d := c20Diff(c20Take(msg), orig); d != "" || (len(origPayload) > 0 && &msg.Payload[0] != &origPayload[0]) {
					if d == "" {
						d = "Payload-slice-replaced"
					}
					c.EnumFail("mux", "caller-message-changed/"+c20K(d), fmt.Sprintf("caller's message is %v after Serve, was %v", c20Take(msg), orig), input)
				}
				// the same message object served again: a later message
				serve("same-message-again", msg, orig)
				if d := c20Diff(c20Take(msg), orig); d != "" {
					c.EnumFail("mux", "caller-message-changed/"+c20K(d), fmt.Sprintf("caller's message is %v after second Serve, was %v", c20Take(msg), orig), input)
				}
				// a fresh, different message through the same mux
				m2 := &mqtt.Message{Topic: "a/b", ID: md.id + 1, QoS: (md.qos + 1) % 3, Retain: !md.retain, Dup: !md.dup, Payload: c20Payload(2, 0x40)}
				if md.topic == "a/b" {
					m2.Topic = "a"
				}
				want2 := c20Take(m2)
				serve("later-message", m2, want2)
				if d := c20Diff(c20Take(m2), want2); d != "" {
					c.EnumFail("mux", "caller-message-changed/"+c20K(d), fmt.Sprintf("caller's later message is %v after Serve, was %v", c20Take(m2), want2), input)
				}
				if li == 200 && md.plen == 3 && md.qos == 1 && md.retain && !md.dup && md.id == 7 && md.topic == "a/b" {
					c.Sample(map[string]any{"part": "mux", "layout": layout, "message": fmt.Sprint(orig), "handler_mutations": names, "each_handler_observed": fmt.Sprint(orig), "caller_after": fmt.Sprint(c20Take(msg))})
				}
			}
		}
	}
	c.Res.Evaluations += cases
	if c.Res.Parts == nil {
		c.Res.Parts = map[string]any{}
	}
	c.Res.Parts["mux_cases"] = cases
}

// ---------------------------------------------------------------------------------------------
// part "async"

// c20Log is the shared harness log of the async scenarios. Every access is published to the
// scheduler as an event on the log object so that the state fingerprint reflects what was observed
// and in which order relative to the caller's writes.
type c20Log struct {
	obs []c20Snap
}

func (l *c20Log) touch(h uint64) { vrt.Event(unsafe.Pointer(l), h) }

func (l *c20Log) hash() uint64 {
	var ss []string
	for _, o := range l.obs {
		ss = append(ss, o.String())
	}
	return vrt.HashString(strings.Join(ss, ";"))
}

// c20Handler observes twice (with a scheduling point in between, so the caller may reuse its
// message meanwhile), then mutates what it received and finally looks at it once more.
func c20Handler(log *c20Log, tag string, kind int) mqtt.Handler {
	return mqtt.HandlerFunc(func(m *mqtt.Message) {
		first := c20Take(m)
		log.obs = append(log.obs, first)
		log.touch(first.hash())
		vrt.Yield("handler " + tag + ": between observations")
		second := c20Take(m)
		log.touch(second.hash() ^ 1)
		if d := c20Diff(first, second); d != "" {
			vrt.Failf("async/handler-copy-changed-under-it/"+c20K(d), "handler %s first observed %v and later %v although it had not changed it", tag, first, second)
		}
		c20Mutate(m, kind)
		mine := c20Take(m)
		log.touch(mine.hash() ^ 2)
		vrt.Yield("handler " + tag + ": after mutation")
		if d := c20Diff(mine, c20Take(m)); d != "" {
			vrt.Failf("async/handler-copy-changed-under-it/"+c20K(d), "handler %s left %v and later found %v", tag, mine, c20Take(m))
		}
	})
}

// c20Expect compares the multiset of observed snapshots with the expected one.
func c20Expect(log *c20Log, want []c20Snap, what string) {
	var g, w []string
	for _, o := range log.obs {
		g = append(g, o.String())
	}
	for _, o := range want {
		w = append(w, o.String())
	}
	sort.Strings(g)
	sort.Strings(w)
	if strings.Join(g, ";") == strings.Join(w, ";") {
		return
	}
	// characterise: which fields are wrong in the first unexpected observation
	key := "which-invocation-saw-which-message"
	if len(g) != len(w) {
		key = "number-of-invocations"
	} else {
		for _, o := range log.obs {
			best := ""
			for i, x := range want {
				d := c20Diff(o, x)
				if i == 0 || len(d) < len(best) {
					best = d
				}
			}
			if best != "" {
				key = best
				break
			}
		}
	}
	vrt.Failf("async/handler-saw-other-content/"+c20K(key), "%s: handler invocations observed %v, the messages had the content %v when Serve was called", what, g, w)
}

func c20Async(c *Ctx) {
	p := 2
	plens := []int{0, 1, 3}
	if c.Thorough() {
		p = 6
		plens = []int{0, 1, 3, 8}
	}
	c.Bound("async.schedules", fmt.Sprintf("all interleavings of the caller task and the ServeAsync handler tasks with <= %d preemptions", p))
	c.Bound("async.direct", "ServeAsync{Handler} and ServeAsync{ServeAsync{Handler}}: caller serves a message, checks it, overwrites its payload bytes in place and changes Topic/QoS/Retain/Dup/ID, serves the reused message as a second message, overwrites again; handler mutation in 8 kinds x payload length in {0,1,3}")
	c.Bound("async.mux", "ServeMux with two ServeAsync handlers (filters '#', 'a/#') with mutation kinds (k, k+3 mod 8) [thorough: all 64 pairs], same caller behaviour with one message then reuse")

	var sample *c20Log
	var sampleWant []c20Snap
	for k2 := 0; k2 < 2*c20NMut; k2++ {
		for _, pl := range plens {
			kind, pl := k2%c20NMut, pl
			nested := k2 >= c20NMut // ServeAsync wrapped in another ServeAsync
			var log *c20Log
			var want []c20Snap
			sc := &vrt.Scenario{
				Name:  fmt.Sprintf("C20/async/direct/nested=%v/mut=%s/plen=%d/P%d", nested, c20MutNames[kind], pl, p),
				Bound: vrt.Budget{P: p},
				Cfg:   vrt.Config{Horizon: int64(60e9)},
				Body: func() {
					log = &c20Log{}
					want = nil
					sa := &mqtt.ServeAsync{Handler: c20Handler(log, "h", kind)}
					if nested {
						sa = &mqtt.ServeAsync{Handler: sa}
					}
					msg := &mqtt.Message{Topic: "a/b", ID: 7, QoS: mqtt.QoS1, Retain: true, Dup: false, Payload: c20Payload(pl, 0x10)}
					w1 := c20Take(msg)
					want = append(want, w1)
					log.touch(w1.hash() ^ 0x100)
					sa.Serve(msg)
					vrt.Yield("caller: Serve returned")
					if d := c20Diff(c20Take(msg), w1); d != "" {
						vrt.Failf("async/caller-message-changed/"+c20K(d), "caller's message is %v after Serve, was %v", c20Take(msg), w1)
					}
					// reuse the message object and its buffer for the next message
					for i := range msg.Payload {
						msg.Payload[i] = 0x55
					}
					msg.Payload = append(msg.Payload, 0x56)
					msg.Topic, msg.ID, msg.QoS, msg.Retain, msg.Dup = "x/reused", 9, mqtt.QoS2, false, true
					w2 := c20Take(msg)
					want = append(want, w2)
					log.touch(w2.hash() ^ 0x200)
					sa.Serve(msg)
					vrt.Yield("caller: second Serve returned")
					if d := c20Diff(c20Take(msg), w2); d != "" {
						vrt.Failf("async/caller-message-changed/"+c20K(d), "caller's second message is %v after Serve, was %v", c20Take(msg), w2)
					}
					for i := range msg.Payload {
						msg.Payload[i] = 0x77
					}
					msg.Topic, msg.ID, msg.QoS, msg.Retain, msg.Dup = "y/reused-again", 11, mqtt.QoS0, true, false
					w3 := c20Take(msg)
					log.touch(w3.hash() ^ 0x300)
					vrt.Quiesce()
					if d := c20Diff(c20Take(msg), w3); d != "" {
						vrt.Failf("async/caller-message-changed/"+c20K(d), "caller's message is %v at quiescence, the caller had left it as %v", c20Take(msg), w3)
					}
					c20Expect(log, want, "direct")
				},
				Observe: func() uint64 { return log.hash() },
			}
			c.Explore(sc)
			if log != nil && kind == c20MutReuse && pl == 3 {
				sample, sampleWant = log, want
			}
		}
	}
	if sample != nil {
		c.Sample(map[string]any{"part": "async", "scenario": "direct/mut=payload-reuse/plen=3", "content_at_serve": fmt.Sprint(sampleWant), "observed_by_handler_tasks": fmt.Sprint(sample.obs)})
	}

	for k1 := 0; k1 < c20NMut; k1++ {
		for k2 := 0; k2 < c20NMut; k2++ {
			if !c.Thorough() && k2 != (k1+3)%c20NMut {
				continue
			}
			for _, pl := range plens {
				if !c.Thorough() && pl == 0 && k1 > 2 {
					continue
				}
				k1, k2, pl := k1, k2, pl
				var log *c20Log
				sc := &vrt.Scenario{
					Name:  fmt.Sprintf("C20/async/mux/mut=%s,%s/plen=%d/P%d", c20MutNames[k1], c20MutNames[k2], pl, p),
					Bound: vrt.Budget{P: p},
					Cfg:   vrt.Config{Horizon: int64(60e9)},
					Body: func() {
						log = &c20Log{}
						mux := &mqtt.ServeMux{}
						if err := mux.Handle("#", &mqtt.ServeAsync{Handler: c20Handler(log, "h1", k1)}); err != nil {
							vrt.Failf("async/handle-error", "%v", err)
						}
						if err := mux.Handle("a/#", &mqtt.ServeAsync{Handler: c20Handler(log, "h2", k2)}); err != nil {
							vrt.Failf("async/handle-error", "%v", err)
						}
						msg := &mqtt.Message{Topic: "a", ID: 0, QoS: mqtt.QoS2, Retain: false, Dup: true, Payload: c20Payload(pl, 0x20)}
						w1 := c20Take(msg)
						log.touch(w1.hash() ^ 0x100)
						mux.Serve(msg)
						vrt.Yield("caller: Serve returned")
						if d := c20Diff(c20Take(msg), w1); d != "" {
							vrt.Failf("async/caller-message-changed/"+c20K(d), "caller's message is %v after Serve, was %v", c20Take(msg), w1)
						}
						for i := range msg.Payload {
							msg.Payload[i] = 0x55
						}
						msg.Payload = append(msg.Payload, 0x56)
						msg.Topic, msg.ID, msg.QoS, msg.Retain, msg.Dup = "x/reused", 9, mqtt.QoS1, true, false
						w2 := c20Take(msg)
						log.touch(w2.hash() ^ 0x200)
						vrt.Quiesce()
						if d := c20Diff(c20Take(msg), w2); d != "" {
							vrt.Failf("async/caller-message-changed/"+c20K(d), "caller's message is %v at quiescence, the caller had left it as %v", c20Take(msg), w2)
						}
						c20Expect(log, []c20Snap{w1, w1}, "mux+async")
					},
					Observe: func() uint64 { return log.hash() },
				}
				c.Explore(sc)
			}
		}
	}
}

// ---------------------------------------------------------------------------------------------
// part "client": the same guarantee for messages that come off the wire.  A BaseClient hands
// inbound messages to a ServeMux (two matching handlers, the second also behind ServeAsync); what the
// first handler does to its copy must reach neither the second handler nor the acknowledgement.

func c20ThroughClient(c *Ctx) {
	c.Bound("client", "BaseClient over the scripted peer with a ServeMux of two matching handlers (the second plain or behind ServeAsync); the peer sends a QoS 1 and a QoS 2 PUBLISH (retain, DUP set on the second); handler mutation kinds (k, k+3 mod 8); each handler must observe the content that was on the wire and the PUBACK / PUBREC / PUBCOMP must carry the identifiers that were on the wire; P<=1")
	for k1 := 0; k1 < c20NMut; k1++ {
		for _, async := range []bool{false, true} {
			k1, async := k1, async
			k2 := (k1 + 3) % c20NMut
			var log *c20Log
			var net *env.Net
			sc := &vrt.Scenario{
				Name:  fmt.Sprintf("C20/client/mut=%s,%s/second-async=%v", c20MutNames[k1], c20MutNames[k2], async),
				Bound: vrt.Budget{P: 1},
				Cfg:   vrt.Config{Horizon: int64(60e9)},
				Body: func() {
					log = &c20Log{}
					net = env.NewNet()
					s := env.NewScript(net)
					s.AutoConnAck = true
					mux := &mqtt.ServeMux{}
					mux.Handle("#", c20Handler(log, "h1", k1))
					var h2 mqtt.Handler = c20Handler(log, "h2", k2)
					if async {
						h2 = &mqtt.ServeAsync{Handler: h2}
					}
					mux.Handle("a/#", h2)
					cli := &mqtt.BaseClient{Transport: s.Conn}
					cli.Handle(mux)
					if _, err := cli.Connect(vctx.Background(), "c20"); err != nil {
						vrt.Failf("harness", "connect: %v", err)
						return
					}
					m1 := &mqtt.Message{Topic: "a/b", ID: 7, QoS: mqtt.QoS1, Retain: true, Payload: c20Payload(3, 0x10)}
					m2 := &mqtt.Message{Topic: "a", ID: 9, QoS: mqtt.QoS2, Dup: true, Payload: c20Payload(1, 0x20)}
					want := []c20Snap{c20Take(m1), c20Take(m1), c20Take(m2), c20Take(m2)}
					s.Send(env.EncPublish(m1.Topic, m1.Payload, 1, m1.ID, false, true))
					vrt.Settle()
					s.Send(env.EncPublish(m2.Topic, m2.Payload, 2, m2.ID, true, false))
					vrt.Settle()
					s.Send(env.EncAck(env.PUBREL, m2.ID))
					vrt.Quiesce()
					c20Expect(log, want, "through a BaseClient")
					var acks []string
					for _, p := range s.Got {
						switch p.Type {
						case env.PUBACK, env.PUBREC, env.PUBCOMP:
							acks = append(acks, p.String())
						}
					}
					wantAcks := fmt.Sprint([]string{(&env.Packet{Type: env.PUBACK, ID: 7}).String(), (&env.Packet{Type: env.PUBREC, ID: 9}).String(), (&env.Packet{Type: env.PUBCOMP, ID: 9}).String()})
					if fmt.Sprint(acks) != wantAcks {
						vrt.Failf("client/acknowledgements-changed", "acknowledgements written %v, want %v (a handler's changes to its message must not reach the client)", acks, wantAcks)
					}
				},
				Observe: func() uint64 { return net.TraceHash() ^ log.hash() },
			}
			c.Explore(sc)
		}
	}
}
