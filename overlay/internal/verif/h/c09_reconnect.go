//go:build verif

package main

import (
	"errors"
	"fmt"
	"sort"
	"strings"
	"time"

	mqtt "github.com/at-wat/mqtt-go"
	"github.com/at-wat/mqtt-go/internal/verif/env"
	vctx "github.com/at-wat/mqtt-go/internal/verif/shim/context"
	"github.com/at-wat/mqtt-go/internal/verif/vrt"
)

// C09 — reconnect lifecycle: redial after loss with a growing lower bound on the wait, one live
// transport at a time, the same CONNECT on every connection, stop on Disconnect / cancellation.

func init() { register("C09", runC09) }

const (
	c09Interval = 10 * time.Second
	c09Timeout  = 3 * time.Second
)

var c09Outcomes = []string{"dial-error", "dial-timeout", "refused", "no-connack", "close-before-connack", "close-after-connack", "protocol-error", "keepalive-timeout", "half-broken", "connect-write-fails"}

type c09Attempt struct {
	outcome string
	dialAt  int64
	endAt   int64 // when the attempt / connection ended (-1: still up)
	conn    *env.Conn
	ok      bool // connection was established
}

type c09Peer struct {
	a      *c09Attempt
	silent bool
	nconn  int
	first  *env.Packet
	extra  []string
}

func (p *c09Peer) OnData(c *env.Conn, data []byte) error {
	pk, _, err := env.Decode(data)
	if err != nil {
		p.extra = append(p.extra, "undecodable write")
		return nil
	}
	c.Net.Trace = append(c.Net.Trace, env.WireEvent{Conn: c.ID, Dir: '>', Pkt: pk, Raw: data, T: vrt.Now()})
	if p.first == nil {
		p.first = pk
		if pk.Type != env.CONNECT {
			p.extra = append(p.extra, "first packet is "+env.TypeName(pk.Type))
		}
	} else if pk.Type == env.CONNECT {
		p.extra = append(p.extra, "second CONNECT")
	}
	if p.silent {
		return nil
	}
	switch pk.Type {
	case env.CONNECT:
		switch p.a.outcome {
		case "refused":
			c.Send(env.EncConnAck(false, 3), "refused")
			c.PeerClose("refused")
			p.a.endAt = vrt.Now()
		case "no-connack":
			p.silent = true
			p.a.endAt = vrt.Now() + int64(c09Timeout)
		case "close-before-connack":
			c.PeerClose("closed before CONNACK")
			p.a.endAt = vrt.Now()
		case "close-after-connack":
			c.Send(env.EncConnAck(false, 0), "")
			p.a.ok = true
			// the peer closes 5 s later
			vrt.NewTimer(int64(5*time.Second), 0, func(t *vrt.Timer) {
				c.PeerCloseFromTimer(t, "scripted close")
				p.a.endAt = vrt.Now()
			})
		case "protocol-error":
			c.Send(env.EncConnAck(false, 0), "")
			p.a.ok = true
			vrt.NewTimer(int64(5*time.Second), 0, func(t *vrt.Timer) {
				c.InjectFromTimer(t, []byte{0xF0, 0x00})
				p.a.endAt = vrt.Now()
			})
		case "keepalive-timeout":
			c.Send(env.EncConnAck(false, 0), "")
			p.a.ok = true
			p.silent = true
			p.a.endAt = vrt.Now() + int64(c09Interval+c09Timeout)
		case "half-broken":
			// from now on writes fail while the read side stays open and silent: the first
			// keep-alive PINGREQ cannot be written, which ends the connection one interval later
			c.Send(env.EncConnAck(false, 0), "")
			p.a.ok = true
			c.FailWrites = true
			p.a.endAt = vrt.Now() + int64(c09Interval)
		default: // healthy
			c.Send(env.EncConnAck(false, 0), "")
			p.a.ok = true
		}
	case env.PINGREQ:
		c.Send(env.EncPingResp(), "")
	case env.DISCONNECT:
		c.PeerClose("DISCONNECT received")
	}
	return nil
}

type c09Stop struct {
	kind string        // "none", "disconnect", "cancel"
	at   time.Duration // virtual instant at which the second task acts
}

func c09Body(script []string, base, max time.Duration, stop c09Stop, outNet **env.Net) func() {
	return func() {
		net := env.NewNet()
		*outNet = net
		var atts []*c09Attempt
		var peers []*c09Peer
		activeSeen := false
		stopped := int64(-1)    // Disconnect returned / Connect's context cancelled
		stopCalled := int64(-1) // Disconnect / cancel was called
		dialAfterStop := false
		discCalled, discReturned := int64(-1), int64(-1) // cancel+disconnect: when the final Disconnect was called / returned
		dialAfterDisc := false
		twoOpen := ""
		dialer := mqtt.DialerFunc(func(ctx vctx.Context) (*mqtt.BaseClient, error) {
			vrt.Yield("dial")
			o := "healthy"
			if len(atts) < len(script) {
				o = script[len(atts)]
			}
			a := &c09Attempt{outcome: o, dialAt: vrt.Now(), endAt: -1}
			atts = append(atts, a)
			if stopped >= 0 && vrt.Now() >= stopped || stopCalled >= 0 && vrt.Now() > stopCalled {
				// after the stop took effect, or at a strictly later virtual time than the stop call
				dialAfterStop = true
			}
			if discReturned >= 0 && vrt.Now() >= discReturned || discCalled >= 0 && vrt.Now() > discCalled {
				dialAfterDisc = true
			}
			for _, p := range atts[:len(atts)-1] {
				if p.conn != nil && !p.conn.Closed() {
					twoOpen = fmt.Sprintf("attempt %d dials while the transport of attempt with dial time %v is still open", len(atts)-1, time.Duration(p.dialAt))
				}
			}
			if o == "dial-error" {
				a.endAt = vrt.Now()
				return nil, errors.New("c09: dial refused")
			}
			if o == "dial-timeout" {
				// the dial itself takes time before it fails (connect timeout): the wait before the
				// next attempt is counted from the moment the failure is known
				vrt.Sleep(int64(1500 * time.Millisecond))
				a.endAt = vrt.Now()
				return nil, errors.New("c09: dial timed out")
			}
			p := &c09Peer{a: a}
			a.conn = net.NewConn(p)
			if o == "connect-write-fails" {
				// the dial succeeds but the link is already dead when CONNECT is written
				a.conn.FailWrites = true
				a.endAt = vrt.Now()
			}
			peers = append(peers, p)
			return &mqtt.BaseClient{Transport: a.conn, ConnState: func(st mqtt.ConnState, _ error) {
				if st == mqtt.StateActive {
					activeSeen = true
				}
			}}, nil
		})
		rc, err := mqtt.NewReconnectClient(dialer, mqtt.WithReconnectWait(base, max), mqtt.WithPingInterval(c09Interval), mqtt.WithTimeout(c09Timeout))
		if err != nil {
			vrt.Failf("harness", "%v", err)
			return
		}
		ctx, cancel := vctx.WithCancel(vctx.Background())
		connRet, discRet := false, false
		var discErr error
		if stop.kind == "disconnect-in-handler" {
			// the application shuts the client down from inside its message handler (a "quit" message
			// pushed by the broker on the first established connection)
			rc.Handle(mqtt.HandlerFunc(func(m *mqtt.Message) {
				if discRet || stopCalled >= 0 {
					return
				}
				stopCalled = vrt.Now()
				dctx, dcancel := vctx.WithTimeout(vctx.Background(), 5*time.Second)
				discErr = rc.Disconnect(dctx)
				dcancel()
				discRet = true
				stopped = vrt.Now()
			}))
			quitSent := false
			vrt.GoDaemon("quit-sender", func() {
				vrt.Await("first connection Active", func() bool { return activeSeen })
				if stop.at > 0 {
					vrt.Sleep(int64(stop.at))
				}
				for _, a := range atts {
					if a.ok && a.conn != nil && !a.conn.Down() && !quitSent {
						quitSent = true
						a.conn.Send(env.EncPublish("ctl", []byte("quit"), 0, 0, false, false), "quit")
					}
				}
			})
		}
		cancelIrrelevant := false
		var connErr error
		vrt.Go("connect", func() {
			_, connErr = rc.Connect(ctx, "c09", mqtt.WithKeepAlive(30), mqtt.WithCleanSession(true), mqtt.WithUserNamePassword("u", "p"))
			connRet = true
		})
		if stop.kind != "none" && stop.kind != "disconnect-in-handler" {
			vrt.Go("stopper", func() {
				if stop.at == -2 {
					// act when the first connection has just become Active inside the client (the reconnect
					// loop has not yet reported success to Connect's caller)
					vrt.Await("first connection Active", func() bool { return activeSeen })
				} else if stop.at < 0 {
					// act as soon as the broker has accepted the first connection (the client may not
					// even have read the CONNACK yet): the stop races with the success of Connect
					vrt.Await("first CONNACK sent", func() bool {
						for _, a := range atts {
							if a.ok {
								return true
							}
						}
						return false
					})
				} else {
					vrt.Sleep(int64(stop.at))
				}
				stopCalled = vrt.Now()
				if stop.kind == "disconnect" {
					rc.Disconnect(vctx.Background())
					discRet = true
				} else {
					if activeSeen || connRet && connErr == nil {
						// the first connection had already succeeded (the client reported it Active): the
						// cancellation is not "before the first connection succeeded"; the client keeps managing
						// the connection whatever Connect returns to its caller in this race
						cancelIrrelevant = true
					}
					cancel()
					if stop.kind == "cancel+disconnect" {
						// the application gives up and tears the client down
						vrt.Await("Connect returned", func() bool { return connRet })
						discCalled = vrt.Now()
						rc.Disconnect(vctx.Background())
						discRet = true
						discReturned = vrt.Now()
					}
				}
				stopped = vrt.Now()
			})
		}
		vrt.Quiesce()
		desc := func() string {
			var as []string
			for i, a := range atts {
				as = append(as, fmt.Sprintf("#%d %s dial@%v end@%v established=%v", i, a.outcome, time.Duration(a.dialAt), time.Duration(a.endAt), a.ok))
			}
			return fmt.Sprintf("script %v base %v max %v stop %s@%v (took effect at %v); Connect returned=%v err=%v\n attempts:\n  %s", script, base, max, stop.kind, stop.at, time.Duration(stopped), connRet, connErr, strings.Join(as, "\n  "))
		}
		if (stop.kind == "cancel" || stop.kind == "cancel+disconnect") && connRet && connErr == nil {
			// Connect reported success: the first connection was established in spite of the racing
			// cancellation, so the cancellation did not come "before the first connection succeeded"
			// and the client rightly goes on managing the connection
			cancelIrrelevant = true
		}
		// back-off
		lastOK := -1
		for i := 0; i+1 < len(atts); i++ {
			a := atts[i]
			if a.ok {
				lastOK = i
			}
			k := i
			if lastOK >= 0 {
				k = i - lastOK
			}
			want := base // base * 2^k, saturating at max (k can be large in the long-outage scenario)
			for i := 0; i < k && want < max; i++ {
				want *= 2
			}
			if want > max {
				want = max
			}
			if a.endAt < 0 {
				vrt.Failf("c09/redial-while-connection-up", "attempt %d was dialled although the connection of attempt %d had not ended\n%s", i+1, i, desc())
				continue
			}
			got := time.Duration(atts[i+1].dialAt - a.endAt)
			if stopped >= 0 && a.endAt >= stopped && !cancelIrrelevant {
				continue
			}
			if got < want {
				vrt.Failf(fmt.Sprintf("c09/backoff-too-short:k%d", k), "attempt %d was dialled %v after attempt %d ended; the lower bound after %d consecutive failure(s) is %v\n%s", i+1, got, i, k, want, desc())
			}
		}
		// redial after loss: unless stopped, the last attempt must be a live connection
		if stop.kind == "none" || stop.kind == "cancel" && cancelIrrelevant {
			last := atts[len(atts)-1]
			if !last.ok || last.endAt >= 0 {
				vrt.Failf("c09/gave-up", "the client stopped dialling although the last connection attempt failed or ended\n%s", desc())
			}
			if stop.kind == "none" && (!connRet || connErr != nil) {
				vrt.Failf("c09/connect-not-returned", "Connect returned=%v err=%v although a connection was established\n%s", connRet, connErr, desc())
			}
		}
		if twoOpen != "" {
			vrt.Failf("c09/two-transports-open", "%s\n%s", twoOpen, desc())
		}
		// CONNECT packets
		var ref *env.Packet
		for i, p := range peers {
			for _, x := range p.extra {
				vrt.Failf("c09/bad-connection-start", "connection %d: %s\n%s", i, x, desc())
			}
			if p.first == nil || p.first.Type != env.CONNECT {
				continue
			}
			if ref == nil {
				ref = p.first
				if ref.ClientID != "c09" || ref.KeepAlive != 30 || !ref.Clean || ref.User != "u" || string(ref.Pass) != "p" {
					vrt.Failf("c09/connect-options", "CONNECT does not carry the requested options: %+v\n%s", ref, desc())
				}
			} else if string(p.first.Body) != string(ref.Body) {
				vrt.Failf("c09/connect-differs", "connection %d starts with a different CONNECT than the first connection\n%s", i, desc())
			}
		}
		// stop conditions
		if (stop.kind == "disconnect" || stop.kind == "cancel+disconnect") && !discRet {
			vrt.Failf("c09/disconnect-blocked", "Disconnect has not returned\n%s", desc())
		}
		if stop.kind == "disconnect-in-handler" && stopCalled >= 0 {
			if !discRet {
				vrt.Failf("c09/disconnect-blocked:in-handler", "Disconnect called from inside the message handler has not returned\n%s", desc())
			} else if discErr != nil {
				vrt.Failf("c09/disconnect-blocked:in-handler", "Disconnect called from inside the message handler returned %v (it only came back on its 5 s deadline)\n%s", discErr, desc())
			}
		}
		if cancelIrrelevant && stop.kind == "cancel+disconnect" {
			// only the Disconnect stops the client: judge the dials against it
			dialAfterStop = dialAfterDisc
			if dialAfterStop {
				vrt.Failf("c09/dial-after-stop:"+stop.kind, "a dial started after Disconnect had taken effect\n%s", desc())
			}
		}
		if dialAfterStop && !cancelIrrelevant {
			vrt.Failf("c09/dial-after-stop:"+stop.kind, "a dial started after %s had taken effect\n%s", stop.kind, desc())
		}
		if stop.kind == "cancel" || stop.kind == "cancel+disconnect" {
			established := false
			for _, a := range atts {
				if a.ok && a.dialAt <= stopped {
					established = true
				}
			}
			if !established && (!connRet || connErr == nil || !errors.Is(connErr, vctx.Canceled)) {
				vrt.Failf("c09/connect-cancel", "Connect's context was cancelled before the first connection: returned=%v err=%v\n%s", connRet, connErr, desc())
			}
		}
		cancel()
	}
}

func runC09(c *Ctx) {
	waits := [][2]time.Duration{{time.Second, 10 * time.Second}, {time.Second, time.Second}, {2 * time.Second, 3 * time.Second}, {time.Second, 8 * time.Second}}
	maxLen, p := 3, 1
	if c.Thorough() {
		maxLen, p = 4, 2
	}
	var scripts [][]string
	var rec func(cur []string)
	rec = func(cur []string) {
		scripts = append(scripts, append([]string(nil), cur...))
		if len(cur) == maxLen {
			return
		}
		for _, o := range c09Outcomes {
			rec(append(cur, o))
		}
	}
	rec(nil)
	// shortest scripts first: whatever the time budget cuts is the longest ones
	sort.SliceStable(scripts, func(i, j int) bool { return len(scripts[i]) < len(scripts[j]) })
	c.Bound("scripts", fmt.Sprintf("all %d scripts of <=%d consecutive attempt outcomes over %v (then healthy) x (base,max) %v; keep-alive interval %v, timeout %v; schedules: default plus every single deviation (preemption or non-default task choice at a blocking point; thorough: two)", len(scripts), maxLen, c09Outcomes, waits, c09Interval, c09Timeout))
	c.Bound("stop", fmt.Sprintf("for scripts of length<=2: Disconnect / cancellation of Connect's context at every instant of a grid (the moment the broker accepts the first connection; every 500 ms up to 20 s, and +-1 ns around every whole second) with P<=%d (scripts of length 2: P<=%d)", p, p-1))
	var net *env.Net
	var last []string
	backoff := func(long bool) {
		for _, sc := range scripts {
			if (len(sc) > 3) != long {
				continue
			}
			for _, w := range waits {
				w, sc := w, sc
				s := &vrt.Scenario{
					Name:       fmt.Sprintf("C09/backoff/%v-%v/%s", w[0], w[1], strings.Join(sc, ",")),
					Bound:      vrt.Budget{P: p, D: p, Total: p},
					DelayBound: true,
					Cfg:        vrt.Config{Horizon: int64(200 * time.Second)},
					Body:       c09Body(sc, w[0], w[1], c09Stop{kind: "none"}, &net),
					Observe:    func() uint64 { return net.TraceHash() },
				}
				c.Explore(s)
				if net != nil && len(sc) == maxLen {
					last = net.TraceStrings()
				}
			}
		}
	}
	backoff(false) // scripts of length <= 3; the longer ones (thorough tier) come last
	// a long outage: 70 consecutive failed dials (enough doublings to overflow a shifted duration),
	// default schedule only
	c.Bound("long-outage", "70 consecutive dial errors, then a healthy broker; (base,max) in {(1s,4s), (1s,10s)}; default schedule; every wait is at least min(base*2^k, max)")
	for _, w := range [][2]time.Duration{{time.Second, 4 * time.Second}, {time.Second, 10 * time.Second}} {
		w := w
		long := make([]string, 70)
		for i := range long {
			long[i] = "dial-error"
		}
		s := &vrt.Scenario{
			Name:    fmt.Sprintf("C09/long-outage/%v-%v/70-dial-errors", w[0], w[1]),
			Bound:   vrt.Budget{},
			Cfg:     vrt.Config{Horizon: int64(1200 * time.Second)},
			Body:    c09Body(long, w[0], w[1], c09Stop{kind: "none"}, &net),
			Observe: func() uint64 { return net.TraceHash() },
		}
		c.Explore(s)
	}
	// stop conditions: the instant is a free choice inside the scenario
	instants := []time.Duration{-1, -2} // -1: the moment the broker accepts the first connection; -2: the moment the client reports it Active
	for t := time.Duration(0); t <= 20*time.Second; t += 500 * time.Millisecond {
		instants = append(instants, t)
		if t%time.Second == 0 && t > 0 {
			instants = append(instants, t-1, t+1)
		}
	}
	for _, sc := range scripts {
		if len(sc) > 2 {
			continue
		}
		pp := p
		if len(sc) == 2 {
			pp = p - 1
		}
		for _, kind := range []string{"disconnect", "cancel", "cancel+disconnect", "disconnect-in-handler"} {
			if kind == "disconnect-in-handler" && len(sc) > 1 {
				continue
			}
			sc, kind, pp := sc, kind, pp
			s := &vrt.Scenario{
				Name:       fmt.Sprintf("C09/stop/%s/%s", kind, strings.Join(sc, ",")),
				Bound:      vrt.Budget{P: pp, D: pp, Total: pp},
				DelayBound: true,
				Cfg:        vrt.Config{Horizon: int64(200 * time.Second)},
				Body: func() {
					at := instants[vrt.Choose(vrt.KFree, len(instants), "stop instant")]
					c09Body(sc, time.Second, 4*time.Second, c09Stop{kind: kind, at: at}, &net)()
				},
				Observe: func() uint64 { return net.TraceHash() },
			}
			c.Explore(s)
		}
	}
	backoff(true)
	if last != nil {
		c.Sample(map[string]any{"wire": last})
	}
}
