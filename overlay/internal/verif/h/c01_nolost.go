//go:build verif

package main

import (
	"fmt"
	"strings"
	"time"

	mqtt "github.com/at-wat/mqtt-go"
	"github.com/at-wat/mqtt-go/internal/verif/env"
	vctx "github.com/at-wat/mqtt-go/internal/verif/shim/context"
	"github.com/at-wat/mqtt-go/internal/verif/vrt"
)

// C01 — no accepted QoS>=1 publish / subscribe / unsubscribe is ever lost.

func init() { register("C01", runC01) }

// c01Oracle: at final quiescence every accepted request has its completing acknowledgement on the wire.
func c01Oracle(r *rcRun) {
	if !r.connectOK {
		vrt.Failf("c01/connect-failed", "Connect returned %v although the broker eventually stays reachable\n%s", r.connErr, r.summary())
		return
	}
	for i, q := range r.cfg.Reqs {
		if !r.submitted[i] || !r.accepted[i] || q.Kind == "p0" {
			continue
		}
		if ok, why := r.ackedOnWire(i); !ok {
			vrt.Failf(fmt.Sprintf("c01/lost:%s@%c:faults=%s", q.Kind, q.Phase, r.faultKinds()),
				"accepted request #%d %s was never acknowledged at quiescence: %s\n%s", i, q, why, r.summary())
		}
	}
}

func runC01(c *Ctx) {
	c01SwapDuringTask(c)
	type fam struct {
		name   string
		n      int
		bound  vrt.Budget
		faults env.FaultSet
		keep   []bool
		phases []byte
		tmo    time.Duration
		kinds  []string
		rtmo   time.Duration // RetryClient.ResponseTimeout
		slowOE time.Duration // OnError takes this long (the next connection exists before the failed task has finished)
		eofw   bool          // write errors of a broken link wrap io.EOF
		reent  bool          // callbacks call back into the client (see rcCfg.Reentrant)
		cancel bool          // the context given to Connect is cancelled as soon as Connect has returned
		manual bool          // the application drives a bare RetryClient (own redial loop) instead of a ReconnectClient
	}
	base := env.FaultSet{LostClose: true, WriteErr: true, AckLost: true}
	conn := env.FaultSet{LostClose: true, WriteErr: true, AckLost: true, ConnRefuse: true, DialErr: true}
	all := []string{"p0", "p1", "p2", "sub", "unsub"}
	fams := []fam{
		{name: "N2.F1", n: 2, bound: vrt.Budget{F: 1}, faults: conn, keep: []bool{true}, phases: []byte{'B', 'S', 'N', 'O', 'H'}, kinds: []string{"p1", "p2", "sub", "unsub"}},
		{name: "N2.F1.nosession", n: 2, bound: vrt.Budget{F: 1}, faults: conn, keep: []bool{false}, phases: []byte{'B', 'N', 'H'}, kinds: []string{"p0", "p1", "sub"}},
		{name: "manual.N2.F1", n: 2, bound: vrt.Budget{F: 1}, faults: conn, keep: []bool{true, false}, phases: []byte{'B', 'N', 'O', 'C'}, kinds: []string{"p1", "p2", "sub"}, manual: true},
		{name: "N2.F1.connect-ctx-cancelled", n: 2, bound: vrt.Budget{F: 1}, faults: base, keep: []bool{true}, phases: []byte{'S', 'N', 'O'}, kinds: []string{"p1", "p2", "sub", "unsub"}, cancel: true},
		{name: "N2.F1.silent-link.response-timeout", n: 2, bound: vrt.Budget{F: 1}, faults: env.FaultSet{Silent: true, SilentDrop: true, OnlyTypes: map[byte]bool{env.PUBLISH: true, env.PUBREL: true, env.SUBSCRIBE: true, env.UNSUBSCRIBE: true}}, keep: []bool{true}, phases: []byte{'S', 'N'}, kinds: []string{"p1", "p2", "sub", "unsub"}, rtmo: 2 * time.Second},
		{name: "N2.F1.reentrant-callbacks", n: 2, bound: vrt.Budget{F: 1}, faults: base, keep: []bool{true}, phases: []byte{'B', 'S', 'N'}, kinds: []string{"p1", "p2", "sub"}, reent: true},
		{name: "N2.F1.slow-onerror", n: 2, bound: vrt.Budget{F: 1}, faults: env.FaultSet{LostClose: true, AckLost: true}, keep: []bool{true}, phases: []byte{'S', 'N', 'O'}, kinds: []string{"p1", "p2", "sub"}, slowOE: 2500 * time.Millisecond},
		{name: "N2.F1.S1", n: 2, bound: vrt.Budget{F: 1, S: 1, Total: 2}, faults: base, keep: []bool{true}, phases: []byte{'S', 'N', 'O', 'H'}, kinds: []string{"p1", "p2", "sub"}},
		{name: "manual.N2.F1.S1", n: 2, bound: vrt.Budget{F: 1, S: 1, Total: 2}, faults: base, keep: []bool{true}, phases: []byte{'S', 'N', 'O'}, kinds: []string{"p1", "p2", "sub"}, manual: true},
		{name: "N1.F2.noconnack", n: 1, bound: vrt.Budget{F: 2}, faults: env.FaultSet{NoConnAck: true, LostClose: true, OnlyTypes: map[byte]bool{env.CONNECT: true, env.PUBLISH: true, env.SUBSCRIBE: true}}, keep: []bool{true}, phases: []byte{'B', 'S'}, tmo: 3 * time.Second, kinds: all},
		// the three most expensive quick families last (a time budget cuts from the end)
		{name: "N2.F2", n: 2, bound: vrt.Budget{F: 2}, faults: env.FaultSet{LostClose: true, AckLost: true, ConnRefuse: true}, keep: []bool{true}, phases: []byte{'B', 'H'}, kinds: []string{"p1", "p2"}},
		{name: "N2.F1.P1.S1", n: 2, bound: vrt.Budget{F: 1, P: 1, S: 1, Total: 2}, faults: env.FaultSet{LostClose: true, AckLost: true}, keep: []bool{true}, phases: []byte{'B', 'N'}, kinds: []string{"p1", "p2"}},
		{name: "N2.F2.eof-write-errors", n: 2, bound: vrt.Budget{F: 2}, faults: env.FaultSet{WriteErr: true, LostClose: true}, keep: []bool{true}, phases: []byte{'B', 'S', 'N'}, kinds: []string{"p1", "p2", "sub", "unsub"}, eofw: true},
	}
	quickN := len(fams) // the thorough tier runs the quick families first, unchanged, then the deeper ones
	if c.Thorough() {
		fams = append(fams, []fam{
			{name: "N2.F2.S1", n: 2, bound: vrt.Budget{F: 2, S: 1, Total: 3}, faults: base, keep: []bool{true}, phases: []byte{'S', 'N', 'O', 'H'}, kinds: []string{"p1", "p2", "sub"}},
			{name: "manual.N2.F2.S1", n: 2, bound: vrt.Budget{F: 2, S: 1, Total: 3}, faults: base, keep: []bool{true}, phases: []byte{'S', 'N', 'O', 'C'}, kinds: []string{"p1", "p2", "sub"}, manual: true},
			{name: "N3.F2", n: 3, bound: vrt.Budget{F: 2}, faults: conn, keep: []bool{true}, phases: []byte{'B', 'S', 'N', 'O'}, kinds: []string{"p1", "p2", "sub", "unsub"}},
			{name: "N2.F2.all", n: 2, bound: vrt.Budget{F: 2}, faults: conn, keep: []bool{true, false}, phases: []byte{'B', 'S', 'N', 'O', 'H'}, kinds: all},
			{name: "N2.F3", n: 2, bound: vrt.Budget{F: 3}, faults: conn, keep: []bool{true}, phases: []byte{'B', 'N', 'O'}, kinds: []string{"p1", "p2", "sub"}},
			{name: "N2.F1.P2.S1", n: 2, bound: vrt.Budget{F: 1, P: 2, S: 1, Total: 3}, faults: base, keep: []bool{true}, phases: []byte{'B', 'N', 'O'}, kinds: []string{"p1", "p2", "sub"}},
			{name: "manual.N2.F2", n: 2, bound: vrt.Budget{F: 2}, faults: conn, keep: []bool{true, false}, phases: []byte{'B', 'S', 'N', 'O'}, kinds: all, manual: true},
			{name: "manual.N2.F1.P1.S1", n: 2, bound: vrt.Budget{F: 1, P: 1, S: 1, Total: 2}, faults: base, keep: []bool{true}, phases: []byte{'B', 'N', 'O'}, kinds: []string{"p1", "p2", "sub"}, manual: true},
			{name: "N2.F2.connect-ctx-cancelled", n: 2, bound: vrt.Budget{F: 2}, faults: conn, keep: []bool{true, false}, phases: []byte{'B', 'S', 'N', 'O', 'H'}, kinds: all, cancel: true},
			{name: "N2.F2.silent-link.response-timeout", n: 2, bound: vrt.Budget{F: 2}, faults: env.FaultSet{Silent: true, SilentDrop: true, LostClose: true, OnlyTypes: map[byte]bool{env.PUBLISH: true, env.PUBREL: true, env.SUBSCRIBE: true, env.UNSUBSCRIBE: true}}, keep: []bool{true}, phases: []byte{'B', 'S', 'N'}, kinds: []string{"p1", "p2", "sub", "unsub"}, rtmo: 2 * time.Second},
			{name: "N2.F2.noconnack", n: 2, bound: vrt.Budget{F: 2}, faults: env.FaultSet{NoConnAck: true, LostClose: true, AckLost: true}, keep: []bool{true}, phases: []byte{'B', 'S'}, tmo: 3 * time.Second, kinds: all},
		}...)
	}
	var sample *rcRun
	// several requests accepted during one outage (parked behind the failed one), a second loss while
	// they are being carried out
	{
		c.Bound("parked.F2", "workloads [x settled, y and z submitted during the outage] for x,y,z over {QoS 1, QoS 2, subscribe}; faults request-lost / acknowledgement-lost (closing) F<=2; session kept")
		ks := []string{"p1", "p2", "sub"}
		mk := func(k string, i int, ph byte) rcReq {
			q := rcReq{Kind: k, Phase: ph}
			if k == "sub" {
				q.Subs = []string{fmt.Sprintf("f%d:1", i)}
			} else {
				q.Tag = fmt.Sprintf("m%d", i)
			}
			return q
		}
		for _, x := range ks {
			for _, y := range ks {
				for _, z := range ks {
					reqs := []rcReq{mk(x, 1, 'S'), mk(y, 2, 'O'), mk(z, 3, 'O')}
					var run *rcRun
					sc := &vrt.Scenario{
						Name:  "C01/parked.F2/" + rcName(reqs),
						Bound: vrt.Budget{F: 2},
						Cfg:   vrt.Config{Horizon: int64(300 * time.Second)},
						Body: func() {
							rcExecuteInto(&rcCfg{Reqs: reqs, Faults: env.FaultSet{LostClose: true, AckLost: true}, KeepSession: true}, &run)
							c01Oracle(run)
						},
						Observe: func() uint64 { return run.net.TraceHash() },
					}
					c.Explore(sc)
				}
			}
		}
	}
	for fi, f := range fams {
		deep := fi >= quickN
		c.Bound(f.name, fmt.Sprintf("all workloads of length<=%d over %v x phases %q; faults %+v per client->broker packet; budget %s; session kept %v", f.n, f.kinds, string(f.phases), f.faults, f.bound, f.keep))
		for _, reqs := range rcWorkloads(f.n, f.kinds, f.phases) {
			if !deep && !rcLateOnlyLast(reqs) {
				continue
			}
			for _, keep := range f.keep {
				reqs, keep, f := reqs, keep, f
				var run *rcRun
				sc := &vrt.Scenario{
					Name:  fmt.Sprintf("C01/%s/keep=%v/%s", f.name, keep, rcName(reqs)),
					Bound: f.bound,
					Cfg:   vrt.Config{Horizon: int64(300 * time.Second)},
					Body: func() {
						rcExecuteInto(&rcCfg{Reqs: reqs, Faults: f.faults, KeepSession: keep, ConnTimeout: f.tmo, Manual: f.manual, CancelConnectCtx: f.cancel, RespTimeout: f.rtmo, Reentrant: f.reent, EOFWriteErrors: f.eofw, SlowOnError: f.slowOE}, &run)
						c01Oracle(run)
					},
					Observe: func() uint64 { return run.net.TraceHash() },
				}
				c.Explore(sc)
				if run != nil && len(run.broker.FaultLog) > 0 {
					sample = run
				}
			}
		}
	}
	if sample != nil {
		c.Sample(map[string]any{"workload": rcName(sample.cfg.Reqs), "faults": sample.broker.FaultLog, "wire": sample.net.TraceStrings()})
	}
}

// c01SwapDuringTask: a bare RetryClient whose application installs the next connection (SetClient, then
// Connect, then Retry) while requests are still being carried out on the current, healthy one.
func c01SwapDuringTask(c *Ctx) {
	kinds := []string{"p1", "p2", "sub"}
	c.Bound("swap", fmt.Sprintf("bare RetryClient, session kept: request A in %v submitted on the first connection; 1 s later the application dials, calls SetClient, Connect, Retry (the first connection having been lost 250 ms earlier (ordinary redial) | still being up and closed by the application after the swap | still being up and closed by the broker when it accepts the second CONNECT; request B in %v submitted 0.5 s before SetClient | between SetClient and Connect | after Connect; faults: any one answer of the broker 6 s late (F<=1); P<=1; the application calls Retry once more when everything has settled, then every accepted request must have been acknowledged", kinds, kinds))
	issue := func(rc *mqtt.RetryClient, k, tag string) error {
		bg := vctx.Background()
		switch k {
		case "p1":
			return rc.Publish(bg, &mqtt.Message{Topic: "t", QoS: mqtt.QoS1, Payload: []byte(tag)})
		case "p2":
			return rc.Publish(bg, &mqtt.Message{Topic: "t", QoS: mqtt.QoS2, Payload: []byte(tag)})
		default:
			_, err := rc.Subscribe(bg, mqtt.Subscription{Topic: "f/" + tag, QoS: mqtt.QoS1})
			return err
		}
	}
	ackedOnWire := func(net *env.Net, k, tag string) bool {
		ids := map[string]bool{}
		var evs []env.WireEvent
		for _, e := range net.Trace {
			if e.Pkt == nil && e.Dir == '<' {
				// answers delivered late arrive as raw bytes
				for raw := e.Raw; len(raw) > 0; {
					p, n, err := env.Decode(raw)
					if err != nil {
						break
					}
					evs = append(evs, env.WireEvent{Conn: e.Conn, Dir: '<', Pkt: p})
					raw = raw[n:]
				}
				continue
			}
			evs = append(evs, e)
		}
		for _, e := range evs {
			if e.Pkt == nil {
				continue
			}
			key := fmt.Sprintf("%d/%d", e.Conn, e.Pkt.ID)
			switch {
			case e.Dir == '>' && k != "sub" && e.Pkt.Type == env.PUBLISH && string(e.Pkt.Payload) == tag:
				ids[key] = true
			case e.Dir == '>' && k == "p2" && e.Pkt.Type == env.PUBREL:
				// the identifier is the message's on every connection
				for id := range ids {
					if strings.HasSuffix(id, fmt.Sprintf("/%d", e.Pkt.ID)) {
						ids[key] = true
					}
				}
			case e.Dir == '>' && k == "sub" && e.Pkt.Type == env.SUBSCRIBE && len(e.Pkt.Filters) == 1 && e.Pkt.Filters[0] == "f/"+tag:
				ids[key] = true
			case e.Dir == '<' && ids[key] && (k == "p1" && e.Pkt.Type == env.PUBACK || k == "p2" && e.Pkt.Type == env.PUBCOMP || k == "sub" && e.Pkt.Type == env.SUBACK):
				return true
			}
		}
		return false
	}
	for _, ka := range kinds {
		for _, kb := range kinds {
			for _, bAt := range []string{"before-setclient", "between-setclient-and-connect", "after-connect"} {
				for _, old := range []string{"closed-by-application-after-swap", "taken-over-by-broker", "lost-before-redial"} {
					ka, kb, bAt, old := ka, kb, bAt, old
					takeover := old == "taken-over-by-broker"
					var net *env.Net
					sc := &vrt.Scenario{
						Name:  fmt.Sprintf("C01/swap/A=%s/B=%s@%s/first-connection-%s", ka, kb, bAt, old),
						Bound: vrt.Budget{F: 1, P: 1, Total: 2},
						Cfg:   vrt.Config{Horizon: int64(120 * time.Second)},
						Body: func() {
							net = env.NewNet()
							b := env.NewBroker(net)
							b.Faults = env.FaultSet{LateAck: true}
							b.Takeover = takeover
							bg := vctx.Background()
							var errs []string
							rc := &mqtt.RetryClient{}
							rc.OnError = func(err error) { errs = append(errs, err.Error()) }
							conn1, _ := b.Dial()
							cli1 := &mqtt.BaseClient{Transport: conn1}
							rc.SetClient(bg, cli1)
							if _, err := rc.Connect(bg, "cid", mqtt.WithCleanSession(false)); err != nil {
								vrt.Failf("harness", "connect: %v", err)
								return
							}
							accA := issue(rc, ka, "a")
							var accB error
							vrt.Sleep(int64(500 * time.Millisecond))
							if bAt == "before-setclient" {
								accB = issue(rc, kb, "b")
							}
							vrt.Sleep(int64(250 * time.Millisecond))
							if old == "lost-before-redial" {
								conn1.PeerClose("link lost") // the ordinary redial of an application-owned loop
							}
							vrt.Sleep(int64(250 * time.Millisecond))
							conn2, _ := b.Dial()
							rc.SetClient(bg, &mqtt.BaseClient{Transport: conn2})
							if bAt == "between-setclient-and-connect" {
								accB = issue(rc, kb, "b")
								vrt.Settle()
							}
							if _, err := rc.Connect(bg, "cid", mqtt.WithCleanSession(false)); err != nil {
								vrt.Failf("harness", "second connect: %v", err)
								return
							}
							rc.Retry(bg)
							if bAt == "after-connect" {
								accB = issue(rc, kb, "b")
							}
							cli1.Close()
							vrt.Quiesce()
							rc.Retry(bg) // whatever failed on the first connection after the first Retry call
							vrt.Quiesce()
							for _, x := range []struct {
								k, tag string
								acc    error
							}{{ka, "a", accA}, {kb, "b", accB}} {
								if x.acc == nil && !ackedOnWire(net, x.k, x.tag) {
									vrt.Failf(fmt.Sprintf("c01/lost:swap:%s:%s@%s", x.tag, x.k, map[bool]string{true: bAt, false: "first-connection"}[x.tag == "b"]), "accepted request %s (%s) was never acknowledged; B submitted %s; faults %v; OnError saw %v\n wire:\n  %s", x.tag, x.k, bAt, b.FaultLog, errs, strings.Join(net.TraceStrings(), "\n  "))
								}
							}
							rc.Disconnect(bg)
							vrt.Quiesce()
						},
						Observe: func() uint64 { return net.TraceHash() },
					}
					c.Explore(sc)
				}
			}
		}
	}
}
