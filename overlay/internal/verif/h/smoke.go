//go:build verif

package main

import (
	"fmt"

	mqtt "github.com/at-wat/mqtt-go"
	"github.com/at-wat/mqtt-go/internal/verif/env"
	vctx "github.com/at-wat/mqtt-go/internal/verif/shim/context"
	"github.com/at-wat/mqtt-go/internal/verif/vrt"
)

func init() { register("SMOKE", runSmoke) }

func runSmoke(c *Ctx) {
	for _, p := range []int{0, 1, 2} {
		var net *env.Net
		sc := &vrt.Scenario{
			Name:  fmt.Sprintf("SMOKE/base-pub-q1/P%d", p),
			Bound: vrt.Budget{P: p},
			Body: func() {
				net = env.NewNet()
				b := env.NewBroker(net)
				conn, _ := b.Dial()
				cli := &mqtt.BaseClient{Transport: conn}
				ctx := vctx.Background()
				if _, err := cli.Connect(ctx, "cid"); err != nil {
					vrt.Failf("connect", "connect: %v", err)
					return
				}
				if err := cli.Publish(ctx, &mqtt.Message{Topic: "a", QoS: mqtt.QoS1, Payload: []byte("m1")}); err != nil {
					vrt.Failf("publish", "publish: %v", err)
				}
				if _, err := cli.Subscribe(ctx, mqtt.Subscription{Topic: "a", QoS: mqtt.QoS1}); err != nil {
					vrt.Failf("subscribe", "subscribe: %v", err)
				}
				if err := cli.Disconnect(ctx); err != nil {
					vrt.Failf("disconnect", "disconnect: %v", err)
				}
				vrt.Recv(cli.Done())
				vrt.Quiesce()
				if len(b.Deliveries) != 1 {
					vrt.Failf("deliveries", "deliveries %v", b.Deliveries)
				}
			},
			Observe: func() uint64 { return net.TraceHash() },
		}
		c.Explore(sc)
		if net != nil {
			c.Sample(map[string]any{"scenario": sc.Name, "wire": net.TraceStrings()})
			net = nil
		}
	}
}
