//go:build verif

package main

// C05, client level (parts 6-8): a real BaseClient over the in-memory transport, driven under the
// vrt scheduler (default schedule only) against a scripted peer.  What the client writes is judged
// from the raw bytes of every Transport.Write (env.Conn.Attempts) with the independent codec.

import (
	"bytes"
	"errors"
	"fmt"
	"time"

	mqtt "github.com/at-wat/mqtt-go"
	"github.com/at-wat/mqtt-go/internal/verif/env"
	vctx "github.com/at-wat/mqtt-go/internal/verif/shim/context"
	"github.com/at-wat/mqtt-go/internal/verif/vrt"
)

// c05Exp is one packet the client is expected to write.
type c05Exp struct {
	Type    byte
	Pub     c05Pub
	Conn    c05Conn
	ID      uint16
	AnyID   bool // identifier chosen by the library
	RelPrev bool // PUBREL: identifier must equal the one of the preceding PUBLISH on the wire
	Filters []string
	QoS     []byte
	What    string
}

// c05Rec is one message as seen by the handler.
type c05Rec struct {
	Topic   string
	Payload []byte
	QoS     byte
	Retain  bool
	Dup     bool
	ID      uint16
}

// c05Sess is one client connection with its scripted peer.
type c05Sess struct {
	s    *env.Script
	cli  *mqtt.BaseClient
	exp  []c05Exp
	recs []c05Rec
	ctx  vctx.Context
	stop vctx.CancelFunc
}

func c05Respond(s *env.Script, p *env.Packet) {
	switch p.Type {
	case env.PUBLISH:
		switch p.QoS {
		case 1:
			s.Conn.Send(env.EncAck(env.PUBACK, p.ID), "")
		case 2:
			s.Conn.Send(env.EncAck(env.PUBREC, p.ID), "")
		}
	case env.PUBREL:
		s.Conn.Send(env.EncAck(env.PUBCOMP, p.ID), "")
	case env.SUBSCRIBE:
		s.Conn.Send(env.EncSubAck(p.ID, p.QoSs), "")
	case env.UNSUBSCRIBE:
		s.Conn.Send(env.EncAck(env.UNSUBACK, p.ID), "")
	case env.PINGREQ:
		s.Conn.Send(env.EncPingResp(), "")
	}
}

// c05Open creates a fresh connection, peer and client.  idStart is what the library's random
// start of the packet-identifier counter is made to return.
func c05Open(net *env.Net, idStart int32, maxPayload int) *c05Sess {
	x := &c05Sess{}
	x.s = env.NewScript(net)
	x.s.AutoConnAck = true
	x.s.OnPacket = c05Respond
	x.cli = &mqtt.BaseClient{Transport: x.s.Conn, MaxPayloadLen: maxPayload}
	vrt.W.RandInt31n = func(n int32) int32 { return idStart }
	x.cli.Handle(mqtt.HandlerFunc(func(m *mqtt.Message) {
		x.recs = append(x.recs, c05Rec{Topic: m.Topic, Payload: append([]byte(nil), m.Payload...), QoS: byte(m.QoS), Retain: m.Retain, Dup: m.Dup, ID: m.ID})
	}))
	x.ctx, x.stop = vctx.WithTimeout(vctx.Background(), 30*time.Second)
	return x
}

// connectDefault connects with no options and records the expected CONNECT.  On failure the
// session is already wound down.
func (x *c05Sess) connectDefault() bool {
	x.exp = append(x.exp, c05Exp{Type: env.CONNECT, Conn: c05Conn{Level: 4, ClientID: "c05"}, What: "Connect(\"c05\")"})
	if _, err := x.cli.Connect(x.ctx, "c05"); err != nil {
		x.opFailed("client/connect/error", "Connect(\"c05\") failed: %v", err)
		return false
	}
	return true
}

// finish pings, disconnects, waits for the client to wind down and verifies everything written.
func (x *c05Sess) finish() {
	x.exp = append(x.exp, c05Exp{Type: env.PINGREQ, What: "Ping"})
	if err := x.cli.Ping(x.ctx); err != nil {
		x.opFailed("client/ping/error", "Ping failed: %v", err)
		return
	}
	x.exp = append(x.exp, c05Exp{Type: env.DISCONNECT, What: "Disconnect"})
	if err := x.cli.Disconnect(x.ctx); err != nil {
		x.opFailed("client/disconnect/error", "Disconnect failed: %v", err)
		return
	}
	vrt.Recv(x.cli.Done())
	x.stop()
	vrt.Settle()
	x.verify(false)
}

// abort closes the transport after a failed operation.
func (x *c05Sess) abort() {
	x.cli.Close()
	vrt.Recv(x.cli.Done())
	x.stop()
	vrt.Settle()
}

func c05Wire(att [][]byte) string {
	s := ""
	for i, a := range att {
		if i > 0 {
			s += " | "
		}
		if i >= 12 {
			s += fmt.Sprintf("… %d more", len(att)-i)
			break
		}
		p, _, err := env.Decode(a)
		if err == nil && p != nil {
			s += p.String()
		} else {
			s += "[" + c05HexShort(a) + "]"
		}
	}
	return s
}

// verify judges every Write the client made against the expected packet list.  Specific
// per-packet findings come first; in partial mode (an operation failed half-way) missing writes
// are not judged.
func (x *c05Sess) verify(partial bool) bool {
	att := x.s.Conn.Attempts
	var lastPubID uint16
	for i, a := range att {
		if i >= len(x.exp) {
			break
		}
		e := x.exp[i]
		if bad := c05CheckOne(a, e, lastPubID); bad != nil {
			vrt.Failf("client/"+bad.Key, "write #%d (%s): %s", i, e.What, bad.Msg)
			return false
		}
		if e.Type == env.PUBLISH {
			if p, _, err := env.Decode(a); err == nil {
				lastPubID = p.ID
			}
		}
	}
	if len(x.s.Bad) > 0 {
		vrt.Failf("client/malformed-write", "the peer could not decode what the client wrote: %v; writes: %s", x.s.Bad, c05Wire(att))
		return false
	}
	if len(att) > len(x.exp) || (!partial && len(att) < len(x.exp)) {
		what := "fewer"
		if len(att) > len(x.exp) {
			what = "more"
		}
		vrt.Failf("client/write-count/"+what, "the client made %d writes, %d packets expected; writes: %s", len(att), len(x.exp), c05Wire(att))
		return false
	}
	return true
}

// opFailed is called when an API call that should have succeeded returned an error: what was
// written so far is judged first (a malformed packet is the usual cause and gets its own key);
// only if every write is fine is the error itself reported.
func (x *c05Sess) opFailed(key, format string, a ...any) {
	if x.verify(true) {
		vrt.Failf(key, format, a...)
	}
	x.abort()
}

// c05CheckOne judges one Write: exactly one well-formed packet carrying the expected fields.
func c05CheckOne(raw []byte, e c05Exp, lastPubID uint16) *c05Bad {
	name := env.TypeName(e.Type)
	if len(raw) == 0 {
		return &c05Bad{"empty-write", "zero-length write"}
	}
	if raw[0]>>4 != e.Type {
		return &c05Bad{"unexpected-packet/want-" + name, fmt.Sprintf("wrote [%s], expected a %s", c05HexShort(raw), name)}
	}
	switch e.Type {
	case env.CONNECT:
		return c05CheckConnect(raw, e.Conn)
	case env.PUBLISH:
		return c05CheckPublish(raw, e.Pub)
	case env.SUBSCRIBE, env.UNSUBSCRIBE:
		return c05CheckSubLike(raw, e.Type, e.ID, e.AnyID, e.Filters, e.QoS)
	case env.PUBACK, env.PUBREC, env.PUBREL, env.PUBCOMP:
		id := e.ID
		if e.RelPrev {
			id = lastPubID
		}
		return c05CheckAck(raw, e.Type, id)
	case env.PINGREQ:
		if !bytes.Equal(raw, []byte{0xC0, 0x00}) {
			return &c05Bad{"pingreq/bytes", fmt.Sprintf("PINGREQ written as [%s], must be c0 00", c05HexShort(raw))}
		}
	case env.DISCONNECT:
		if !bytes.Equal(raw, []byte{0xE0, 0x00}) {
			return &c05Bad{"disconnect/bytes", fmt.Sprintf("DISCONNECT written as [%s], must be e0 00", c05HexShort(raw))}
		}
	}
	return nil
}

// c05Scenario runs one scenario and accounts for its operations on the shard that executed it.
func c05Scenario(r *c05Run, part, name string, body func(net *env.Net, ops, nontrivial *int64)) {
	c := r.c
	var net *env.Net
	var ops, nt int64
	ran := false
	sc := &vrt.Scenario{
		Name:  name,
		Bound: vrt.Budget{},
		Cfg:   vrt.Config{Horizon: int64(120e9)},
		Body: func() {
			ran = true
			ops, nt = 0, 0
			net = env.NewNet()
			body(net, &ops, &nt)
		},
		Observe: func() uint64 {
			if net == nil {
				return 0
			}
			return net.TraceHash()
		},
	}
	c.Explore(sc)
	if ran {
		r.add("client_scenarios_"+part, 1)
		r.add("client_ops_"+part, ops)
		c.Res.Evaluations += ops
		c.Res.Distinct += nt
		if net != nil && r.parts["client_sampled_"+part] == 0 && len(c.Res.Samples) < 6 {
			tr := net.TraceStrings()
			if len(tr) > 14 {
				tr = append(tr[:14:14], fmt.Sprintf("… %d more", len(tr)-14))
			}
			r.parts["client_sampled_"+part] = 1
			c.Sample(map[string]any{"scenario": name, "wire": tr})
		}
	}
}

func c05Client(r *c05Run) {
	c05ClientConnect(r)
	c05ClientPublish(r)
	c05ClientSubscribe(r)
	c05ClientInbound(r)
	c05InboundOwnership(r.c)
	c05ClientReject(r)
	delete(r.parts, "client_sampled_connect")
	delete(r.parts, "client_sampled_publish")
	delete(r.parts, "client_sampled_subscribe")
	delete(r.parts, "client_sampled_unsubscribe")
	delete(r.parts, "client_sampled_inbound")
	delete(r.parts, "client_sampled_reject")
}

// ---------------------------------------------------------------------------------------------
// Part 6a: Connect with option combinations

func c05ClientConnect(r *c05Run) {
	type creds struct{ user, pass string }
	cr := []creds{{"", ""}, {"user", ""}, {"user", "pass"}, {"ü€", c05LongPass}, {"", "pass"}}
	wills := c05Wills()
	for wi, will := range wills {
		for ci, cd := range cr {
			will, cd := will, cd
			name := fmt.Sprintf("C05/client/connect/will=%d/creds=%d", wi, ci)
			c05Scenario(r, "connect", name, func(net *env.Net, ops, nt *int64) {
				k := 0
				for _, level := range []byte{4, 3} {
					for _, clean := range []bool{false, true} {
						for _, ka := range []uint16{0, 1, 0xFFFF} {
							for _, cid := range []string{"", "cid", "0123456789abcdefghijklm"} {
								k++
								w := c05Conn{Level: level, Clean: clean, KeepAlive: ka, ClientID: cid, User: cd.user, Pass: cd.pass, Will: will}
								*ops++
								if c05ConnNontrivial(w) {
									*nt++
								}
								c05ConnectOne(net, w, k%2 == 0)
							}
						}
					}
				}
			})
		}
	}
	r.c.Bound("client_connect", "BaseClient.Connect over the scripted peer: will{none, QoS{0,1,2} × retain × payload{empty,\"bye\"}} × credentials{none, user, user+password, UTF-8 user + 120-byte password, password only} (one scenario each) × level{4,3} × clean × keep-alive{0,1,0xFFFF} × client id{\"\",\"cid\",23 chars} (inside the scenario, a fresh connection each), options given through WithUserNamePassword / WithCleanSession / WithKeepAlive / WithWill / WithProtocolLevel (default-valued options alternately omitted and passed explicitly); the CONNECT bytes are judged like the Pack level, then Disconnect must write e0 00")
}

func c05ConnectOne(net *env.Net, w c05Conn, explicit bool) {
	x := c05Open(net, 0, 0)
	var opts []mqtt.ConnectOption
	if w.User != "" || w.Pass != "" || explicit {
		opts = append(opts, mqtt.WithUserNamePassword(w.User, w.Pass))
	}
	if w.Clean || explicit {
		opts = append(opts, mqtt.WithCleanSession(w.Clean))
	}
	if w.KeepAlive != 0 || explicit {
		opts = append(opts, mqtt.WithKeepAlive(w.KeepAlive))
	}
	if w.Will != nil {
		opts = append(opts, mqtt.WithWill(w.Will.msg()))
	}
	if w.Level != 4 || explicit {
		opts = append(opts, mqtt.WithProtocolLevel(mqtt.ProtocolLevel(w.Level)))
	}
	ctx, cancel := vctx.WithTimeout(x.ctx, time.Second)
	_, err := x.cli.Connect(ctx, w.ClientID, opts...)
	cancel()
	in := fmt.Sprintf("%v", w.describe())
	att := x.s.Conn.Attempts
	if len(att) == 0 {
		if err != nil && w.Pass != "" && w.User == "" {
			// refusing a combination the protocol cannot carry, before writing anything, is fine
			x.abort()
			return
		}
		vrt.Failf("client/connect/nothing-written", "Connect wrote nothing (err %v); asked %s", err, in)
		x.abort()
		return
	}
	if bad := c05CheckConnect(att[0], w); bad != nil {
		vrt.Failf("client/"+bad.Key, "Connect options %s: %s", in, bad.Msg)
		x.abort()
		return
	}
	if err != nil {
		vrt.Failf("client/connect/error", "Connect failed although the CONNECT it wrote is well-formed and was accepted: %v; asked %s", err, in)
		x.abort()
		return
	}
	x.exp = append(x.exp, c05Exp{Type: env.CONNECT, Conn: w, What: "Connect " + in}, c05Exp{Type: env.DISCONNECT, What: "Disconnect"})
	if err := x.cli.Disconnect(x.ctx); err != nil {
		x.opFailed("client/disconnect/error", "Disconnect failed: %v", err)
		return
	}
	vrt.Recv(x.cli.Done())
	x.stop()
	vrt.Settle()
	x.verify(false)
}

// ---------------------------------------------------------------------------------------------
// Part 6b: Publish

func c05ClientPayloadLens(topic string, thorough bool) []int {
	set := map[int]bool{}
	var out []int
	for q := byte(0); q <= 1; q++ {
		for _, l := range c05PayloadLens(topic, q, thorough) {
			if !set[l] {
				set[l] = true
				out = append(out, l)
			}
		}
	}
	// insertion order is deterministic (no map iteration)
	return out
}

func c05ClientPublish(r *c05Run) {
	thorough := r.c.Thorough()
	for ti, topic := range c05Topics() {
		for _, pl := range c05ClientPayloadLens(topic, thorough) {
			topic, pl := topic, pl
			payload := r.filler(pl)
			idStart := int32(0)
			if pl%2 == 1 {
				idStart = 0xFFFB // the identifier counter (0xFFFC) wraps through 0 inside the batch
			}
			ids := []uint16{0, 1, 0x00FF, 0x0100, 0xFFFF}
			if pl > 100000 {
				ids = []uint16{0, 0x0100}
			}
			name := fmt.Sprintf("C05/client/publish/topic=%d/plen=%d", ti, pl)
			c05Scenario(r, "publish", name, func(net *env.Net, ops, nt *int64) {
				x := c05Open(net, idStart, 0)
				if !x.connectDefault() {
					return
				}
				for qos := byte(0); qos <= 2; qos++ {
					for _, retain := range []bool{false, true} {
						for _, id := range ids {
							w := c05Pub{Topic: topic, Payload: payload, QoS: qos, Retain: retain, ID: id, AnyID: id == 0}
							*ops++
							if c05PubNontrivial(w) {
								*nt++
							}
							m := &mqtt.Message{Topic: topic, Payload: payload, QoS: mqtt.QoS(qos), Retain: retain, ID: id}
							x.exp = append(x.exp, c05Exp{Type: env.PUBLISH, Pub: w, What: fmt.Sprintf("Publish %v", w.describe())})
							if qos == 2 {
								x.exp = append(x.exp, c05Exp{Type: env.PUBREL, RelPrev: true, What: fmt.Sprintf("PUBREL of Publish %v", w.describe())})
							}
							if err := x.cli.Publish(x.ctx, m); err != nil {
								x.opFailed(fmt.Sprintf("client/publish/error/q%d", qos), "Publish(%v) failed: %v; writes: %s", w.describe(), err, c05Wire(x.s.Conn.Attempts))
								return
							}
						}
					}
				}
				x.finish()
			})
		}
	}
	b := "BaseClient.Publish over the scripted peer (acknowledging): topics {\"a\",\"a/b/c\",\"é\",\"€x\",65535 bytes} × payload lengths {0,1} ∪ {lengths putting the body on B-3…B+2 (QoS 0 and QoS>0 overhead) for B∈{127,16383"
	if thorough {
		b += ",2097151"
	}
	b += "}} (one scenario each) × QoS{0,1,2} × retain × Message.ID{0 (library chooses),1,0x00FF,0x0100,0xFFFF} ({0,0x0100} for payloads over 100 kB), Dup=false; identifier counter started at 1 or 0xFFFC so that it wraps; every Write = exactly one packet; PUBLISH fields equal, id iff QoS>0 and equal to the caller's (non-zero if chosen by the library), DUP=0; QoS 2 is followed by PUBREL (flags 0010) with the id of its PUBLISH; then Ping = c0 00, Disconnect = e0 00"
	r.c.Bound("client_publish", b)
}

// ---------------------------------------------------------------------------------------------
// Part 6c: Subscribe / Unsubscribe

func c05ClientSubscribe(r *c05Run) {
	// one scenario per first entry: every list of length 1..3 starting with it
	var firsts []c05Sub
	for _, f := range c05Filters {
		for q := byte(0); q <= 2; q++ {
			firsts = append(firsts, c05Sub{f, q})
		}
	}
	for fi, first := range firsts {
		first := first
		idStart := int32(0)
		if fi%2 == 1 {
			idStart = 0xFFB0
		}
		name := fmt.Sprintf("C05/client/subscribe/first=%s:q%d", first.Filter, first.QoS)
		c05Scenario(r, "subscribe", name, func(net *env.Net, ops, nt *int64) {
			x := c05Open(net, idStart, 0)
			if !x.connectDefault() {
				return
			}
			failed := false
			c05SubLists(3, func(l []c05Sub) {
				if failed || l[0] != first {
					return
				}
				ms, fs, qs := c05SplitSubs(l)
				*ops++
				if len(l) > 1 || l[0].QoS > 0 {
					*nt++
				}
				x.exp = append(x.exp, c05Exp{Type: env.SUBSCRIBE, AnyID: true, Filters: fs, QoS: qs, What: "Subscribe " + c05SubsString(l)})
				if _, err := x.cli.Subscribe(x.ctx, ms...); err != nil {
					x.opFailed("client/subscribe/error", "Subscribe(%s) failed: %v; writes: %s", c05SubsString(l), err, c05Wire(x.s.Conn.Attempts))
					failed = true
				}
			})
			if failed {
				return
			}
			x.finish()
		})
	}
	for fi, first := range c05Filters {
		first := first
		idStart := int32(0)
		if fi%2 == 1 {
			idStart = 0xFFF0
		}
		name := fmt.Sprintf("C05/client/unsubscribe/first=%s", first)
		c05Scenario(r, "unsubscribe", name, func(net *env.Net, ops, nt *int64) {
			x := c05Open(net, idStart, 0)
			if !x.connectDefault() {
				return
			}
			failed := false
			c05FilterLists(3, func(fs []string) {
				if failed || fs[0] != first {
					return
				}
				*ops++
				if len(fs) > 1 {
					*nt++
				}
				x.exp = append(x.exp, c05Exp{Type: env.UNSUBSCRIBE, AnyID: true, Filters: fs, What: "Unsubscribe " + c05FiltersString(fs)})
				if err := x.cli.Unsubscribe(x.ctx, fs...); err != nil {
					x.opFailed("client/unsubscribe/error", "Unsubscribe(%s) failed: %v; writes: %s", c05FiltersString(fs), err, c05Wire(x.s.Conn.Attempts))
					failed = true
				}
			})
			if failed {
				return
			}
			x.finish()
		})
	}
	r.c.Bound("client_subscribe", "BaseClient.Subscribe: every list of length 1..3 over filters {\"a\",\"a/+\",\"#\",\"é/b\"} × QoS{0,1,2} per entry (1884 calls, one scenario per first entry, SUBACK grants what was asked); BaseClient.Unsubscribe: every list of length 1..3 over the 4 filters (84 calls, one scenario per first filter); identifier counter started at 1 or near 0xFFFF so that it wraps; filters and QoS in order, reserved flags 0010, identifier non-zero; then Ping, Disconnect")
}

// ---------------------------------------------------------------------------------------------
// Part 7: inbound PUBLISH reaches the handler unchanged

func c05ClientInbound(r *c05Run) {
	topics := []string{"a", "a/b/c", "é", "€x"}
	lens := []int{0, 1, 127, 128, 200, 16384}
	ids := []uint16{1, 0x00FF, 0x0100, 0xFFFF}
	for ti, topic := range topics {
		for _, pl := range lens {
			topic, pl := topic, pl
			payload := r.filler(pl)
			name := fmt.Sprintf("C05/client/inbound/topic=%d/plen=%d", ti, pl)
			c05Scenario(r, "inbound", name, func(net *env.Net, ops, nt *int64) {
				x := c05Open(net, 0, 0)
				if !x.connectDefault() {
					return
				}
				for qos := byte(0); qos <= 2; qos++ {
					for _, retain := range []bool{false, true} {
						for _, dup := range []bool{false, true} {
							if qos == 0 && dup {
								continue // DUP must be 0 on QoS 0 [MQTT-3.3.1-2]: not a packet a broker may send
							}
							for ii, id := range ids {
								if qos == 0 && ii > 0 {
									continue // a QoS 0 PUBLISH carries no identifier: one packet only
								}
								*ops++
								if qos > 0 || retain || pl > 120 {
									*nt++
								}
								before := len(x.recs)
								x.s.Send(env.EncPublish(topic, payload, qos, id, dup, retain))
								vrt.Settle()
								in := fmt.Sprintf("PUBLISH topic=%q payload_len=%d qos=%d retain=%v dup=%v id=%#04x", topic, pl, qos, retain, dup, id)
								switch qos {
								case 1:
									x.exp = append(x.exp, c05Exp{Type: env.PUBACK, ID: id, What: "PUBACK for inbound " + in})
								case 2:
									x.exp = append(x.exp, c05Exp{Type: env.PUBREC, ID: id, What: "PUBREC for inbound " + in})
									x.s.Send(env.EncAck(env.PUBREL, id))
									vrt.Settle()
									x.exp = append(x.exp, c05Exp{Type: env.PUBCOMP, ID: id, What: "PUBCOMP for inbound " + in})
								}
								got := x.recs[before:]
								if len(got) == 0 {
									vrt.Failf(fmt.Sprintf("inbound/not-delivered/q%d", qos), "%s was not handed to the handler (connection down: %v, client error: %v)", in, x.s.Conn.Down(), x.cli.Err())
									x.abort()
									return
								}
								for _, g := range got {
									var bad string
									switch {
									case g.Topic != topic:
										bad = "topic"
									case !bytes.Equal(g.Payload, payload):
										bad = "payload"
									case g.QoS != qos:
										bad = "qos"
									case g.Retain != retain:
										bad = "retain"
									case g.Dup != dup:
										bad = "dup"
									case qos > 0 && g.ID != id:
										bad = "id"
									}
									if bad != "" {
										vrt.Failf(fmt.Sprintf("inbound/%s/q%d", bad, qos), "%s reached the handler as topic=%q payload_len=%d qos=%d retain=%v dup=%v id=%#04x (%s differs)", in, g.Topic, len(g.Payload), g.QoS, g.Retain, g.Dup, g.ID, bad)
										x.abort()
										return
									}
								}
							}
						}
					}
				}
				x.finish()
			})
		}
	}
	r.c.Bound("client_inbound", "PUBLISH encoded by env.EncPublish and sent by the scripted peer to a connected BaseClient with a recording handler: topics {\"a\",\"a/b/c\",\"é\",\"€x\"} × payload length {0,1,127,128,200,16384} (one scenario each) × {QoS 0 × retain; QoS{1,2} × retain × dup × id{1,0x00FF,0x0100,0xFFFF}} (816 distinct packets; QoS 0 has no identifier and may not carry DUP); QoS 2 is released by PUBREL; the handler must see exactly topic/payload/QoS/retain/dup (and id for QoS>0); the PUBACK / PUBREC / PUBCOMP the client writes are judged too")
}

// ---------------------------------------------------------------------------------------------
// Part 8: messages the protocol cannot carry are rejected before anything is written

// c05TryPublish calls Publish and turns a library panic into a value, so that "panics instead of
// rejecting" gets a specific key.
func c05TryPublish(x *c05Sess, m *mqtt.Message) (err error, panicked any) {
	defer func() {
		if p := recover(); p != nil {
			panicked = p
		}
	}()
	return x.cli.Publish(x.ctx, m), nil
}

func c05ClientReject(r *c05Run) {
	c05Scenario(r, "reject", "C05/client/reject/qos", func(net *env.Net, ops, nt *int64) {
		x := c05Open(net, 0, 0)
		if !x.connectDefault() {
			return
		}
		for q := 3; q <= 255; q++ {
			for v := 0; v < 2; v++ {
				*ops++
				*nt++
				m := &mqtt.Message{Topic: "a", QoS: mqtt.QoS(q)}
				if v == 1 {
					m = &mqtt.Message{Topic: "a/b/c", QoS: mqtt.QoS(q), Payload: []byte("x"), Retain: true, ID: 7}
				}
				before, gotBefore := len(x.s.Conn.Attempts), len(x.s.Got)
				err, pv := c05TryPublish(x, m)
				if pv != nil {
					vrt.Failf("reject/qos/panic", "Publish with QoS %d panicked (%v) instead of returning ErrInvalidQoS", q, pv)
					x.abort()
					return
				}
				wrote := len(x.s.Conn.Attempts) - before
				if wrote != 0 || len(x.s.Got) != gotBefore {
					vrt.Failf("reject/qos/bytes-written", "Publish with QoS %d wrote %d time(s) to the transport (err %v): %s", q, wrote, err, c05Wire(x.s.Conn.Attempts[before:]))
					x.abort()
					return
				}
				if !errors.Is(err, mqtt.ErrInvalidQoS) {
					vrt.Failf("reject/qos/error", "Publish with QoS %d returned %v, want ErrInvalidQoS", q, err)
					x.abort()
					return
				}
			}
		}
		x.finish()
	})
	for _, n := range []int{1, 2, 128, 16384} {
		n := n
		big := r.filler(2*n + 2)
		c05Scenario(r, "reject", fmt.Sprintf("C05/client/reject/maxpayload=%d", n), func(net *env.Net, ops, nt *int64) {
			x := c05Open(net, 0, n)
			if !x.connectDefault() {
				return
			}
			over := []int{n + 1, n + 2, 2*n + 1}
			under := []int{0}
			if n-1 > 0 {
				under = append(under, n-1)
			}
			if n/2 > 0 && n/2 != n-1 {
				under = append(under, n/2)
			}
			for qos := byte(0); qos <= 2; qos++ {
				for _, l := range over {
					*ops++
					*nt++
					before, gotBefore := len(x.s.Conn.Attempts), len(x.s.Got)
					err, pv := c05TryPublish(x, &mqtt.Message{Topic: "a", QoS: mqtt.QoS(qos), Payload: big[:l]})
					if pv != nil {
						vrt.Failf("reject/payload/panic", "MaxPayloadLen=%d: Publish of a %d-byte payload (QoS %d) panicked (%v) instead of returning ErrPayloadLenExceeded", n, l, qos, pv)
						x.abort()
						return
					}
					wrote := len(x.s.Conn.Attempts) - before
					if wrote != 0 || len(x.s.Got) != gotBefore {
						vrt.Failf("reject/payload/bytes-written", "MaxPayloadLen=%d: Publish of a %d-byte payload (QoS %d) wrote %d time(s) to the transport (err %v)", n, l, qos, wrote, err)
						x.abort()
						return
					}
					if !errors.Is(err, mqtt.ErrPayloadLenExceeded) {
						vrt.Failf("reject/payload/error", "MaxPayloadLen=%d: Publish of a %d-byte payload (QoS %d) returned %v, want ErrPayloadLenExceeded", n, l, qos, err)
						x.abort()
						return
					}
				}
				for _, l := range under {
					*ops++
					w := c05Pub{Topic: "a", Payload: big[:l], QoS: qos, AnyID: true}
					before := len(x.s.Conn.Attempts)
					x.exp = append(x.exp, c05Exp{Type: env.PUBLISH, Pub: w, What: fmt.Sprintf("Publish %v under MaxPayloadLen=%d", w.describe(), n)})
					if qos == 2 {
						x.exp = append(x.exp, c05Exp{Type: env.PUBREL, RelPrev: true, What: "PUBREL"})
					}
					if err := x.cli.Publish(x.ctx, &mqtt.Message{Topic: "a", QoS: mqtt.QoS(qos), Payload: big[:l]}); err != nil {
						if len(x.s.Conn.Attempts) == before {
							vrt.Failf("reject/payload/under-limit-refused", "MaxPayloadLen=%d: Publish of a %d-byte payload (QoS %d) was refused: %v", n, l, qos, err)
							x.abort()
							return
						}
						x.opFailed(fmt.Sprintf("client/publish/error/q%d", qos), "MaxPayloadLen=%d: Publish of a %d-byte payload (QoS %d) failed: %v", n, l, qos, err)
						return
					}
				}
			}
			x.finish()
		})
	}
	r.c.Bound("client_reject", "connected BaseClient: Publish with QoS 3..255 × {empty message, retained message with payload and id} must return ErrInvalidQoS with zero Transport.Write calls; MaxPayloadLen N∈{1,2,128,16384} × QoS{0,1,2}: payload lengths N+1, N+2, 2N+1 must return ErrPayloadLenExceeded with zero writes, lengths 0, N/2, N-1 (< N) must be written faithfully; length == N is not judged (the statement says \"over\")")
}
