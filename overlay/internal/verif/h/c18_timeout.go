//go:build verif

package main

import (
	"errors"
	"fmt"
	"time"

	mqtt "github.com/at-wat/mqtt-go"
	"github.com/at-wat/mqtt-go/internal/verif/env"
	"github.com/at-wat/mqtt-go/internal/verif/vrt"
)

// C18 — with a response timeout configured, a silent broker cannot stall the retrying client.

func init() { register("C18", runC18) }

const c18Timeout = 2 * time.Second

func c18Oracle(r *rcRun) {
	if !r.connectOK {
		return
	}
	// every accepted request is finally acknowledged (a silent connection must not stall it for ever)
	for i, q := range r.cfg.Reqs {
		if !r.submitted[i] || !r.accepted[i] || q.Kind == "p0" {
			continue
		}
		if ok, why := r.ackedOnWire(i); !ok {
			vrt.Failf(fmt.Sprintf("c18/stalled:%s:faults=%s", q.Kind, r.faultKinds()), "request #%d %s is still unacknowledged at quiescence although a response timeout of %v is configured: %s\n OnError: %v\n%s", i, q, c18Timeout, why, r.onErr, r.summary())
		}
	}
	// every silently dropped answer: the connection is closed within the timeout and OnError saw a RequestTimeoutError
	nSilent := 0
	for pos, e := range r.net.Trace {
		if !e.Sent() || e.Pkt == nil || !(e.Note == "processed, responses dropped silently" || e.Note == "DROPPED silently") {
			continue
		}
		nSilent++
		closedAt := int64(-1)
		for _, x := range r.net.Trace[pos:] {
			if x.Conn == e.Conn && x.Dir == '!' && x.Note == "closed by client" {
				closedAt = x.T
				break
			}
		}
		if closedAt < 0 {
			vrt.Failf(fmt.Sprintf("c18/silent-connection-kept:%s", env.TypeName(e.Pkt.Type)), "connection %d stayed open although %s got no answer\n%s", e.Conn, e.Pkt, r.summary())
		} else if closedAt-e.T > int64(c18Timeout) {
			vrt.Failf(fmt.Sprintf("c18/closed-too-late:%s", env.TypeName(e.Pkt.Type)), "connection %d was closed %v after the unanswered %s (timeout %v)\n%s", e.Conn, time.Duration(closedAt-e.T), e.Pkt, c18Timeout, r.summary())
		}
	}
	nTimeoutErr := 0
	for _, err := range r.onErr {
		var te *mqtt.RequestTimeoutError
		if errors.As(err, &te) {
			nTimeoutErr++
		}
	}
	if nTimeoutErr < nSilent {
		vrt.Failf("c18/timeout-not-reported", "%d answers were withheld but OnError received only %d RequestTimeoutError values (%v)\n%s", nSilent, nTimeoutErr, r.onErr, r.summary())
	}
}

func runC18(c *Ctx) {
	faults := env.FaultSet{Silent: true, SilentDrop: true, OnlyTypes: map[byte]bool{env.PUBLISH: true, env.PUBREL: true, env.SUBSCRIBE: true, env.UNSUBSCRIBE: true}}
	f := 2
	if c.Thorough() {
		f = 3
	}
	var wls [][]rcReq
	for _, k := range []string{"p1", "p2", "sub", "unsub"} {
		q := rcReq{Kind: k, Phase: 'S'}
		switch k {
		case "p1", "p2":
			q.Tag = "m1"
		case "sub":
			q.Subs = []string{"a:1"}
		case "unsub":
			q.Subs = []string{"a"}
		}
		wls = append(wls, []rcReq{q})
		q2 := q
		q2.Phase = 'B'
		wls = append(wls, []rcReq{q2})
		wls = append(wls, []rcReq{q, {Kind: "p1", Tag: "m2", Phase: 'S'}})
	}
	c.Bound("workloads", fmt.Sprintf("%d workloads (QoS 1 publish, QoS 2 publish (either phase), subscribe, unsubscribe; alone, before Connect, followed by a second publish); ResponseTimeout %v, reconnect wait 1 s; faults %+v (answer withheld, link stays up) on first transmissions and retransmissions, F<=%d; T<=1", len(wls), c18Timeout, faults, f))
	var sample *rcRun
	for wi, reqs := range append(wls, wls[0], wls[9], wls[0], wls[5], wls[0], wls[6], wls[0], wls[3], wls[0], wls[3]) {
		reqs := reqs
		late := wi >= len(wls) && wi < len(wls)+2        // ResponseTimeout is assigned to the RetryClient only after Connect returned
		cancelCtx := wi >= len(wls)+8                    // the context given to Connect is cancelled as soon as Connect has returned
		reuse := wi >= len(wls)+6 && !cancelCtx          // the dialer hands out the same *BaseClient with a fresh transport every time
		reent := wi >= len(wls)+4 && !reuse              // OnError and ConnState call back into the client
		pipe := wi >= len(wls)+2 && !reent && !cancelCtx // the transport reports io.ErrClosedPipe after a local Close (default: socket-style net.ErrClosed)
		var r *rcRun
		sc := &vrt.Scenario{
			Name:  fmt.Sprintf("C18/F%d/late-config=%v/pipe-errors=%v/reentrant-callbacks=%v/same-baseclient-reused=%v/connect-ctx-cancelled=%v/%s", f, late, pipe, reent, reuse, cancelCtx, rcName(reqs)),
			Bound: vrt.Budget{F: f, T: 1},
			Cfg:   vrt.Config{Horizon: int64(120 * time.Second), EarlyTimers: true},
			Body: func() {
				rcExecuteInto(&rcCfg{Reqs: reqs, Faults: faults, KeepSession: true, RespTimeout: c18Timeout, RespTimeoutLate: late, PipeErrors: pipe, Reentrant: reent, ReuseBase: reuse, CancelConnectCtx: cancelCtx}, &r)
				c18Oracle(r)
			},
			Observe: func() uint64 { return r.net.TraceHash() },
		}
		c.Explore(sc)
		if r != nil && len(r.broker.FaultLog) > 0 {
			sample = r
		}
	}
	if sample != nil {
		c.Sample(map[string]any{"workload": rcName(sample.cfg.Reqs), "faults": sample.broker.FaultLog, "on_error": fmt.Sprint(sample.onErr), "wire": sample.net.TraceStrings()})
	}
}
