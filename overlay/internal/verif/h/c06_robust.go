//go:build verif

package main

// C06 — arbitrary broker bytes never crash the client; malformed input ends the link.
//
// Three parts (DESIGN.md §3 C06):
//
//	(a) parser level   : every inbound Parse function on every (flag, body) of a bounded space;
//	(b) readPacket level: every byte stream of a bounded space through readPacket;
//	(c) client level   : a real BaseClient fed k well-formed PUBLISH packets and then one malformed
//	                     packet of every category the property statement lists (c06_client.go).
//
// The reference deciding what is malformed is the independent codec env.Decode.
//
// Inputs on which a defective library is expected to die of an *unrecoverable* runtime error
// (a length field with more than four bytes makes readPacket ask for tens of GB) are all given to
// the last shard and evaluated at its very end, so that the fatal crash of that one process (which
// the coordinator attributes to the announced input) does not erase what the other shards found.

import (
	"bytes"
	"encoding/hex"
	"fmt"
	"io"
	"runtime"
	"strings"

	mqtt "github.com/at-wat/mqtt-go"
	"github.com/at-wat/mqtt-go/internal/verif/env"
)

func init() { register("C06", runC06) }

// c06MaxPacket is the largest remaining length of MQTT 3.1.1 (section 2.2.3).
const c06MaxPacket = 268435455

var c06InboundTypes = []byte{env.CONNACK, env.PUBLISH, env.PUBACK, env.PUBREC, env.PUBREL, env.PUBCOMP, env.SUBACK, env.UNSUBACK, env.PINGRESP}

func runC06(c *Ctx) {
	if c.Res.Parts == nil {
		c.Res.Parts = map[string]any{}
	}
	if c.Only != "" { // replay of a client-level scenario
		c06ClientPart(c, true)
		c06ClientPart(c, false)
		c06InFlight(c)
		return
	}
	if !mqtt.VerifHasCodec {
		c.Note("C06: the white-box wrapper around readPacket / Parse does not compile against this tree; the parser-level enumeration is skipped, only the client-level parts (bytes fed to real clients) are judged")
		c06ClientPart(c, false)
		c06InFlight(c)
		c06ClientPart(c, true)
		Announce("")
		return
	}
	c06ParserPart(c)
	c06ClientPart(c, false)
	c06InFlight(c)
	deferred := c06ReadPacketPart(c)
	// last shard only, at the very end: the inputs a defective library may die on
	c06ClientPart(c, true)
	c06ReadPacketDeferred(c, deferred)
	c06HugePacket(c)
	Announce("")
}

func c06Add(c *Ctx, k string, n int64) {
	old, _ := c.Res.Parts[k].(float64)
	c.Res.Parts[k] = old + float64(n)
}

// c06LastShard reports whether this process is the one that evaluates the crash-prone inputs.
func c06LastShard(c *Ctx) bool { return c.NShards <= 1 || c.Shard == c.NShards-1 }

// c06PanicMsg renders a recovered panic value without input-specific numbers, so that keys
// name the defect (type + kind of runtime error), not the individual input.
func c06PanicMsg(r any) string {
	s := fmt.Sprint(r)
	var sb strings.Builder
	inNum := false
	for i := 0; i < len(s); i++ {
		ch := s[i]
		if ch >= '0' && ch <= '9' {
			if !inNum {
				sb.WriteByte('N')
			}
			inNum = true
			continue
		}
		inNum = false
		sb.WriteByte(ch)
	}
	out := sb.String()
	if len(out) > 120 {
		out = out[:120]
	}
	return out
}

// c06Odometer enumerates all strings of exactly n symbols over alpha in lexicographic order.
// next returns false after the last one.
type c06Odometer struct {
	alpha []byte
	idx   []int
	buf   []byte
}

func c06NewOdometer(alpha []byte, n int) *c06Odometer {
	o := &c06Odometer{alpha: alpha, idx: make([]int, n), buf: make([]byte, n)}
	for i := range o.buf {
		o.buf[i] = alpha[0]
	}
	return o
}

func (o *c06Odometer) next() bool {
	for p := len(o.idx) - 1; p >= 0; p-- {
		o.idx[p]++
		if o.idx[p] < len(o.alpha) {
			o.buf[p] = o.alpha[o.idx[p]]
			return true
		}
		o.idx[p] = 0
		o.buf[p] = o.alpha[0]
	}
	return false
}

func c06Pow(b, e int) int64 {
	r := int64(1)
	for i := 0; i < e; i++ {
		r *= int64(b)
	}
	return r
}

// c06StrictlyWellFormed reports whether a packet accepted by the reference decoder is free of
// every MQTT 3.1.1 rule the reference does not itself enforce (so that a library rejecting the
// packet would certainly be wrong).
func c06StrictlyWellFormed(p *env.Packet) bool {
	if !p.MinimalLen {
		return false
	}
	switch p.Type {
	case env.CONNACK:
		if p.ReturnCode > 5 || (p.SessionPresent && p.ReturnCode != 0) {
			return false
		}
	case env.PUBLISH:
		if p.Topic == "" || strings.ContainsAny(p.Topic, "+#") {
			return false
		}
		if p.QoS == 0 && p.Dup {
			return false
		}
		if p.QoS > 0 && p.ID == 0 {
			return false
		}
	case env.PUBACK, env.PUBREC, env.PUBREL, env.PUBCOMP, env.UNSUBACK:
		if p.ID == 0 {
			return false
		}
	case env.SUBACK:
		if p.ID == 0 || len(p.Codes) == 0 {
			return false
		}
	}
	return true
}

// ---------------------------------------------------------------------------
// (a) parser level

func c06SafeParse(typ, flag byte, body []byte) (err error, pan any) {
	defer func() {
		if r := recover(); r != nil {
			pan = r
		}
	}()
	_, err = mqtt.VerifParse(typ, flag, body)
	return err, nil
}

func c06ParserPart(c *Ctx) {
	maxLen := 4
	if c.Thorough() {
		maxLen = 5
	}
	alpha := []byte{0x00, 0x01, 0x02, 0x7F, 0x80, 0xFF, 'a', '/'}
	var total int64
	for l := 0; l <= maxLen; l++ {
		total += c06Pow(len(alpha), l)
	}
	total *= int64(len(c06InboundTypes)) * 16
	c.Bound("a_parser", fmt.Sprintf("VerifParse(type, flag, body): 9 inbound types x flags 0..15 x all bodies of length <= %d over {00,01,02,7F,80,FF,'a','/'} = %d inputs; oracle: no panic; a packet the reference decoder accepts (and that breaks no rule the reference leaves unchecked) is not rejected", maxLen, total))
	var i, evals, malformed, accepted, rejected int64
	sampled := false
	for _, typ := range c06InboundTypes {
		for flag := byte(0); flag < 16; flag++ {
			Announce(fmt.Sprintf("parse:%s flag=%d", env.TypeName(typ), flag))
			for l := 0; l <= maxLen; l++ {
				od := c06NewOdometer(alpha, l)
				for more := true; more; more = od.next() {
					i++
					if !c.Mine(i) {
						continue
					}
					if evals&0x3FFF == 0 && c.Expired() {
						c.Res.Incomplete = append(c.Res.Incomplete, "C06/a_parser")
						c06Add(c, "a_parser_inputs", evals)
						return
					}
					evals++
					body := append([]byte(nil), od.buf...)
					pkt := make([]byte, 0, 2+l)
					pkt = append(pkt, typ<<4|flag, byte(l))
					pkt = append(pkt, body...)
					p, _, derr := env.Decode(pkt)
					if derr != nil {
						malformed++
					}
					err, pan := c06SafeParse(typ, flag, body)
					if pan != nil {
						c.EnumFail("a_parser", "parse-panic:"+env.TypeName(typ)+":"+c06PanicMsg(pan),
							fmt.Sprintf("%s.Parse(flag=%#x, body=% x) panicked: %v (reference decoder: %v)", env.TypeName(typ), flag, body, pan, derr),
							map[string]any{"type": env.TypeName(typ), "flag": flag, "body_hex": hex.EncodeToString(body)})
						continue
					}
					if err != nil {
						rejected++
					} else {
						accepted++
					}
					if derr == nil && err != nil && c06StrictlyWellFormed(p) {
						c.EnumFail("a_parser", "parse-rejects-wellformed:"+env.TypeName(typ),
							fmt.Sprintf("%s.Parse(flag=%#x, body=% x) = %v, but the packet is well-formed: %s", env.TypeName(typ), flag, body, err, p),
							map[string]any{"type": env.TypeName(typ), "flag": flag, "body_hex": hex.EncodeToString(body)})
					}
					if !sampled && derr != nil && l == maxLen {
						sampled = true
						c.Sample(map[string]any{"part": "a_parser", "type": env.TypeName(typ), "flag": flag, "body_hex": hex.EncodeToString(body), "reference": derr.Error(), "parser_error": fmt.Sprint(err)})
					}
				}
			}
		}
	}
	c.Res.Evaluations += evals
	c.Res.Distinct += malformed
	c06Add(c, "a_parser_inputs", evals)
	c06Add(c, "a_parser_reference_malformed", malformed)
	c06Add(c, "a_parser_lib_accepted", accepted)
	c06Add(c, "a_parser_lib_rejected", rejected)
}

// ---------------------------------------------------------------------------
// (b) readPacket level

// c06Reader serves a fixed stream, then io.EOF, and records the largest buffer it was asked to fill.
type c06Reader struct {
	b   []byte
	max int
}

func (r *c06Reader) Read(p []byte) (int, error) {
	if len(p) > r.max {
		r.max = len(p)
	}
	if len(r.b) == 0 {
		return 0, io.EOF
	}
	n := copy(p, r.b)
	r.b = r.b[n:]
	return n, nil
}

func c06SafeRead(r io.Reader) (t, f byte, body []byte, err error, pan any) {
	defer func() {
		if x := recover(); x != nil {
			pan = x
		}
	}()
	t, f, body, err = mqtt.VerifReadPacket(r)
	return
}

// c06BigLen is the announced remaining length from which a stream counts as "big": the library may
// legitimately allocate that much before it notices the truncation, which costs ~0.13 ms per MiB,
// so big streams are enumerated over a reduced set of first bytes / trailing bytes (see the bound).
const c06BigLen = 1 << 21

type c06StreamCounters struct {
	evals, malformed, truncated, complete, big, bigSkipped, overlong int64
}

func c06EvalStream(c *Ctx, st []byte, cnt *c06StreamCounters, hexbuf []byte) {
	n := hex.Encode(hexbuf, st)
	Announce("readPacket:" + string(hexbuf[:n]))
	cnt.evals++
	rl, used, lerr := 0, 0, error(env.ErrIncomplete)
	if len(st) >= 1 {
		rl, used, lerr = env.DecodeRemLen(st[1:])
	}
	overlong := false
	completeFrame := false
	switch {
	case lerr == env.ErrIncomplete:
		cnt.truncated++
	case lerr != nil:
		cnt.malformed++
		overlong = true
	case len(st) < 1+used+rl:
		cnt.truncated++
	default:
		cnt.complete++
		completeFrame = true
	}
	r := &c06Reader{b: st}
	t, f, body, err, pan := c06SafeRead(r)
	in := map[string]any{"stream_hex": string(hexbuf[:n])}
	if pan != nil {
		c.EnumFail("b_readpacket", "readpacket-panic:"+c06PanicMsg(pan),
			fmt.Sprintf("readPacket on stream % x (then EOF) panicked: %v", st, pan), in)
		return
	}
	if r.max > c06MaxPacket {
		c.EnumFail("b_readpacket", "readpacket-oversize-read",
			fmt.Sprintf("readPacket on stream % x (then EOF) asked the transport to fill a buffer of %d bytes; the largest MQTT packet body is %d", st, r.max, c06MaxPacket), in)
	}
	if overlong && err == nil {
		c.EnumFail("b_readpacket", "readpacket-accepts-overlong-length",
			fmt.Sprintf("readPacket on stream % x returned a packet (type %#x, %d body bytes) although the remaining length field has more than 4 bytes", st, t, len(body)), in)
	}
	if completeFrame && len(env.EncodeRemLen(rl)) == used {
		wantBody := st[1+used : 1+used+rl]
		if err != nil {
			c.EnumFail("b_readpacket", "readpacket-rejects-complete-frame",
				fmt.Sprintf("readPacket on stream % x returned error %v although the stream starts with a complete frame (remaining length %d)", st, err, rl), in)
		} else if t != st[0]&0xF0 || f != st[0]&0x0F || !bytes.Equal(body, wantBody) {
			c.EnumFail("b_readpacket", "readpacket-misframes",
				fmt.Sprintf("readPacket on stream % x returned type %#x flag %#x body % x, want type %#x flag %#x body % x", st, t, f, body, st[0]&0xF0, st[0]&0x0F, wantBody), in)
		}
	}
}

// c06ReadPacketPart enumerates the streams; it returns the over-long-length streams whose
// evaluation is deferred to the end of the last shard (nil in the other shards).
func c06ReadPacketPart(c *Ctx) (deferred [][]byte) {
	maxLen := 6
	if c.Thorough() {
		maxLen = 7
	}
	alpha := []byte{0x00, 0x01, 0x02, 0x04, 0x7F, 0x80, 0xFF, 'a'}
	quickFlags := []byte{0, 2, 3, 8, 15}
	var reduced []byte // first bytes of the quick tier: 16 types x 5 flags
	for t := 0; t < 16; t++ {
		for _, f := range quickFlags {
			reduced = append(reduced, byte(t<<4)|f)
		}
	}
	inReduced := [256]bool{}
	for _, b := range reduced {
		inReduced[b] = true
	}
	first := reduced
	bigFirst := inReduced
	bigTrail := 0
	if c.Thorough() {
		first = make([]byte, 256)
		for i := range first {
			first[i] = byte(i)
		}
		bigTrail = 1
	}
	var total int64 = 1
	for l := 1; l <= maxLen; l++ {
		total += int64(len(first)) * c06Pow(len(alpha), l-1)
	}
	firstDesc := "all 256 values"
	bigDesc := "16 types x flags {0,2,3,8,15}, at most 1 byte after the length field"
	if !c.Thorough() {
		firstDesc = "16 types x flags {0,2,3,8,15}"
		bigDesc = "16 types x flags {0,2,3,8,15}, no byte after the length field"
	}
	c.Bound("b_readpacket", fmt.Sprintf("VerifReadPacket on every byte stream (then EOF) of length <= %d: byte 0 in %s, other bytes over {00,01,02,04,7F,80,FF,'a'} = %d streams, covering 1..%d-byte length fields and truncation at every position; of the streams whose (reference-decoded, well-formed) length field announces >= 2 MiB only those with byte 0 in %s are evaluated (parts.b_big_not_evaluated counts the rest); oracle: no panic, no fatal error, largest single Read request <= 268435455, over-long length field => error, minimally-encoded complete frame => returned unchanged", maxLen, firstDesc, total, maxLen-1, bigDesc))
	var cnt c06StreamCounters
	hexbuf := make([]byte, 2*maxLen+2)
	last := c06LastShard(c)
	var i int64
	sampled := false
	expired := false
	eval := func(st []byte) {
		// over-long length field per the reference: at least 5 bytes and bytes 1..4 all have the continuation bit
		if len(st) >= 5 && st[1]&st[2]&st[3]&st[4]&0x80 != 0 {
			cnt.overlong++
			if last {
				deferred = append(deferred, append([]byte(nil), st...))
			}
			return
		}
		i++
		if !c.Mine(i) {
			return
		}
		if len(st) >= 5 {
			if rl, used, err := env.DecodeRemLen(st[1:]); err == nil && rl >= c06BigLen {
				cnt.big++
				if !bigFirst[st[0]] || len(st)-1-used > bigTrail {
					cnt.bigSkipped++
					return
				}
			}
		}
		c06EvalStream(c, st, &cnt, hexbuf)
		if !sampled && len(st) == maxLen && st[1] == 0x80 {
			sampled = true
			_, _, derr := env.Decode(st)
			c.Sample(map[string]any{"part": "b_readpacket", "stream_hex": hex.EncodeToString(st), "reference": fmt.Sprint(derr)})
		}
	}
	eval(nil)
	st := make([]byte, 0, maxLen)
outer:
	for l := 1; l <= maxLen; l++ {
		for _, b0 := range first {
			od := c06NewOdometer(alpha, l-1)
			for more := true; more; more = od.next() {
				if i&0x3FFF == 0 && c.Expired() {
					expired = true
					break outer
				}
				st = append(append(st[:0], b0), od.buf...)
				eval(st)
			}
		}
	}
	if expired {
		c.Res.Incomplete = append(c.Res.Incomplete, "C06/b_readpacket")
	}
	// long and non-terminating length fields: 5..12 continuation bytes, then nothing or a final byte
	var nLong int64
	for _, b0 := range []byte{0x00, 0x30, 0xD0, 0xFF} {
		for n := 5; n <= 12; n++ {
			od := c06NewOdometer([]byte{0x80, 0xFF}, n)
			for more := true; more; more = od.next() {
				for _, term := range []int{-1, 0x00, 0x01, 0x7F} {
					nLong++
					if !last {
						continue
					}
					x := append([]byte{b0}, od.buf...)
					if term >= 0 {
						x = append(x, byte(term))
					}
					deferred = append(deferred, x)
				}
			}
		}
	}
	c.Bound("b_readpacket_long_length_fields", fmt.Sprintf("additionally every stream {00,30,D0,FF} x n in 5..12 continuation bytes over {80,FF} x {no further byte, 00, 01, 7F} = %d streams (non-terminating and very long length fields)", nLong))
	cnt.overlong += nLong
	Announce("")
	c.Res.Evaluations += cnt.evals
	c.Res.Distinct += cnt.malformed + cnt.truncated
	c06Add(c, "b_readpacket_streams_evaluated", cnt.evals)
	c06Add(c, "b_reference_truncated", cnt.truncated)
	c06Add(c, "b_reference_complete_frame", cnt.complete)
	c06Add(c, "b_big_streams", cnt.big)
	c06Add(c, "b_big_not_evaluated", cnt.bigSkipped)
	if last {
		c06Add(c, "b_overlong_length_streams", cnt.overlong)
	}
	return deferred
}

func c06ReadPacketDeferred(c *Ctx, deferred [][]byte) {
	if len(deferred) == 0 {
		return
	}
	var cnt c06StreamCounters
	hexbuf := make([]byte, 64)
	for i, st := range deferred {
		if i&0x3FFF == 0 && c.Expired() {
			c.Res.Incomplete = append(c.Res.Incomplete, "C06/b_readpacket_overlong")
			break
		}
		c06EvalStream(c, st, &cnt, hexbuf)
	}
	Announce("")
	c.Res.Evaluations += cnt.evals
	c.Res.Distinct += cnt.malformed + cnt.truncated
	c06Add(c, "b_readpacket_streams_evaluated", cnt.evals)
	c06Add(c, "b_overlong_length_evaluated", cnt.malformed)
	c.Sample(map[string]any{"part": "b_readpacket", "stream_hex": hex.EncodeToString(deferred[len(deferred)-1]), "reference": "remaining length longer than 4 bytes"})
}

func c06Pat(i int) byte { return byte(i * 31) }

// c06Gen streams a packet without holding it: header bytes, then n bytes of a fixed pattern.
type c06Gen struct {
	head   []byte
	n      int
	pos    int
	maxReq int
}

func (g *c06Gen) Read(p []byte) (int, error) {
	if len(p) > g.maxReq {
		g.maxReq = len(p)
	}
	if len(g.head) > 0 {
		k := copy(p, g.head)
		g.head = g.head[k:]
		return k, nil
	}
	if g.pos >= g.n {
		return 0, io.EOF
	}
	k := len(p)
	if k > g.n-g.pos {
		k = g.n - g.pos
	}
	if k > 1<<20 {
		k = 1 << 20 // a transport delivers at most 1 MiB at a time
	}
	for i := 0; i < k; i++ {
		p[i] = c06Pat(g.pos + i)
	}
	g.pos += k
	return k, nil
}

// c06HugePacket: one complete, legal packet of 2^27 body bytes really arrives (shard 0 only).  No
// single buffer may be larger than the largest packet the protocol allows, nor the sum of what is
// allocated while reading it.
func c06HugePacket(c *Ctx) {
	c.Bound("b_huge_packet", "one complete PUBLISH frame with a body of 134,217,728 bytes streamed in 1 MiB pieces through VerifReadPacket: returned unchanged; capacity of the returned buffer, largest Read request and bytes allocated meanwhile (runtime.MemStats.TotalAlloc) each <= 268,435,455 (+1 MiB slack for the last)")
	if c.Shard != 0 {
		return
	}
	const n = 1 << 27
	g := &c06Gen{head: append([]byte{0x30}, env.EncodeRemLen(n)...), n: n}
	runtime.GC()
	var m0, m1 runtime.MemStats
	runtime.ReadMemStats(&m0)
	_, _, body, err, pan := c06SafeRead(g)
	runtime.ReadMemStats(&m1)
	c.Res.Evaluations++
	c06Add(c, "b_huge_packet_bytes", n)
	in := map[string]any{"body_bytes": n}
	switch {
	case pan != nil:
		c.EnumFail("b_huge_packet", "readpacket-panic:"+c06PanicMsg(pan), fmt.Sprintf("readPacket panicked on a complete %d-byte packet: %v", n, pan), in)
	case err != nil || len(body) != n:
		c.EnumFail("b_huge_packet", "readpacket-rejects-complete-frame", fmt.Sprintf("a complete packet with %d body bytes: err=%v, %d bytes returned", n, err, len(body)), in)
	case body[0] != 0 || body[12345] != c06Pat(12345) || body[n-1] != c06Pat(n-1):
		c.EnumFail("b_huge_packet", "readpacket-misframes", "a complete huge packet was returned with different contents", in)
	case cap(body) > c06MaxPacket || g.maxReq > c06MaxPacket:
		c.EnumFail("b_huge_packet", "readpacket-oversize-buffer", fmt.Sprintf("reading one %d-byte packet used a buffer of capacity %d (largest Read request %d); the largest MQTT packet body is %d", n, cap(body), g.maxReq, c06MaxPacket), in)
	case m1.TotalAlloc-m0.TotalAlloc > c06MaxPacket+1<<20:
		c.EnumFail("b_huge_packet", "readpacket-allocates-more-than-max-packet", fmt.Sprintf("reading one %d-byte packet allocated %d bytes; the largest MQTT packet is %d", n, m1.TotalAlloc-m0.TotalAlloc, c06MaxPacket), in)
	}
	body = nil
	runtime.GC()
}
