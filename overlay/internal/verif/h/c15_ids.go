//go:build verif

package main

import (
	"errors"
	"fmt"
	"sort"
	"strings"
	"time"

	mqtt "github.com/at-wat/mqtt-go"
	"github.com/at-wat/mqtt-go/internal/verif/env"
	vctx "github.com/at-wat/mqtt-go/internal/verif/shim/context"
	"github.com/at-wat/mqtt-go/internal/verif/vrt"
)

// C15 — packet identifiers are non-zero and unique among outstanding requests.

func init() { register("C15", runC15) }

func runC15(c *Ctx) {
	if mqtt.VerifHasIDs {
		c15Sequential(c)
	} else {
		c.Note("C15: the white-box wrapper around the identifier counter does not compile against this tree; the counter-level enumeration and the 65,535-step history are skipped, counter starts come from the (harness-owned) random source only")
	}
	c15Concurrent(c)
	c15FailedWrite(c)
	c15RetriedOnNewConn(c)
	c15RepeatedConnAck(c)
	c15CallerSupplied(c)
	c15Mixed(c)
	c15ThroughRetryClient(c)
	if mqtt.VerifHasIDs {
		c15LongOutstanding(c)
		c15AbandonedThenWrap(c)
	}
}

// (a) sequential: every start value, and full cycles.
func c15Sequential(c *Ctx) {
	c.Bound("sequential", "every counter value 0..0xFFFF as state x the next 3 identifiers; full 65,536-step cycles from counter values {1,0xFFFD,0xFFFE,0x1FFFE}: never 0, no repeat within any window of 65,535")
	cli := &mqtt.BaseClient{}
	for st := 0; st <= 0xFFFF; st++ {
		if !c.Mine(int64(st)) {
			continue
		}
		mqtt.VerifSetIDLast(cli, uint32(st))
		a, b, d := mqtt.VerifNewID(cli), mqtt.VerifNewID(cli), mqtt.VerifNewID(cli)
		c.Res.Evaluations++
		if st >= 0xFFFC {
			c.Res.Distinct++
		}
		if a == 0 || b == 0 || d == 0 {
			c.EnumFail("sequential", "zero-id", fmt.Sprintf("counter %#x yields identifiers %d %d %d", st, a, b, d), st)
		}
		if a == b || b == d || a == d {
			c.EnumFail("sequential", "repeat-within-3", fmt.Sprintf("counter %#x yields identifiers %d %d %d", st, a, b, d), st)
		}
	}
	for i, st := range []uint32{1, 0xFFFD, 0xFFFE, 0x1FFFE, 0xFFFFFFF0} {
		if !c.Mine(int64(i)) {
			continue
		}
		mqtt.VerifSetIDLast(cli, st)
		last := make(map[uint16]int, 65536)
		for k := 0; k < 2*65536; k++ {
			id := mqtt.VerifNewID(cli)
			c.Res.Evaluations++
			if id == 0 {
				c.EnumFail("cycle", "zero-id", fmt.Sprintf("start %#x: identifier 0 at step %d", st, k), st)
				break
			}
			if p, ok := last[id]; ok && k-p < 65535 {
				c.EnumFail("cycle", "repeat-within-window", fmt.Sprintf("start %#x: identifier %d issued at steps %d and %d", st, id, p, k), st)
				break
			}
			last[id] = k
		}
		c.Res.Distinct++
	}
}

// (b) concurrent callers around the wrap; field accesses are scheduling points (fine-grained mode).
func c15Concurrent(c *Ctx) {
	kindsets := [][]string{{"p1", "p1"}, {"p1", "sub"}, {"p2", "unsub"}, {"sub", "unsub"}}
	p := 2
	if c.Thorough() {
		kindsets = append(kindsets, []string{"p1", "p2", "sub"}, []string{"p1", "p1", "p1"}, []string{"p2", "p2"}, []string{"unsub", "unsub"})
		p = 3
	}
	starts := []int32{0xFFFF, 0xFFFE, 0xFFFD, 5}
	c.Bound("concurrent", fmt.Sprintf("caller sets %v x counter start (value before the first identifier) %v; the peer never acknowledges, so all requests stay outstanding; fine-grained mode (every instrumented field access is a scheduling point) with P<=%d; happens-before race monitor on", kindsets, starts, p))
	for _, ks := range kindsets {
		for _, st := range starts {
			ks, st := ks, st
			var net *env.Net
			var ids []uint16
			sc := &vrt.Scenario{
				Name:  fmt.Sprintf("C15/concurrent/%s/start%#x", strings.Join(ks, "+"), st),
				Bound: vrt.Budget{P: p},
				Cfg:   vrt.Config{Fine: true, Race: true, Horizon: int64(30 * time.Second), StepCap: 400000},
				Body: func() {
					net = env.NewNet()
					s := env.NewScript(net)
					s.AutoConnAck = true
					cli := &mqtt.BaseClient{Transport: s.Conn}
					vrt.W.RandInt31n = func(n int32) int32 { return st - 1 }
					if _, err := cli.Connect(vctx.Background(), "c15"); err != nil {
						vrt.Failf("harness", "connect: %v", err)
						return
					}
					// a long-lived client reaches every counter value; initID itself never starts above 0xFFFE
					if mqtt.VerifHasIDs {
						mqtt.VerifSetIDLast(cli, uint32(st))
					}
					ctx, cancel := vctx.WithCancel(vctx.Background())
					for i, k := range ks {
						i, k := i, k
						vrt.Go("caller-"+k, func() {
							tag := fmt.Sprintf("%s-%d", k, i)
							switch k {
							case "p1":
								cli.Publish(ctx, &mqtt.Message{Topic: "t", QoS: mqtt.QoS1, Payload: []byte(tag)})
							case "p2":
								cli.Publish(ctx, &mqtt.Message{Topic: "t", QoS: mqtt.QoS2, Payload: []byte(tag)})
							case "sub":
								cli.Subscribe(ctx, mqtt.Subscription{Topic: tag, QoS: mqtt.QoS1})
							case "unsub":
								cli.Unsubscribe(ctx, tag)
							}
						})
					}
					vrt.Settle()
					ids = ids[:0]
					for _, p := range s.Got {
						if p.Type == env.PUBLISH || p.Type == env.SUBSCRIBE || p.Type == env.UNSUBSCRIBE {
							ids = append(ids, p.ID)
						}
					}
					if len(ids) != len(ks) {
						vrt.Failf("c15/request-missing", "%d requests written, want %d: %v", len(ids), len(ks), net.TraceStrings())
					}
					seen := map[uint16]bool{}
					for _, id := range ids {
						if id == 0 {
							vrt.Failf("c15/zero-id", "a request carries identifier 0: %v", net.TraceStrings())
						}
						if seen[id] {
							vrt.Failf("c15/duplicate-outstanding-id", "identifier %d is carried by two outstanding requests: %v", id, net.TraceStrings())
						}
						seen[id] = true
					}
					for _, r := range vrt.Races() {
						if strings.Contains(r.Var, "idLast") {
							vrt.Failf("c15/race:"+r.Key(), "data race on the identifier counter: %+v", r)
						}
					}
					cancel()
					vrt.Quiesce()
				},
				Observe: func() uint64 {
					s := append([]uint16(nil), ids...)
					sort.Slice(s, func(i, j int) bool { return s[i] < s[j] })
					return vrt.HashString(fmt.Sprint(s))
				},
			}
			c.Explore(sc)
			if net != nil {
				c.Sample(map[string]any{"scenario": sc.Name, "ids_on_wire": fmt.Sprint(ids)})
				net = nil
			}
		}
	}
}

// (b') a request whose write fails (the link stays up, e.g. a write deadline) while another request
// is outstanding, followed by a further request: what is outstanding must still be distinct.
func c15FailedWrite(c *Ctx) {
	kinds := []string{"p1", "p2", "sub", "unsub"}
	p := 1
	if c.Thorough() {
		p = 2
	}
	c.Bound("failed-write", fmt.Sprintf("two concurrent callers: kind A in %v whose first write fails while the link stays up, kind B in %v left unacknowledged; then a third request; identifiers of the requests that reached the peer and are unacknowledged must be distinct; fine-grained mode, P<=%d", kinds, kinds, p))
	issue := func(cli *mqtt.BaseClient, ctx vctx.Context, k, tag string) {
		switch k {
		case "p1":
			cli.Publish(ctx, &mqtt.Message{Topic: "t", QoS: mqtt.QoS1, Payload: []byte(tag)})
		case "p2":
			cli.Publish(ctx, &mqtt.Message{Topic: "t", QoS: mqtt.QoS2, Payload: []byte(tag)})
		case "sub":
			cli.Subscribe(ctx, mqtt.Subscription{Topic: tag, QoS: mqtt.QoS1})
		case "unsub":
			cli.Unsubscribe(ctx, tag)
		}
	}
	typeOf := map[string]byte{"p1": env.PUBLISH, "p2": env.PUBLISH, "sub": env.SUBSCRIBE, "unsub": env.UNSUBSCRIBE}
	for _, a := range kinds {
		for _, b := range kinds {
			a, b := a, b
			var net *env.Net
			var ids []uint16
			sc := &vrt.Scenario{
				Name:  fmt.Sprintf("C15/failed-write/%s-fails+%s", a, b),
				Bound: vrt.Budget{P: p},
				Cfg:   vrt.Config{Fine: true, Horizon: int64(30 * time.Second), StepCap: 400000},
				Body: func() {
					net = env.NewNet()
					s := env.NewScript(net)
					s.AutoConnAck = true
					failed := false
					s.TransientFail = func(pk *env.Packet) bool {
						// the first request of kind A (recognised by its tag) fails once
						if failed || pk.Type != typeOf[a] {
							return false
						}
						isA := string(pk.Payload) == "A" || len(pk.Filters) == 1 && pk.Filters[0] == "A"
						if isA {
							failed = true
						}
						return isA
					}
					cli := &mqtt.BaseClient{Transport: s.Conn}
					vrt.W.RandInt31n = func(n int32) int32 { return 100 }
					if _, err := cli.Connect(vctx.Background(), "c15"); err != nil {
						vrt.Failf("harness", "connect: %v", err)
						return
					}
					ctx, cancel := vctx.WithCancel(vctx.Background())
					vrt.Go("caller-A-"+a, func() { issue(cli, ctx, a, "A") })
					vrt.Go("caller-B-"+b, func() { issue(cli, ctx, b, "B") })
					vrt.Settle()
					vrt.Go("caller-Z", func() { issue(cli, ctx, "p1", "Z") })
					vrt.Settle()
					ids = ids[:0]
					seen := map[uint16]string{}
					for _, pk := range s.Got {
						if pk.Type != env.PUBLISH && pk.Type != env.SUBSCRIBE && pk.Type != env.UNSUBSCRIBE {
							continue
						}
						ids = append(ids, pk.ID)
						if pk.ID == 0 {
							vrt.Failf("c15/zero-id", "a request carries identifier 0: %v", net.TraceStrings())
						}
						if prev, ok := seen[pk.ID]; ok {
							vrt.Failf("c15/duplicate-outstanding-id", "identifier %d is carried by two outstanding requests (%s and %s) after the write of another request had failed:\n  %s", pk.ID, prev, pk, strings.Join(net.TraceStrings(), "\n  "))
						}
						seen[pk.ID] = pk.String()
					}
					cancel()
					vrt.Quiesce()
				},
				Observe: func() uint64 { return net.TraceHash() },
			}
			c.Explore(sc)
		}
	}
}

// (c) an identifier the caller put on the message is used unchanged.
func c15CallerSupplied(c *Ctx) {
	c.Bound("caller-supplied", "Publish QoS1/QoS2 with Message.ID in {1,2,0x00FF,0x0100,0x7FFF,0xFFFF} and counter start values {1,0xFFFE}; the first attempt answered, or unanswered and given up after 2 s and then repeated on the same connection through the retry handle / by a second Publish")
	var net *env.Net
	sc := &vrt.Scenario{
		Name: "C15/caller-supplied",
		Body: func() {
			net = env.NewNet()
			s := env.NewScript(net)
			s.AutoConnAck = true
			unanswered := 0
			s.OnPacket = func(_ *env.Script, p *env.Packet) {
				switch p.Type {
				case env.PUBLISH:
					if unanswered > 0 {
						unanswered--
						return
					}
					if p.QoS == 1 {
						s.Conn.Send(env.EncAck(env.PUBACK, p.ID), "")
					} else if p.QoS == 2 {
						s.Conn.Send(env.EncAck(env.PUBREC, p.ID), "")
					}
				case env.PUBREL:
					s.Conn.Send(env.EncAck(env.PUBCOMP, p.ID), "")
				}
			}
			cli := &mqtt.BaseClient{Transport: s.Conn}
			st := []int32{1, 0xFFFE}[vrt.Choose(vrt.KFree, 2, "start")]
			vrt.W.RandInt31n = func(n int32) int32 { return st - 1 }
			if _, err := cli.Connect(vctx.Background(), "c15"); err != nil {
				vrt.Failf("harness", "connect: %v", err)
				return
			}
			idv := []uint16{1, 2, 0x00FF, 0x0100, 0x7FFF, 0xFFFF}
			id := idv[vrt.Choose(vrt.KFree, len(idv), "id")]
			q := mqtt.QoS(1 + vrt.Choose(vrt.KFree, 2, "qos"))
			m := &mqtt.Message{Topic: "t", QoS: q, Payload: []byte("x"), ID: id}
			// optionally the first attempt stays unanswered and is given up on its deadline; the message is
			// then sent again on the same (still open) connection, through the retry handle or by a
			// second Publish of the same message
			again := vrt.Choose(vrt.KFree, 3, "first attempt: answered / unanswered then retry handle / unanswered then Publish again")
			if again > 0 {
				unanswered = 1
				ctx, cancel := vctx.WithTimeout(vctx.Background(), 2*time.Second)
				err := cli.Publish(ctx, m)
				cancel()
				if err == nil {
					vrt.Failf("harness", "the unanswered publish returned nil")
					return
				}
				if again == 1 {
					var rt mqtt.ErrorWithRetry
					if !errors.As(err, &rt) {
						vrt.Failf("harness", "the abandoned publish returned %v, which carries no retry handle", err)
						return
					}
					if err := rt.Retry(vctx.Background(), cli); err != nil {
						vrt.Failf("c15/caller-id-publish-failed", "retrying the publish with caller-supplied id %d on the same connection: %v", id, err)
					}
				} else if err := cli.Publish(vctx.Background(), m); err != nil {
					vrt.Failf("c15/caller-id-publish-failed", "second publish with caller-supplied id %d: %v", id, err)
				}
			} else if err := cli.Publish(vctx.Background(), m); err != nil {
				vrt.Failf("c15/caller-id-publish-failed", "publish with caller-supplied id %d: %v", id, err)
			}
			for _, p := range s.Got {
				if (p.Type == env.PUBLISH || p.Type == env.PUBREL) && p.ID != id {
					vrt.Failf("c15/caller-id-changed", "message with caller-supplied identifier %d was sent as %s", id, p)
				}
			}
			if m.ID != id {
				vrt.Failf("c15/caller-id-changed", "Message.ID changed from %d to %d", id, m.ID)
			}
			vrt.Quiesce()
		},
		Observe: func() uint64 { return net.TraceHash() },
	}
	c.Explore(sc)
}

// (d) one request stays outstanding while the counter goes round once.
func c15LongOutstanding(c *Ctx) {
	c.Bound("long-outstanding", "one deterministic history: a QoS 1 publish stays unacknowledged while 65,534 further identifiers are drawn and released; the next request must not get the identifier that is still outstanding")
	var net *env.Net
	sc := &vrt.Scenario{
		Name: "C15/long-outstanding",
		Cfg:  vrt.Config{StepCap: 500000, Horizon: int64(30 * time.Second)},
		Body: func() {
			net = env.NewNet()
			s := env.NewScript(net)
			s.AutoConnAck = true
			cli := &mqtt.BaseClient{Transport: s.Conn}
			vrt.W.RandInt31n = func(n int32) int32 { return 41 }
			if _, err := cli.Connect(vctx.Background(), "c15"); err != nil {
				vrt.Failf("harness", "connect: %v", err)
				return
			}
			ctx, cancel := vctx.WithCancel(vctx.Background())
			vrt.Go("first", func() { cli.Publish(ctx, &mqtt.Message{Topic: "t", QoS: mqtt.QoS1, Payload: []byte("first")}) })
			vrt.Settle()
			// 65,534 requests come and go (their identifiers are drawn and released again)
			for i := 0; i < 65534; i++ {
				mqtt.VerifNewID(cli)
			}
			vrt.Go("second", func() { cli.Publish(ctx, &mqtt.Message{Topic: "t", QoS: mqtt.QoS1, Payload: []byte("second")}) })
			vrt.Settle()
			var ids []uint16
			for _, p := range s.Got {
				if p.Type == env.PUBLISH {
					ids = append(ids, p.ID)
				}
			}
			if len(ids) == 2 && ids[0] == ids[1] {
				vrt.Failf("c15/wraparound-reuses-outstanding-id", "identifier %d is still outstanding (first publish unacknowledged) and was given to a second request after the counter wrapped", ids[0])
			}
			cancel()
			vrt.Quiesce()
		},
		Observe: func() uint64 { return net.TraceHash() },
	}
	c.Explore(sc)
}

// (c') sequences mixing generated and caller-supplied identifiers, all requests left outstanding.
func c15Mixed(c *Ctx) {
	c.Bound("mixed", "every sequence of 3 requests over {QoS 1 publish with generated id, QoS 1 publish with a caller-supplied free id next to an outstanding one (last-1, last+1, last+2), subscribe}; nothing is acknowledged; all identifiers of outstanding requests must be distinct")
	var net *env.Net
	sc := &vrt.Scenario{
		Name: "C15/mixed",
		Cfg:  vrt.Config{Horizon: int64(30 * time.Second)},
		Body: func() {
			net = env.NewNet()
			s := env.NewScript(net)
			s.AutoConnAck = true
			cli := &mqtt.BaseClient{Transport: s.Conn}
			vrt.W.RandInt31n = func(n int32) int32 { return 99 }
			if _, err := cli.Connect(vctx.Background(), "c15"); err != nil {
				vrt.Failf("harness", "connect: %v", err)
				return
			}
			ctx, cancel := vctx.WithCancel(vctx.Background())
			used := map[uint16]string{}
			last := uint16(0)
			var seq []string
			for i := 0; i < 3; i++ {
				k := vrt.Choose(vrt.KFree, 5, "request")
				var m *mqtt.Message
				switch k {
				case 0:
					m = &mqtt.Message{Topic: "t", QoS: mqtt.QoS1, Payload: []byte(fmt.Sprint("auto", i))}
					seq = append(seq, "auto")
				case 1, 2, 3:
					id := last + uint16(k) - 2 // last-1, last, last+1 -> shifted below to skip 'last'
					if k >= 2 {
						id = last + uint16(k) - 1 // last+1, last+2
					}
					if id == 0 || used[id] != "" {
						continue // the caller must not reuse an identifier that is in use
					}
					m = &mqtt.Message{Topic: "t", QoS: mqtt.QoS1, Payload: []byte(fmt.Sprint("own", i)), ID: id}
					seq = append(seq, fmt.Sprint("own:", id))
				case 4:
					n := len(s.Got)
					vrt.Go("sub", func() { cli.Subscribe(ctx, mqtt.Subscription{Topic: fmt.Sprint("f", i)}) })
					vrt.Settle()
					seq = append(seq, "sub")
					for _, p := range s.Got[n:] {
						if p.Type == env.SUBSCRIBE {
							if used[p.ID] != "" {
								key := "c15/duplicate-outstanding-id"
								if strings.HasPrefix(used[p.ID], "publish own") {
									key = "c15/generated-id-equals-outstanding-caller-id"
								}
								vrt.Failf(key, "sequence %v: SUBSCRIBE got identifier %d, which %s still holds", seq, p.ID, used[p.ID])
							}
							used[p.ID] = "a subscribe"
							last = p.ID
						}
					}
					continue
				}
				n := len(s.Got)
				generated := m.ID == 0
				vrt.Go("pub", func() { cli.Publish(ctx, m) })
				vrt.Settle()
				for _, p := range s.Got[n:] {
					if p.Type == env.PUBLISH {
						if p.ID == 0 {
							vrt.Failf("c15/zero-id", "sequence %v: identifier 0", seq)
						}
						if used[p.ID] != "" {
							key := "c15/duplicate-outstanding-id"
							if strings.HasPrefix(used[p.ID], "publish own") && generated {
								// the allocator does not know identifiers the caller put on earlier messages
								key = "c15/generated-id-equals-outstanding-caller-id"
							}
							vrt.Failf(key, "sequence %v: %q got identifier %d, which %s still holds", seq, string(p.Payload), p.ID, used[p.ID])
						}
						used[p.ID] = "publish " + string(p.Payload)
						last = p.ID
					}
				}
			}
			cancel()
			vrt.Quiesce()
		},
		Observe: func() uint64 { return net.TraceHash() },
	}
	c.Explore(sc)
}

// (c”) a caller-supplied identifier must survive the retrying client's queues.
func c15ThroughRetryClient(c *Ctx) {
	c.Bound("caller-id-through-retry-client", "ReconnectClient: [QoS 1 publish; QoS 1/2 publish with Message.ID=0x1234 submitted immediately / during the outage / during the reconnect handshake] with <=1 connection cut; every PUBLISH and PUBREL of the second message must carry 0x1234")
	for _, kind := range []string{"p1", "p2"} {
		for _, ph := range []byte{'N', 'O', 'H'} {
			reqs := []rcReq{{Kind: "p1", Tag: "m1", Phase: 'S'}, {Kind: kind, Tag: "m2", Phase: ph, ID: 0x1234}}
			var r *rcRun
			sc := &vrt.Scenario{
				Name:  fmt.Sprintf("C15/rc-caller-id/%s@%c", kind, ph),
				Bound: vrt.Budget{F: 1},
				Cfg:   vrt.Config{Horizon: int64(300 * time.Second)},
				Body: func() {
					rcExecuteInto(&rcCfg{Reqs: reqs, Faults: env.FaultSet{LostClose: true, AckLost: true}, KeepSession: true}, &r)
					for _, e := range r.net.Trace {
						if e.Dir == '>' && e.Pkt != nil && e.Pkt.Type == env.PUBLISH && string(e.Pkt.Payload) == "m2" && e.Pkt.ID != 0x1234 {
							vrt.Failf("c15/caller-id-changed:retry-client", "message m2 was given to the client with identifier 0x1234 but went out as %s\n%s", e.Pkt, r.summary())
						}
					}
				},
				Observe: func() uint64 { return r.net.TraceHash() },
			}
			c.Explore(sc)
		}
	}
}

// (d') a request that its caller gave up (context cancelled, never answered) leaves its waiter
// behind; once the counter has gone round, the identifier is drawn again for a new request of the
// same kind while another request follows: what is outstanding must be distinct and non-zero.
func c15AbandonedThenWrap(c *Ctx) {
	c.Bound("abandoned-then-wrap", "for each kind in {QoS1 publish, QoS2 publish, subscribe, unsubscribe} and abandoned identifier in {42, 0xFFFF}: the request is given up unanswered, 65,534 identifiers are drawn, then a request of the same kind and a QoS 1 publish are outstanding together")
	issue := func(cli *mqtt.BaseClient, ctx vctx.Context, k, tag string) {
		switch k {
		case "p1":
			cli.Publish(ctx, &mqtt.Message{Topic: "t", QoS: mqtt.QoS1, Payload: []byte(tag)})
		case "p2":
			cli.Publish(ctx, &mqtt.Message{Topic: "t", QoS: mqtt.QoS2, Payload: []byte(tag)})
		case "sub":
			cli.Subscribe(ctx, mqtt.Subscription{Topic: tag, QoS: mqtt.QoS1})
		case "unsub":
			cli.Unsubscribe(ctx, tag)
		}
	}
	for _, k := range []string{"p1", "p2", "sub", "unsub"} {
		for _, start := range []uint32{41, 0xFFFE} {
			k, start := k, start
			var net *env.Net
			sc := &vrt.Scenario{
				Name: fmt.Sprintf("C15/abandoned-then-wrap/%s/abandoned-id-%d", k, start+1),
				Cfg:  vrt.Config{StepCap: 500000, Horizon: int64(30 * time.Second)},
				Body: func() {
					net = env.NewNet()
					s := env.NewScript(net)
					s.AutoConnAck = true
					cli := &mqtt.BaseClient{Transport: s.Conn}
					vrt.W.RandInt31n = func(n int32) int32 { return 7 }
					if _, err := cli.Connect(vctx.Background(), "c15"); err != nil {
						vrt.Failf("harness", "connect: %v", err)
						return
					}
					mqtt.VerifSetIDLast(cli, start)
					ctx1, cancel1 := vctx.WithCancel(vctx.Background())
					vrt.Go("abandoned", func() { issue(cli, ctx1, k, "gone") })
					vrt.Settle()
					cancel1()
					vrt.Settle()
					for i := 0; i < 65534; i++ {
						mqtt.VerifNewID(cli)
					}
					ctx, cancel := vctx.WithCancel(vctx.Background())
					n := len(s.Got)
					vrt.Go("again", func() { issue(cli, ctx, k, "again") })
					vrt.Settle()
					vrt.Go("other", func() { issue(cli, ctx, "p1", "other") })
					vrt.Settle()
					seen := map[uint16]string{}
					for _, p := range s.Got[n:] {
						if p.Type != env.PUBLISH && p.Type != env.SUBSCRIBE && p.Type != env.UNSUBSCRIBE {
							continue
						}
						if p.ID == 0 {
							vrt.Failf("c15/zero-id", "after an abandoned %s and a full round of the counter a request carries identifier 0: %s", k, p)
						}
						if prev, ok := seen[p.ID]; ok {
							vrt.Failf("c15/duplicate-outstanding-id", "after an abandoned %s and a full round of the counter two outstanding requests carry identifier %d: %s and %s", k, p.ID, prev, p)
						}
						seen[p.ID] = p.String()
					}
					cancel()
					vrt.Quiesce()
				},
				Observe: func() uint64 { return net.TraceHash() },
			}
			c.Explore(sc)
		}
	}
}

// (b”) a CONNACK repeated by the peer in the middle of a connection (the client tolerates it)
// must not disturb the allocator: requests issued before and after it stay distinct.
func c15RepeatedConnAck(c *Ctx) {
	c.Bound("repeated-connack", "two requests outstanding (kinds {p1,p2,sub,unsub} each), then the peer repeats CONNACK, then two more requests; nothing is acknowledged; identifiers of all four distinct and non-zero; counter start in {41, 0xFFFD}")
	kinds := []string{"p1", "p2", "sub", "unsub"}
	issue := func(cli *mqtt.BaseClient, ctx vctx.Context, k, tag string) {
		switch k {
		case "p1":
			cli.Publish(ctx, &mqtt.Message{Topic: "t", QoS: mqtt.QoS1, Payload: []byte(tag)})
		case "p2":
			cli.Publish(ctx, &mqtt.Message{Topic: "t", QoS: mqtt.QoS2, Payload: []byte(tag)})
		case "sub":
			cli.Subscribe(ctx, mqtt.Subscription{Topic: tag, QoS: mqtt.QoS1})
		case "unsub":
			cli.Unsubscribe(ctx, tag)
		}
	}
	var net *env.Net
	sc := &vrt.Scenario{
		Name: "C15/repeated-connack",
		Cfg:  vrt.Config{Horizon: int64(30 * time.Second)},
		Body: func() {
			net = env.NewNet()
			s := env.NewScript(net)
			s.AutoConnAck = true
			cli := &mqtt.BaseClient{Transport: s.Conn}
			st := []int32{41, 0xFFFD}[vrt.Choose(vrt.KFree, 2, "start")]
			vrt.W.RandInt31n = func(n int32) int32 { return st - 1 }
			if _, err := cli.Connect(vctx.Background(), "c15"); err != nil {
				vrt.Failf("harness", "connect: %v", err)
				return
			}
			ctx, cancel := vctx.WithCancel(vctx.Background())
			for i := 0; i < 4; i++ {
				if i == 2 {
					s.Send(env.EncConnAck(false, 0))
					vrt.Settle()
				}
				k := kinds[vrt.Choose(vrt.KFree, len(kinds), "kind")]
				tag := fmt.Sprintf("r%d", i)
				vrt.Go("req-"+tag, func() { issue(cli, ctx, k, tag) })
				vrt.Settle()
			}
			seen := map[uint16]string{}
			for _, p := range s.Got {
				if p.Type != env.PUBLISH && p.Type != env.SUBSCRIBE && p.Type != env.UNSUBSCRIBE {
					continue
				}
				if p.ID == 0 {
					vrt.Failf("c15/zero-id", "a request carries identifier 0: %s", p)
				}
				if prev, ok := seen[p.ID]; ok {
					vrt.Failf("c15/duplicate-outstanding-id", "identifier %d is carried by two outstanding requests (%s and %s); the peer had repeated CONNACK in between", p.ID, prev, p)
				}
				seen[p.ID] = p.String()
			}
			cancel()
			vrt.Quiesce()
		},
		Observe: func() uint64 { return net.TraceHash() },
	}
	c.Explore(sc)
}

// c15RetriedOnNewConn: a Subscribe / Unsubscribe that was interrupted is retried (ErrorWithRetry.Retry)
// on a fresh connection while another request is outstanding there.  The two connections' counters
// start at the same value, so an identifier carried over from the old connection, or taken without
// advancing the counter, collides.
func c15RetriedOnNewConn(c *Ctx) {
	c.Bound("retried-on-new-connection", "Subscribe|Unsubscribe interrupted by a closed link, retried through ErrorWithRetry.Retry on a fresh BaseClient whose counter starts at the same value, before | after another QoS 1 publish that stays unacknowledged there; identifiers outstanding on the second connection must be distinct and non-zero; P<=1")
	for _, k := range []string{"sub", "unsub"} {
		for _, order := range []string{"other-first", "retry-first"} {
			k, order := k, order
			var net *env.Net
			sc := &vrt.Scenario{
				Name:  fmt.Sprintf("C15/retried-on-new-connection/%s/%s", k, order),
				Bound: vrt.Budget{P: 1},
				Cfg:   vrt.Config{Horizon: int64(30 * time.Second)},
				Body: func() {
					net = env.NewNet()
					vrt.W.RandInt31n = func(n int32) int32 { return 100 }
					s1 := env.NewScript(net)
					s1.AutoConnAck = true
					cli1 := &mqtt.BaseClient{Transport: s1.Conn}
					if _, err := cli1.Connect(vctx.Background(), "c15"); err != nil {
						vrt.Failf("harness", "connect: %v", err)
						return
					}
					var err error
					done := false
					vrt.Go("caller", func() {
						if k == "sub" {
							_, err = cli1.Subscribe(vctx.Background(), mqtt.Subscription{Topic: "A", QoS: mqtt.QoS1})
						} else {
							err = cli1.Unsubscribe(vctx.Background(), "A")
						}
						done = true
					})
					vrt.Settle()
					s1.Close()
					vrt.Settle()
					re, ok := err.(mqtt.ErrorWithRetry)
					if !done || !ok {
						return // whether an interrupted request is retryable is C19's matter
					}
					s2 := env.NewScript(net)
					s2.AutoConnAck = true
					cli2 := &mqtt.BaseClient{Transport: s2.Conn}
					if _, err := cli2.Connect(vctx.Background(), "c15"); err != nil {
						vrt.Failf("harness", "connect: %v", err)
						return
					}
					ctx, cancel := vctx.WithCancel(vctx.Background())
					other := func() { cli2.Publish(ctx, &mqtt.Message{Topic: "t", QoS: mqtt.QoS1, Payload: []byte("Z")}) }
					retry := func() { re.Retry(ctx, cli2) }
					if order == "other-first" {
						vrt.Go("other", other)
						vrt.Settle()
						vrt.Go("retry", retry)
					} else {
						vrt.Go("retry", retry)
						vrt.Settle()
						vrt.Go("other", other)
					}
					vrt.Settle()
					seen := map[uint16]string{}
					for _, pk := range s2.Got {
						if pk.Type != env.PUBLISH && pk.Type != env.SUBSCRIBE && pk.Type != env.UNSUBSCRIBE {
							continue
						}
						if pk.ID == 0 {
							vrt.Failf("c15/zero-id", "a request carries identifier 0: %v", net.TraceStrings())
						}
						if prev, ok := seen[pk.ID]; ok {
							vrt.Failf("c15/duplicate-outstanding-id:retried-"+k, "identifier %d is carried by two requests outstanding on the second connection (%s and %s):\n  %s", pk.ID, prev, pk, strings.Join(net.TraceStrings(), "\n  "))
						}
						seen[pk.ID] = pk.String()
					}
					if len(seen) != 2 {
						vrt.Failf("harness", "expected two outstanding requests on the second connection, saw %d", len(seen))
					}
					cancel()
					cli1.Close()
					cli2.Close()
					vrt.Quiesce()
				},
				Observe: func() uint64 { return net.TraceHash() },
			}
			c.Explore(sc)
		}
	}
}
