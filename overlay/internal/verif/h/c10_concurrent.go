//go:build verif

package main

import (
	"fmt"
	"strings"
	"time"

	mqtt "github.com/at-wat/mqtt-go"
	"github.com/at-wat/mqtt-go/internal/verif/env"
	vctx "github.com/at-wat/mqtt-go/internal/verif/shim/context"
	"github.com/at-wat/mqtt-go/internal/verif/vrt"
)

// C10 — safe for concurrent use: (1) no data race under the Go memory model (happens-before race
// monitor inside the explorer, all schedules within the bound instead of one lucky run), (2) the
// byte stream written to the transport is a concatenation of whole packets (each Write is handed
// to the peer in two chunks with a scheduling point in between, so a missing write lock shows).

func init() { register("C10", runC10) }

var c10BaseOps = []string{"pub0", "pub1", "pub2", "sub", "unsub", "ping", "handle", "stats", "done", "err", "close", "seterr", "pub1x", "pub2x", "subx"}
var c10RetryOps = []string{"pub0", "pub1", "pub2", "sub", "unsub", "ping", "handle", "stats", "client"}

// c10AutoPeer answers every request at once and pushes inbound QoS 1 / QoS 2 traffic.
func c10AutoPeer(s *env.Script, push bool) {
	s.OnPacket = func(_ *env.Script, p *env.Packet) {
		c := s.Conn
		switch p.Type {
		case env.CONNECT:
			c.Send(env.EncConnAck(false, 0), "")
			if push {
				c.Send(env.EncPublish("in/1", []byte("i1"), 1, 501, false, false), "push")
				c.Send(env.EncPublish("in/2", []byte("i2"), 2, 502, false, false), "push")
			}
		case env.PUBLISH:
			if strings.HasPrefix(string(p.Payload), "noack") {
				return // this request is never answered: its caller gives up on its deadline
			}
			if p.QoS == 1 {
				c.Send(env.EncAck(env.PUBACK, p.ID), "")
			} else if p.QoS == 2 {
				c.Send(env.EncAck(env.PUBREC, p.ID), "")
			}
		case env.PUBREL:
			c.Send(env.EncAck(env.PUBCOMP, p.ID), "")
		case env.PUBREC:
			c.Send(env.EncAck(env.PUBREL, p.ID), "")
		case env.SUBSCRIBE:
			if strings.HasPrefix(p.Filters[0], "noack") {
				return
			}
			c.Send(env.EncSubAck(p.ID, make([]byte, len(p.Filters))), "")
		case env.UNSUBSCRIBE:
			c.Send(env.EncAck(env.UNSUBACK, p.ID), "")
		case env.PINGREQ:
			c.Send(env.EncPingResp(), "")
		}
	}
}

// c10WireAtomic checks oracle (2) on one connection.
func c10WireAtomic(conn *env.Conn, desc func() string) {
	for i := 0; i+1 < len(conn.Chunks); i++ {
		a, b := conn.Chunks[i], conn.Chunks[i+1]
		if a.Part == 0 && len(conn.Attempts[a.Write]) > 1 && (b.Write != a.Write || b.Part != 1) {
			// the second chunk may legitimately be missing only if the Write failed in between
			found := false
			for _, x := range conn.Chunks[i+1:] {
				if x.Write == a.Write && x.Part == 1 {
					found = true
				}
			}
			if found {
				vrt.Failf("c10/packets-interleaved", "bytes of Write #%d lie between the two halves of Write #%d on connection %d\n%s", b.Write, a.Write, conn.ID, desc())
				return
			}
		}
	}
	// what reached the peer, in order, is a concatenation of whole packets (a tail cut off by the end
	// of the connection excepted)
	var stream []byte
	for _, ch := range conn.Chunks {
		stream = append(stream, ch.Data...)
	}
	for off := 0; off < len(stream); {
		_, n, err := env.Decode(stream[off:])
		if err == env.ErrIncomplete {
			break
		}
		if err != nil {
			lo := off
			if lo > 8 {
				lo = off - 8
			}
			hi := off + 24
			if hi > len(stream) {
				hi = len(stream)
			}
			vrt.Failf("c10/stream-not-whole-packets", "the byte stream on connection %d stops being a sequence of whole packets at offset %d (...% x...): %v\n%s", conn.ID, off, stream[lo:hi], err, desc())
			return
		}
		off += n
	}
}

func c10ReportRaces(prefix string, desc func() string) {
	for _, r := range vrt.Races() {
		vrt.Failf("c10/race:"+r.Key(), "%s: data race (%s) on %s between %s and %s\n%s", prefix, r.Kind, r.Var, r.SiteA, r.SiteB, desc())
	}
}

func c10BaseOp(cli *mqtt.BaseClient, op string, i int) {
	ctx, cancel := vctx.WithTimeout(vctx.Background(), 5*time.Second)
	defer cancel()
	tag := fmt.Sprintf("%s-%d", op, i)
	switch op {
	case "pub0", "pub1", "pub2":
		cli.Publish(ctx, &mqtt.Message{Topic: "t", QoS: mqtt.QoS(op[3] - '0'), Payload: []byte(tag)})
	case "pub0big", "pub1big":
		// payloads larger than 32 KiB and than 64 KiB
		n := 40000 + 30000*i
		pl := make([]byte, n)
		for j := range pl {
			pl[j] = byte('a' + i)
		}
		cli.Publish(ctx, &mqtt.Message{Topic: "t/" + tag, QoS: mqtt.QoS(op[3] - '0'), Payload: pl})
	case "pub1x", "pub2x":
		// never acknowledged: returns when its own short deadline expires, while the reader keeps
		// dispatching the acknowledgements of the other caller and of a follow-up request
		sctx, scancel := vctx.WithTimeout(vctx.Background(), time.Second)
		cli.Publish(sctx, &mqtt.Message{Topic: "t", QoS: mqtt.QoS(op[3] - '0'), Payload: []byte("noack-" + tag)})
		scancel()
		cli.Publish(ctx, &mqtt.Message{Topic: "t", QoS: mqtt.QoS1, Payload: []byte("after-" + tag)})
	case "subx":
		sctx, scancel := vctx.WithTimeout(vctx.Background(), time.Second)
		cli.Subscribe(sctx, mqtt.Subscription{Topic: "noack-" + tag, QoS: mqtt.QoS1})
		scancel()
		cli.Subscribe(ctx, mqtt.Subscription{Topic: "after-" + tag, QoS: mqtt.QoS1})
	case "sub":
		cli.Subscribe(ctx, mqtt.Subscription{Topic: tag, QoS: mqtt.QoS1})
	case "unsub":
		cli.Unsubscribe(ctx, tag)
	case "ping":
		cli.Ping(ctx)
	case "handle":
		cli.Handle(mqtt.HandlerFunc(func(*mqtt.Message) {}))
	case "stats":
		_ = cli.Stats()
	case "done":
		_ = cli.Done()
	case "err":
		_ = cli.Err()
	case "close":
		cli.Close()
	case "seterr":
		cli.SetErrorOnce(fmt.Errorf("x"))
	}
}

func runC10(c *Ctx) {
	p := 1
	if c.Thorough() {
		p = 2
	}
	c.Bound("base", fmt.Sprintf("BaseClient: every unordered pair of calls from %v running concurrently with each other and with the reader acknowledging an inbound QoS 1 and QoS 2 message; chunked transport; P<=%d S<=1; race monitor on", c10BaseOps, p))
	c.Bound("reconnecting", fmt.Sprintf("ReconnectClient/RetryClient: every unordered pair of calls from %v, and every call paired with a concurrent Disconnect of the client, while the peer cuts the first connection once (one reconnect happens meanwhile); chunked transport; delay-bounded: at most %d deviations (preemptions or non-default task choices at blocking points) from the default schedule; race monitor on", c10RetryOps, p))
	var lastNet *env.Net
	for i, a := range c10BaseOps {
		for _, b := range c10BaseOps[i:] {
			a, b := a, b
			var net *env.Net
			sc := &vrt.Scenario{
				Name:  fmt.Sprintf("C10/base/%s+%s", a, b),
				Bound: vrt.Budget{P: p, S: 1},
				Cfg:   vrt.Config{Race: true, Horizon: int64(60 * time.Second), StepCap: 100000},
				Body: func() {
					net = env.NewNet()
					s := env.NewScript(net)
					s.Conn.Chunked = true
					c10AutoPeer(s, true)
					cli := &mqtt.BaseClient{Transport: s.Conn}
					cli.Handle(mqtt.HandlerFunc(func(*mqtt.Message) {}))
					if _, err := cli.Connect(vctx.Background(), "c10"); err != nil {
						vrt.Failf("harness", "connect: %v", err)
						return
					}
					vrt.Go("op-"+a, func() { c10BaseOp(cli, a, 0) })
					vrt.Go("op-"+b, func() { c10BaseOp(cli, b, 1) })
					vrt.Quiesce()
					desc := func() string { return "wire:\n  " + strings.Join(net.TraceStrings(), "\n  ") }
					c10WireAtomic(s.Conn, desc)
					c10ReportRaces("BaseClient "+a+"+"+b, desc)
				},
				Observe: func() uint64 { return net.TraceHash() },
			}
			c.Explore(sc)
			if net != nil {
				lastNet = net
			}
		}
	}
	c.Bound("base-large", "BaseClient: a 40,000-byte and a 70,000-byte PUBLISH (QoS 0|1) running concurrently with each other / with a small QoS 1 publish / a subscribe, and with the reader's acknowledgements; chunked transport; same budgets")
	for _, pr := range [][2]string{{"pub0big", "pub0big"}, {"pub1", "pub0big"}, {"sub", "pub1big"}} {
		a, b := pr[0], pr[1]
		var net *env.Net
		sc := &vrt.Scenario{
			Name:  fmt.Sprintf("C10/base-large/%s+%s", a, b),
			Bound: vrt.Budget{P: p, S: 1},
			Cfg:   vrt.Config{Race: true, Horizon: int64(60 * time.Second), StepCap: 100000},
			Body: func() {
				net = env.NewNet()
				s := env.NewScript(net)
				s.Conn.Chunked = true
				c10AutoPeer(s, true)
				cli := &mqtt.BaseClient{Transport: s.Conn}
				cli.Handle(mqtt.HandlerFunc(func(*mqtt.Message) {}))
				if _, err := cli.Connect(vctx.Background(), "c10"); err != nil {
					vrt.Failf("harness", "connect: %v", err)
					return
				}
				vrt.Go("op-"+a, func() { c10BaseOp(cli, a, 0) })
				vrt.Go("op-"+b, func() { c10BaseOp(cli, b, 1) })
				vrt.Quiesce()
				desc := func() string {
					return fmt.Sprintf("%d writes, %d chunks delivered", len(s.Conn.Attempts), len(s.Conn.Chunks))
				}
				c10WireAtomic(s.Conn, desc)
				c10ReportRaces("BaseClient "+a+"+"+b, desc)
			},
			Observe: func() uint64 { return net.TraceHash() },
		}
		c.Explore(sc)
	}
	c.Bound("two-clients", "two independent BaseClients (package-level state is shared) running Connect / Connect+Publish concurrently; P<=2 S<=1; race monitor on")
	for _, op2 := range []string{"connect", "pub1", "ping"} {
		op2 := op2
		var net *env.Net
		sc := &vrt.Scenario{
			Name:  "C10/two-clients/connect+" + op2,
			Bound: vrt.Budget{P: p + 1, S: 1},
			Cfg:   vrt.Config{Race: true, Horizon: int64(60 * time.Second), StepCap: 100000},
			Body: func() {
				net = env.NewNet()
				s1, s2 := env.NewScript(net), env.NewScript(net)
				c10AutoPeer(s1, false)
				c10AutoPeer(s2, false)
				a, b := &mqtt.BaseClient{Transport: s1.Conn}, &mqtt.BaseClient{Transport: s2.Conn}
				if op2 != "connect" {
					if _, err := b.Connect(vctx.Background(), "b"); err != nil {
						vrt.Failf("harness", "connect: %v", err)
						return
					}
				}
				vrt.Go("a-connect", func() { a.Connect(vctx.Background(), "a") })
				vrt.Go("b-"+op2, func() {
					if op2 == "connect" {
						b.Connect(vctx.Background(), "b")
					} else {
						c10BaseOp(b, op2, 1)
					}
				})
				vrt.Quiesce()
				desc := func() string { return "wire:\n  " + strings.Join(net.TraceStrings(), "\n  ") }
				c10ReportRaces("two clients connect+"+op2, desc)
			},
			Observe: func() uint64 { return net.TraceHash() },
		}
		c.Explore(sc)
		if net != nil {
			lastNet = net
		}
	}
	c.Bound("base-connect", "BaseClient: Connect running concurrently with each of {ping, pub1, sub, handle, stats, done, err} on a fresh client; P<=2 S<=1; race monitor on")
	for _, b := range []string{"ping", "pub1", "sub", "handle", "stats", "done", "err"} {
		b := b
		var net *env.Net
		sc := &vrt.Scenario{
			Name:  "C10/base-connect/connect+" + b,
			Bound: vrt.Budget{P: p + 1, S: 1},
			Cfg:   vrt.Config{Race: true, Horizon: int64(60 * time.Second), StepCap: 100000},
			Body: func() {
				net = env.NewNet()
				s := env.NewScript(net)
				s.Conn.Chunked = true
				c10AutoPeer(s, true)
				cli := &mqtt.BaseClient{Transport: s.Conn}
				vrt.Go("op-connect", func() { cli.Connect(vctx.Background(), "c10") })
				vrt.Go("op-"+b, func() { c10BaseOp(cli, b, 1) })
				vrt.Quiesce()
				desc := func() string { return "wire:\n  " + strings.Join(net.TraceStrings(), "\n  ") }
				c10WireAtomic(s.Conn, desc)
				c10ReportRaces("BaseClient connect+"+b, desc)
			},
			Observe: func() uint64 { return net.TraceHash() },
		}
		c.Explore(sc)
		if net != nil {
			lastNet = net
		}
	}
	for _, a := range c10RetryOps {
		for _, b := range append(append([]string{}, c10RetryOps...), "disconnect") {
			for _, phase := range []string{"now", "reconnecting"} {
				if phase == "now" && a > b && b != "disconnect" {
					continue
				}
				a, b, phase := a, b, phase
				var net *env.Net
				sc := &vrt.Scenario{
					Name:       fmt.Sprintf("C10/reconnecting/%s+%s@%s", a, b, phase),
					Bound:      vrt.Budget{P: p, D: p, Total: p},
					DelayBound: true,
					Cfg:        vrt.Config{Race: true, Horizon: int64(120 * time.Second), StepCap: 100000},
					Body: func() {
						net = env.NewNet()
						var conns []*env.Conn
						dialer := mqtt.DialerFunc(func(ctx vctx.Context) (*mqtt.BaseClient, error) {
							vrt.Yield("dial")
							s := env.NewScript(net)
							s.Conn.Chunked = true
							c10AutoPeer(s, true)
							conns = append(conns, s.Conn)
							return &mqtt.BaseClient{Transport: s.Conn}, nil
						})
						rc, err := mqtt.NewReconnectClient(dialer, mqtt.WithReconnectWait(time.Second, 2*time.Second))
						if err != nil {
							vrt.Failf("harness", "%v", err)
							return
						}
						rc.Handle(mqtt.HandlerFunc(func(*mqtt.Message) {}))
						if _, err := rc.Connect(vctx.Background(), "c10"); err != nil {
							vrt.Failf("harness", "connect: %v", err)
							return
						}
						op := func(name string, i int) {
							ctx, cancel := vctx.WithTimeout(vctx.Background(), 5*time.Second)
							defer cancel()
							tag := fmt.Sprintf("%s-%d", name, i)
							switch name {
							case "pub0", "pub1", "pub2":
								rc.Publish(ctx, &mqtt.Message{Topic: "t", QoS: mqtt.QoS(name[3] - '0'), Payload: []byte(tag)})
							case "sub":
								rc.Subscribe(ctx, mqtt.Subscription{Topic: tag, QoS: mqtt.QoS1})
							case "unsub":
								rc.Unsubscribe(ctx, tag)
							case "ping":
								rc.Ping(ctx)
							case "handle":
								rc.Handle(mqtt.HandlerFunc(func(*mqtt.Message) {}))
							case "stats":
								_ = rc.Stats()
							case "client":
								_ = rc.Client()
							case "disconnect":
								// the application shuts the client down while another goroutine still uses it
								rc.Disconnect(ctx)
							}
						}
						vrt.Go("op-"+a, func() { op(a, 0) })
						vrt.Go("op-"+b, func() {
							if phase == "reconnecting" {
								// issued while the library re-establishes the connection
								vrt.Await("second dial", func() bool { return len(conns) >= 2 })
							}
							op(b, 1)
						})
						vrt.Go("cutter", func() {
							vrt.Yield("peer closes the first connection")
							conns[0].PeerClose("cut")
						})
						vrt.Quiesce()
						desc := func() string { return "wire:\n  " + strings.Join(net.TraceStrings(), "\n  ") }
						for _, cn := range conns {
							c10WireAtomic(cn, desc)
						}
						c10ReportRaces("ReconnectClient "+a+"+"+b, desc)
					},
					Observe: func() uint64 { return net.TraceHash() },
				}
				c.Explore(sc)
				if net != nil {
					lastNet = net
				}
			}
		}
	}
	if lastNet != nil {
		c.Sample(map[string]any{"wire": lastNet.TraceStrings()})
	}
}
