//go:build verif

package main

// C05 — every packet the client writes is a well-formed MQTT 3.1.1 control packet carrying exactly
// the requested fields (read back by the independent codec of package env), the remaining-length
// field is the minimal encoding of the true body length for every length up to 268,435,455; an
// inbound PUBLISH is handed to the handler with exactly the encoded topic/payload/flags; messages
// the protocol cannot carry are rejected before anything is written.
//
// This file: the Pack-level enumerators (parts 1-5).  c05_client.go: the client-level scenarios
// (parts 6-8).

import (
	"bytes"
	"fmt"
	"sort"
	"strings"

	mqtt "github.com/at-wat/mqtt-go"
	"github.com/at-wat/mqtt-go/internal/verif/env"
)

func init() { register("C05", runC05) }

// c05Run carries the per-shard state of one C05 run.
type c05Run struct {
	c     *Ctx
	wi    int64 // running work-item number (sharding of the enumerator parts)
	parts map[string]float64
	buf   []byte // shared deterministic filler (payloads / bodies)
}

func (r *c05Run) add(part string, n int64) { r.parts[part] += float64(n) }

// mine advances the work-item counter and reports whether the item belongs to this shard.
func (r *c05Run) mine() bool {
	r.wi++
	return r.c.Mine(r.wi)
}

func (r *c05Run) expired(part string) bool {
	if r.c.Expired() {
		for _, p := range r.c.Res.Incomplete {
			if p == part {
				return true
			}
		}
		r.c.Res.Incomplete = append(r.c.Res.Incomplete, part)
		return true
	}
	return false
}

// filler returns n deterministic bytes (a shared, read-only buffer).
func (r *c05Run) filler(n int) []byte {
	if len(r.buf) < n {
		nb := make([]byte, n)
		for i := range nb {
			nb[i] = byte(i*31 + (i >> 8) + 7)
		}
		r.buf = nb
	}
	return r.buf[:n:n]
}

func runC05(c *Ctx) {
	r := &c05Run{c: c, parts: map[string]float64{}}
	if mqtt.VerifHasCodec {
		c05RemLen(r)
		c05PackBodies(r)
		c05PackPublish(r)
		c05PackConnect(r)
		c05PackSubscribe(r)
		c05PackAcks(r)
		c05Oversize(r)
	} else {
		c.Note("C05: the white-box wrapper around the packet structs does not compile against this tree; the Pack-level enumeration is skipped, only the client-level parts (bytes on the wire of real clients) are judged")
	}
	c05Client(r)
	if c.Res.Parts == nil {
		c.Res.Parts = map[string]any{}
	}
	keys := make([]string, 0, len(r.parts))
	for k := range r.parts {
		keys = append(keys, k)
	}
	sort.Strings(keys)
	for _, k := range keys {
		c.Res.Parts[k] = r.parts[k]
	}
	c.Note("C05: evaluations = Pack-level inputs + client-level operations judged individually (one scenario execution carries a batch of operations; the batch size is in parts.client_*); distinct_nontrivial = inputs with a multi-byte remaining length, QoS>0, a flag set, an optional CONNECT field present, or a multi-entry list")
}

// ---------------------------------------------------------------------------------------------
// Part 1a: remaining-length codec

var c05Boundaries = []int{0, 127, 128, 16383, 16384, 2097151, 2097152, env.MaxRemLen}

func c05NearBoundary(v int) bool {
	for _, b := range c05Boundaries {
		if v >= b-64 && v <= b+64 {
			return true
		}
	}
	return false
}

func c05HexShort(b []byte) string {
	if len(b) > 24 {
		return fmt.Sprintf("% x … (%d bytes)", b[:24], len(b))
	}
	return fmt.Sprintf("% x", b)
}

func c05RemLenOne(r *c05Run, v int) {
	c := r.c
	got := mqtt.VerifRemainingLength(v)
	want := env.EncodeRemLen(v)
	c.Res.Evaluations++
	if v > 127 {
		c.Res.Distinct++
	}
	dv, used, err := env.DecodeRemLen(got)
	switch {
	case err != nil:
		c.EnumFail("remlen", fmt.Sprintf("remlen/undecodable/want%dbytes", len(want)),
			fmt.Sprintf("remainingLength(%d) = [% x] is not decodable: %v (specification encoding [% x])", v, got, err, want), map[string]any{"n": v})
	case used != len(got):
		c.EnumFail("remlen", fmt.Sprintf("remlen/trailing-bytes/want%dbytes", len(want)),
			fmt.Sprintf("remainingLength(%d) = [% x]: decoder stops after %d bytes", v, got, used), map[string]any{"n": v})
	case dv != v:
		c.EnumFail("remlen", fmt.Sprintf("remlen/wrong-value/want%dbytes", len(want)),
			fmt.Sprintf("remainingLength(%d) = [% x] decodes to %d", v, got, dv), map[string]any{"n": v})
	case !bytes.Equal(got, want):
		c.EnumFail("remlen", fmt.Sprintf("remlen/not-minimal/want%dbytes", len(want)),
			fmt.Sprintf("remainingLength(%d) = [% x], minimal encoding is [% x]", v, got, want), map[string]any{"n": v})
	}
}

func c05RemLen(r *c05Run) {
	c := r.c
	var n int64
	e0 := c.Res.Evaluations
	if c.Thorough() {
		const block = 1 << 16
		ns := c.NShards
		if ns < 1 {
			ns = 1
		}
		for b := 0; b*block <= env.MaxRemLen; b++ {
			if ns > 1 && b%ns != c.Shard {
				continue
			}
			if r.expired("remlen") {
				break
			}
			hi := (b + 1) * block
			if hi > env.MaxRemLen+1 {
				hi = env.MaxRemLen + 1
			}
			for v := b * block; v < hi; v++ {
				c05RemLenOne(r, v)
			}
		}
		c.Bound("remlen", "thorough: remainingLength(n) for ALL n in 0..268435455 (contiguous blocks of 65536 dealt round-robin to the shards); decoded by env.DecodeRemLen, compared byte-for-byte with the specification algorithm env.EncodeRemLen")
	} else {
		// every 4099th value that is not inside a boundary window, then the windows themselves
		for v := 0; v <= env.MaxRemLen; v += 4099 {
			if c05NearBoundary(v) {
				continue
			}
			if !r.mine() {
				continue
			}
			c05RemLenOne(r, v)
		}
		last := -1
		for _, b := range c05Boundaries {
			for v := b - 64; v <= b+64; v++ {
				if v < 0 || v > env.MaxRemLen || v <= last {
					continue
				}
				last = v
				if !r.mine() {
					continue
				}
				c05RemLenOne(r, v)
			}
		}
		c.Bound("remlen", "quick: remainingLength(n) for every n within ±64 of 0, 127/128, 16383/16384, 2097151/2097152, 268435455 and every 4099th n in 0..268435455")
	}
	n = c.Res.Evaluations - e0
	r.add("remlen_values", n)
	if c.Mine(0) {
		c.Sample(map[string]any{"part": "remlen", "n": 16384, "library": c05HexShort(mqtt.VerifRemainingLength(16384)), "spec": c05HexShort(env.EncodeRemLen(16384))})
	}
}

// ---------------------------------------------------------------------------------------------
// Part 1b: pack(type, body...) with body lengths on the boundaries

func c05PackBodies(r *c05Run) {
	c := r.c
	lens := []int{0, 1, 2, 126, 127, 128, 129, 16382, 16383, 16384, 16385, 2097150, 2097151, 2097152, 2097153}
	firsts := []byte{0x30, 0x3B, 0x31}
	var n int64
	one := func(first byte, body []byte, split int) {
		n++
		c.Res.Evaluations++
		if len(body) > 127 || first != 0x30 || split > 0 {
			c.Res.Distinct++
		}
		var raw []byte
		if split > 0 {
			raw = mqtt.VerifPack(first, body[:split], body[split:])
		} else {
			raw = mqtt.VerifPack(first, body)
		}
		in := map[string]any{"first_byte": first, "body_len": len(body), "split_at": split}
		wl := env.EncodeRemLen(len(body))
		cls := fmt.Sprintf("want%dbytes", len(wl))
		if len(raw) < 1 || raw[0] != first {
			c.EnumFail("pack", "pack/first-byte/"+cls, fmt.Sprintf("pack(%#x, %d-byte body): first byte of [%s]", first, len(body), c05HexShort(raw)), in)
			return
		}
		v, used, err := env.DecodeRemLen(raw[1:])
		if err != nil {
			c.EnumFail("pack", "pack/remlen-undecodable/"+cls, fmt.Sprintf("pack(%#x, %d-byte body) = [%s]: %v", first, len(body), c05HexShort(raw), err), in)
			return
		}
		if v != len(body) {
			c.EnumFail("pack", "pack/remlen-value/"+cls, fmt.Sprintf("pack(%#x, %d-byte body): remaining length field says %d", first, len(body), v), in)
			return
		}
		if !bytes.Equal(raw[1:1+used], wl) {
			c.EnumFail("pack", "pack/remlen-not-minimal/"+cls, fmt.Sprintf("pack(%#x, %d-byte body): length field [% x], minimal [% x]", first, len(body), raw[1:1+used], wl), in)
			return
		}
		if !bytes.Equal(raw[1+used:], body) {
			c.EnumFail("pack", "pack/body/"+cls, fmt.Sprintf("pack(%#x, %d-byte body): body bytes differ (packet is %d bytes)", first, len(body), len(raw)), in)
			return
		}
		if len(body) >= 5 {
			// the body is a valid PUBLISH body (topic "a" + filler; packet id inside the filler for QoS>0)
			p, used, err := env.Decode(raw)
			if err != nil || used != len(raw) {
				c.EnumFail("pack", "pack/decode/"+cls, fmt.Sprintf("pack(%#x, %d-byte body): env.Decode used %d of %d bytes, err %v", first, len(body), used, len(raw), err), in)
				return
			}
			if p.Type != first>>4 || p.Flags != first&15 || !p.MinimalLen || !bytes.Equal(p.Body, body) || p.Topic != "a" {
				c.EnumFail("pack", "pack/decode-fields/"+cls, fmt.Sprintf("pack(%#x, %d-byte body): decoded type %d flags %04b minimal %v topic %q", first, len(body), p.Type, p.Flags, p.MinimalLen, p.Topic), in)
			}
		}
	}
	// one buffer, allocated once and reused; it starts with a valid topic "a" (00 01 61) so that
	// every body of >= 5 bytes is a valid PUBLISH body.  Only the shard that owns the 256 MB
	// cases allocates that much.
	giant := c.Thorough() && c.Mine(0)
	need := 2097153
	if giant {
		need = env.MaxRemLen
	}
	base := make([]byte, need)
	pat := r.filler(1 << 20)
	for i := 0; i < need; i += len(pat) {
		copy(base[i:], pat)
	}
	base[0], base[1], base[2] = 0, 1, 'a'
	for _, l := range lens {
		for _, f := range firsts {
			if !r.mine() {
				continue
			}
			if r.expired("pack") {
				return
			}
			var body []byte
			switch l {
			case 0:
				body = nil
			case 1:
				body = []byte{0x55}
			case 2:
				body = []byte{0x55, 0xAA}
			default:
				body = base[:l:l]
			}
			one(f, body, 0)
			if l >= 3 {
				one(f, body, 3) // the library packs header and payload as two chunks
			}
			if l >= 8 {
				one(f, body, l/2)
			}
		}
	}
	if giant {
		for _, l := range []int{env.MaxRemLen - 1, env.MaxRemLen} {
			if r.expired("pack") {
				return
			}
			one(0x30, base[:l:l], 0)
			one(0x3B, base[:l:l], 3)
		}
	}
	r.add("pack_bodies", n)
	b := "pack(first, body…): first byte ∈ {0x30,0x3B,0x31} × body length ∈ {0,1,2,126,127,128,129,16382,16383,16384,16385,2097150,2097151,2097152,2097153} × {one chunk, split at 3, split at len/2}"
	if c.Thorough() {
		b += "; plus body lengths 268435454 and 268435455 (first byte 0x30 one chunk, 0x3B split at 3; one shard, buffer allocated once)"
	}
	c.Bound("pack", b+"; fixed-header byte, minimal length field and body must round-trip through env.DecodeRemLen / env.Decode")
}

// ---------------------------------------------------------------------------------------------
// PUBLISH oracle (shared by the Pack level and the client level)

type c05Pub struct {
	Topic   string
	Payload []byte
	QoS     byte
	Retain  bool
	Dup     bool
	ID      uint16
	AnyID   bool // identifier chosen by the library: must be present and non-zero, value not judged
}

func (w c05Pub) describe() map[string]any {
	t := w.Topic
	if len(t) > 32 {
		t = fmt.Sprintf("%s…(%d bytes)", t[:32], len(t))
	}
	return map[string]any{"topic": t, "payload_len": len(w.Payload), "qos": w.QoS, "retain": w.Retain, "dup": w.Dup, "id": w.ID, "id_chosen_by_library": w.AnyID}
}

type c05Bad struct{ Key, Msg string }

// c05CheckPublish judges the bytes of one emitted PUBLISH against what was asked for.
func c05CheckPublish(raw []byte, w c05Pub) *c05Bad {
	p, used, err := env.Decode(raw)
	q := fmt.Sprintf("q%d", w.QoS)
	if err != nil {
		return &c05Bad{"publish/undecodable/" + q, fmt.Sprintf("emitted PUBLISH [%s] is not a well-formed packet: %v", c05HexShort(raw), err)}
	}
	if used != len(raw) {
		return &c05Bad{"publish/trailing-bytes/" + q, fmt.Sprintf("emitted PUBLISH is %d bytes but the packet ends after %d", len(raw), used)}
	}
	if p.Type != env.PUBLISH {
		return &c05Bad{"publish/type/" + q, fmt.Sprintf("packet type %s, want PUBLISH", env.TypeName(p.Type))}
	}
	if !p.MinimalLen {
		return &c05Bad{"publish/remlen-not-minimal/" + q, fmt.Sprintf("remaining length of a %d-byte body uses %d bytes", len(p.Body), p.HdrLen-1)}
	}
	if p.QoS != w.QoS {
		return &c05Bad{"publish/qos/" + q, fmt.Sprintf("QoS on the wire %d, asked %d", p.QoS, w.QoS)}
	}
	if p.Retain != w.Retain {
		return &c05Bad{"publish/retain/" + q, fmt.Sprintf("RETAIN on the wire %v, asked %v", p.Retain, w.Retain)}
	}
	if p.Dup != w.Dup {
		return &c05Bad{"publish/dup/" + q, fmt.Sprintf("DUP on the wire %v, asked %v", p.Dup, w.Dup)}
	}
	if p.Topic != w.Topic {
		return &c05Bad{"publish/topic/" + q, fmt.Sprintf("topic on the wire %.40q (%d bytes), asked %.40q (%d bytes)", p.Topic, len(p.Topic), w.Topic, len(w.Topic))}
	}
	wantBody := 2 + len(w.Topic) + len(w.Payload)
	if w.QoS > 0 {
		wantBody += 2
	}
	if len(p.Body) != wantBody {
		what := "an identifier is present although QoS is 0 or the payload length differs"
		if w.QoS > 0 {
			what = "the identifier is missing or the payload length differs"
		}
		return &c05Bad{"publish/id-presence/" + q, fmt.Sprintf("body is %d bytes, want %d (%s)", len(p.Body), wantBody, what)}
	}
	if w.QoS > 0 {
		if w.AnyID {
			if p.ID == 0 {
				return &c05Bad{"publish/id-zero/" + q, "packet identifier 0 on a QoS>0 PUBLISH [MQTT-2.3.1-1]"}
			}
		} else if p.ID != w.ID {
			return &c05Bad{"publish/id/" + q, fmt.Sprintf("packet identifier on the wire %#04x, asked %#04x", p.ID, w.ID)}
		}
	}
	if !bytes.Equal(p.Payload, w.Payload) {
		return &c05Bad{"publish/payload/" + q, fmt.Sprintf("payload differs (wire %d bytes [%s], asked %d bytes [%s])", len(p.Payload), c05HexShort(p.Payload), len(w.Payload), c05HexShort(w.Payload))}
	}
	return nil
}

func c05PubNontrivial(w c05Pub) bool {
	body := 2 + len(w.Topic) + len(w.Payload)
	if w.QoS > 0 {
		body += 2
	}
	return w.QoS > 0 || w.Retain || w.Dup || body > 127
}

var c05LongTopic = strings.Repeat("ab/", 21845) // 65535 bytes

func c05Topics() []string { return []string{"a", "a/b/c", "é", "€x", c05LongTopic} }

// c05PayloadLens returns the payload lengths that put the PUBLISH body length on B-1, B, B+1, B+2
// for every remaining-length boundary B, plus 0 and 1.
func c05PayloadLens(topic string, qos byte, thorough bool) []int {
	over := 2 + len(topic)
	if qos > 0 {
		over += 2
	}
	set := map[int]bool{0: true, 1: true}
	bs := []int{127, 16383}
	if thorough {
		bs = append(bs, 2097151)
	}
	for _, b := range bs {
		for d := -1; d <= 2; d++ {
			if l := b + d - over; l >= 0 {
				set[l] = true
			}
		}
	}
	var out []int
	for l := range set {
		out = append(out, l)
	}
	sort.Ints(out)
	return out
}

// ---------------------------------------------------------------------------------------------
// Part 2: PUBLISH at Pack level

func c05PackPublish(r *c05Run) {
	c := r.c
	var n int64
	ids := []uint16{1, 0x00FF, 0x0100, 0xFFFF}
	sampled := false
	for _, topic := range c05Topics() {
		for qos := byte(0); qos <= 2; qos++ {
			for _, pl := range c05PayloadLens(topic, qos, c.Thorough()) {
				for _, retain := range []bool{false, true} {
					for _, dup := range []bool{false, true} {
						for _, id := range ids {
							if !r.mine() {
								continue
							}
							if r.expired("publish_pack") {
								return
							}
							w := c05Pub{Topic: topic, Payload: r.filler(pl), QoS: qos, Retain: retain, Dup: dup, ID: id}
							n++
							c.Res.Evaluations++
							if c05PubNontrivial(w) {
								c.Res.Distinct++
							}
							raw := mqtt.VerifPackPublish(&mqtt.Message{Topic: topic, Payload: w.Payload, QoS: mqtt.QoS(qos), Retain: retain, Dup: dup, ID: id})
							if bad := c05CheckPublish(raw, w); bad != nil {
								c.EnumFail("publish_pack", bad.Key, bad.Msg, w.describe())
							}
							if !sampled && qos == 2 && retain && len(topic) == 2 && pl > 100 {
								sampled = true
								c.Sample(map[string]any{"part": "publish_pack", "asked": w.describe(), "wire": c05HexShort(raw)})
							}
						}
					}
				}
			}
		}
	}
	r.add("publish_pack", n)
	b := "topics {\"a\",\"a/b/c\",\"é\",\"€x\",65535-byte \"ab/ab/…\"} × QoS{0,1,2} × payload lengths {0,1} ∪ {lengths putting the body on B-1,B,B+1,B+2 for B∈{127,16383"
	if c.Thorough() {
		b += ",2097151"
	}
	b += "}} × retain × dup × id{1,0x00FF,0x0100,0xFFFF} through pktPublish.Pack; decoded by env.Decode: minimal length, topic/payload/QoS/retain/dup equal, identifier iff QoS>0"
	c.Bound("publish_pack", b)
}

// ---------------------------------------------------------------------------------------------
// CONNECT oracle (shared)

type c05Will struct {
	Topic   string
	Payload []byte
	QoS     byte
	Retain  bool
}

type c05Conn struct {
	Level     byte
	Clean     bool
	KeepAlive uint16
	ClientID  string
	User      string
	Pass      string
	Will      *c05Will
}

func (w c05Conn) describe() map[string]any {
	m := map[string]any{"level": w.Level, "clean": w.Clean, "keep_alive": w.KeepAlive, "client_id": w.ClientID, "user": w.User, "password": w.Pass}
	if w.Will != nil {
		m["will"] = map[string]any{"topic": w.Will.Topic, "payload": string(w.Will.Payload), "qos": w.Will.QoS, "retain": w.Will.Retain}
	}
	return m
}

const c05KeyPassNoUser = "connect/password-without-username"

// c05CheckConnect judges the bytes of one emitted CONNECT.
func c05CheckConnect(raw []byte, w c05Conn) *c05Bad {
	if w.Level != 4 {
		// MQTT 3.1 is outside the 3.1.1 specification the oracle is written from; only the level
		// byte is judged (the repository's own test pins the name "MQTT" with level 3).
		if len(raw) < 2 {
			return &c05Bad{"connect/level3/frame", fmt.Sprintf("CONNECT [%s]: too short", c05HexShort(raw))}
		}
		rl, used, err := env.DecodeRemLen(raw[1:])
		if err != nil || raw[0] != env.CONNECT<<4 || 1+used+rl != len(raw) || rl < 2 {
			return &c05Bad{"connect/level3/frame", fmt.Sprintf("CONNECT [%s]: bad framing (%v)", c05HexShort(raw), err)}
		}
		body := raw[1+used:]
		nl := int(body[0])<<8 | int(body[1])
		if len(body) < 2+nl+1 {
			return &c05Bad{"connect/level3/frame", fmt.Sprintf("CONNECT [%s]: protocol name overruns the body", c05HexShort(raw))}
		}
		if body[2+nl] != w.Level {
			return &c05Bad{"connect/level", fmt.Sprintf("protocol level byte %d, asked %d", body[2+nl], w.Level)}
		}
		return nil
	}
	p, used, err := env.Decode(raw)
	if err != nil {
		if p != nil && p.Type == env.CONNECT && p.HasPass && !p.HasUser {
			return &c05Bad{c05KeyPassNoUser, fmt.Sprintf("CONNECT asked with password %q and no user name is written with connect flags %08b: password flag set, user name flag clear, which MQTT 3.1.1 forbids [MQTT-3.1.2-22] (decoder: %v); bytes [%s]", w.Pass, p.ConnFlags, err, c05HexShort(raw))}
		}
		return &c05Bad{"connect/undecodable", fmt.Sprintf("emitted CONNECT [%s] is not a well-formed packet: %v", c05HexShort(raw), err)}
	}
	if used != len(raw) {
		return &c05Bad{"connect/trailing-bytes", fmt.Sprintf("emitted CONNECT is %d bytes but the packet ends after %d", len(raw), used)}
	}
	if p.Type != env.CONNECT {
		return &c05Bad{"connect/type", fmt.Sprintf("packet type %s, want CONNECT", env.TypeName(p.Type))}
	}
	if !p.MinimalLen {
		return &c05Bad{"connect/remlen-not-minimal", fmt.Sprintf("remaining length of a %d-byte body uses %d bytes", len(p.Body), p.HdrLen-1)}
	}
	if p.ProtoName != "MQTT" {
		return &c05Bad{"connect/protocol-name", fmt.Sprintf("protocol name %q, want \"MQTT\"", p.ProtoName)}
	}
	if p.Level != w.Level {
		return &c05Bad{"connect/level", fmt.Sprintf("protocol level byte %d, asked %d", p.Level, w.Level)}
	}
	if p.Clean != w.Clean {
		return &c05Bad{"connect/clean-session", fmt.Sprintf("clean session flag %v, asked %v", p.Clean, w.Clean)}
	}
	if p.KeepAlive != w.KeepAlive {
		return &c05Bad{"connect/keep-alive", fmt.Sprintf("keep alive %d, asked %d", p.KeepAlive, w.KeepAlive)}
	}
	if p.ClientID != w.ClientID {
		return &c05Bad{"connect/client-id", fmt.Sprintf("client id %q, asked %q", p.ClientID, w.ClientID)}
	}
	if p.HasWill != (w.Will != nil) {
		return &c05Bad{"connect/will-flag", fmt.Sprintf("will flag %v, will asked %v", p.HasWill, w.Will != nil)}
	}
	if w.Will != nil {
		if p.WillQoS != w.Will.QoS {
			return &c05Bad{"connect/will-qos", fmt.Sprintf("will QoS %d, asked %d", p.WillQoS, w.Will.QoS)}
		}
		if p.WillRetain != w.Will.Retain {
			return &c05Bad{"connect/will-retain", fmt.Sprintf("will retain %v, asked %v", p.WillRetain, w.Will.Retain)}
		}
		if p.WillTopic != w.Will.Topic {
			return &c05Bad{"connect/will-topic", fmt.Sprintf("will topic %q, asked %q", p.WillTopic, w.Will.Topic)}
		}
		if !bytes.Equal(p.WillMsg, w.Will.Payload) {
			return &c05Bad{"connect/will-message", fmt.Sprintf("will message %q, asked %q", p.WillMsg, w.Will.Payload)}
		}
	}
	if w.Pass != "" && w.User == "" {
		// There is no well-formed MQTT 3.1.1 CONNECT that carries a password without a user name,
		// so a library that reaches here chose some well-formed substitute; its credentials
		// fields are not judged (the statement does not say which substitute is right).
		return nil
	}
	if p.HasUser != (w.User != "") {
		return &c05Bad{"connect/user-flag", fmt.Sprintf("user name flag %v, user name asked %q", p.HasUser, w.User)}
	}
	if p.User != w.User {
		return &c05Bad{"connect/user", fmt.Sprintf("user name %q, asked %q", p.User, w.User)}
	}
	if p.HasPass != (w.Pass != "") {
		return &c05Bad{"connect/password-flag", fmt.Sprintf("password flag %v, password asked %q", p.HasPass, w.Pass)}
	}
	if string(p.Pass) != w.Pass {
		return &c05Bad{"connect/password", fmt.Sprintf("password %q, asked %q", p.Pass, w.Pass)}
	}
	return nil
}

func c05ConnNontrivial(w c05Conn) bool {
	return w.Clean || w.Will != nil || w.User != "" || w.Pass != "" || w.KeepAlive != 0 || w.Level != 4
}

func c05Wills() []*c05Will {
	out := []*c05Will{nil}
	for q := byte(0); q <= 2; q++ {
		for _, ret := range []bool{false, true} {
			for _, pl := range [][]byte{nil, []byte("bye")} {
				out = append(out, &c05Will{Topic: "w/é", Payload: pl, QoS: q, Retain: ret})
			}
		}
	}
	return out
}

func (w *c05Will) msg() *mqtt.Message {
	if w == nil {
		return nil
	}
	return &mqtt.Message{Topic: w.Topic, Payload: w.Payload, QoS: mqtt.QoS(w.QoS), Retain: w.Retain}
}

var c05LongPass = strings.Repeat("p", 120)

// ---------------------------------------------------------------------------------------------
// Part 3: CONNECT at Pack level

func c05PackConnect(r *c05Run) {
	c := r.c
	var n int64
	sampled := false
	for _, level := range []byte{4, 3} {
		for _, clean := range []bool{false, true} {
			for _, will := range c05Wills() {
				for _, user := range []string{"", "user", "ü€"} {
					for _, pass := range []string{"", "pass", c05LongPass} {
						for _, ka := range []uint16{0, 1, 0xFFFF} {
							for _, cid := range []string{"", "cid", "0123456789abcdefghijklm"} {
								if !r.mine() {
									continue
								}
								w := c05Conn{Level: level, Clean: clean, KeepAlive: ka, ClientID: cid, User: user, Pass: pass, Will: will}
								n++
								c.Res.Evaluations++
								if c05ConnNontrivial(w) {
									c.Res.Distinct++
								}
								raw := mqtt.VerifPackConnect(mqtt.ProtocolLevel(level), clean, ka, cid, user, pass, will.msg())
								if bad := c05CheckConnect(raw, w); bad != nil {
									c.EnumFail("connect_pack", bad.Key, bad.Msg, w.describe())
								}
								if !sampled && level == 4 && clean && will != nil && will.QoS == 1 && user != "" && pass == "pass" && ka == 1 && cid == "cid" {
									sampled = true
									c.Sample(map[string]any{"part": "connect_pack", "asked": w.describe(), "wire": c05HexShort(raw)})
								}
							}
						}
					}
				}
			}
		}
	}
	r.add("connect_pack", n)
	c.Bound("connect_pack", "level{4,3} × clean × will{none, QoS{0,1,2} × retain × payload{empty,\"bye\"}} × user{\"\",\"user\",\"ü€\"} × password{\"\",\"pass\",120 bytes} × keep-alive{0,1,0xFFFF} × client id{\"\",\"cid\",23 chars} through pktConnect.Pack; decoded by env.Decode: every flag and field equal (level 3: only the level byte is judged; password without user name: well-formedness judged, key "+c05KeyPassNoUser+")")
}

// ---------------------------------------------------------------------------------------------
// SUBSCRIBE / UNSUBSCRIBE oracle (shared)

type c05Sub struct {
	Filter string
	QoS    byte
}

func c05SubsString(subs []c05Sub) string {
	var s []string
	for _, e := range subs {
		f := e.Filter
		if len(f) > 16 {
			f = fmt.Sprintf("%s…(%d)", f[:8], len(f))
		}
		s = append(s, fmt.Sprintf("%s:q%d", f, e.QoS))
	}
	return strings.Join(s, ",")
}

func c05FiltersString(fs []string) string {
	var s []string
	for _, f := range fs {
		if len(f) > 16 {
			f = fmt.Sprintf("%s…(%d)", f[:8], len(f))
		}
		s = append(s, f)
	}
	return strings.Join(s, ",")
}

// c05CheckSubLike judges an emitted SUBSCRIBE (qos != nil) or UNSUBSCRIBE (qos == nil).
// anyID: the identifier was chosen by the library (must be non-zero, value not judged).
func c05CheckSubLike(raw []byte, typ byte, id uint16, anyID bool, filters []string, qos []byte) *c05Bad {
	name := strings.ToLower(env.TypeName(typ))
	p, used, err := env.Decode(raw)
	if err != nil {
		if p != nil && p.Type == typ && p.Flags != 2 {
			return &c05Bad{name + "/reserved-flags", fmt.Sprintf("%s fixed-header flags %04b, must be 0010 [MQTT-3.8.1-1/3.10.1-1]; bytes [%s]", env.TypeName(typ), p.Flags, c05HexShort(raw))}
		}
		return &c05Bad{name + "/undecodable", fmt.Sprintf("emitted %s [%s] is not a well-formed packet: %v", env.TypeName(typ), c05HexShort(raw), err)}
	}
	if used != len(raw) {
		return &c05Bad{name + "/trailing-bytes", fmt.Sprintf("emitted %s is %d bytes but the packet ends after %d", env.TypeName(typ), len(raw), used)}
	}
	if p.Type != typ {
		return &c05Bad{name + "/type", fmt.Sprintf("packet type %s, want %s", env.TypeName(p.Type), env.TypeName(typ))}
	}
	if p.Flags != 2 {
		return &c05Bad{name + "/reserved-flags", fmt.Sprintf("fixed-header flags %04b, must be 0010", p.Flags)}
	}
	if !p.MinimalLen {
		return &c05Bad{name + "/remlen-not-minimal", fmt.Sprintf("remaining length of a %d-byte body uses %d bytes", len(p.Body), p.HdrLen-1)}
	}
	if anyID {
		if p.ID == 0 {
			return &c05Bad{name + "/id-zero", "packet identifier 0 [MQTT-2.3.1-1]"}
		}
	} else if p.ID != id {
		return &c05Bad{name + "/id", fmt.Sprintf("packet identifier %#04x, asked %#04x", p.ID, id)}
	}
	if len(p.Filters) != len(filters) {
		return &c05Bad{name + "/filter-count", fmt.Sprintf("%d filters on the wire (%s), asked %d (%s)", len(p.Filters), c05FiltersString(p.Filters), len(filters), c05FiltersString(filters))}
	}
	for i := range filters {
		if p.Filters[i] != filters[i] {
			return &c05Bad{name + "/filter", fmt.Sprintf("filter #%d on the wire %.40q, asked %.40q (wire list %s)", i, p.Filters[i], filters[i], c05FiltersString(p.Filters))}
		}
		if qos != nil && p.QoSs[i] != qos[i] {
			return &c05Bad{name + "/qos", fmt.Sprintf("requested QoS #%d on the wire %d, asked %d", i, p.QoSs[i], qos[i])}
		}
	}
	return nil
}

var c05Filters = []string{"a", "a/+", "#", "é/b"}

// c05SubLists enumerates every list of length 1..maxLen over filters × QoS{0,1,2}.
func c05SubLists(maxLen int, f func(l []c05Sub)) {
	var alpha []c05Sub
	for _, fl := range c05Filters {
		for q := byte(0); q <= 2; q++ {
			alpha = append(alpha, c05Sub{fl, q})
		}
	}
	var rec func(cur []c05Sub)
	rec = func(cur []c05Sub) {
		if len(cur) > 0 {
			f(append([]c05Sub(nil), cur...))
		}
		if len(cur) == maxLen {
			return
		}
		for _, a := range alpha {
			rec(append(cur, a))
		}
	}
	rec(nil)
}

// c05FilterLists enumerates every list of length 1..maxLen over the filters.
func c05FilterLists(maxLen int, f func(l []string)) {
	var rec func(cur []string)
	rec = func(cur []string) {
		if len(cur) > 0 {
			f(append([]string(nil), cur...))
		}
		if len(cur) == maxLen {
			return
		}
		for _, a := range c05Filters {
			rec(append(cur, a))
		}
	}
	rec(nil)
}

func c05SplitSubs(l []c05Sub) (ms []mqtt.Subscription, fs []string, qs []byte) {
	for _, e := range l {
		ms = append(ms, mqtt.Subscription{Topic: e.Filter, QoS: mqtt.QoS(e.QoS)})
		fs = append(fs, e.Filter)
		qs = append(qs, e.QoS)
	}
	return
}

// ---------------------------------------------------------------------------------------------
// Part 4: SUBSCRIBE / UNSUBSCRIBE at Pack level

func c05PackSubscribe(r *c05Run) {
	c := r.c
	var ns, nu int64
	ids := []uint16{1, 0xFFFF}
	sampled := false
	doSub := func(l []c05Sub, id uint16) {
		ms, fs, qs := c05SplitSubs(l)
		ns++
		c.Res.Evaluations++
		nt := len(l) > 1
		for _, e := range l {
			if e.QoS > 0 || len(e.Filter) > 100 {
				nt = true
			}
		}
		if nt {
			c.Res.Distinct++
		}
		raw := mqtt.VerifPackSubscribe(id, ms)
		if bad := c05CheckSubLike(raw, env.SUBSCRIBE, id, false, fs, qs); bad != nil {
			c.EnumFail("subscribe_pack", bad.Key, bad.Msg, map[string]any{"id": id, "subscriptions": c05SubsString(l)})
		}
		if !sampled && len(l) == 3 && l[0].QoS == 1 && l[1].QoS == 2 && l[2].Filter == "é/b" {
			sampled = true
			c.Sample(map[string]any{"part": "subscribe_pack", "id": id, "asked": c05SubsString(l), "wire": c05HexShort(raw)})
		}
	}
	doUnsub := func(fs []string, id uint16) {
		nu++
		c.Res.Evaluations++
		if len(fs) > 1 || len(fs[0]) > 100 {
			c.Res.Distinct++
		}
		raw := mqtt.VerifPackUnsubscribe(id, fs)
		if bad := c05CheckSubLike(raw, env.UNSUBSCRIBE, id, false, fs, nil); bad != nil {
			c.EnumFail("unsubscribe_pack", bad.Key, bad.Msg, map[string]any{"id": id, "filters": c05FiltersString(fs)})
		}
	}
	for _, id := range ids {
		c05SubLists(3, func(l []c05Sub) {
			if r.mine() {
				doSub(l, id)
			}
		})
		c05FilterLists(3, func(fs []string) {
			if r.mine() {
				doUnsub(fs, id)
			}
		})
		// extra: lists whose body crosses the 127/128 and 16383/16384 length boundaries
		for _, fl := range []int{119, 120, 121, 122, 123, 16375, 16376, 16377, 16378, 16379, 65535} {
			long := strings.Repeat("f", fl)
			for q := byte(0); q <= 2; q++ {
				if r.mine() {
					doSub([]c05Sub{{"a", 1}, {long, q}}, id)
				}
			}
			if r.mine() {
				doUnsub([]string{"a", long}, id)
			}
		}
	}
	r.add("subscribe_pack", ns)
	r.add("unsubscribe_pack", nu)
	c.Bound("subscribe_pack", "SUBSCRIBE: every list of length 1..3 over filters {\"a\",\"a/+\",\"#\",\"é/b\"} × QoS{0,1,2} per entry (12+144+1728) × id{1,0xFFFF}, plus [a:q1, F:q] with |F| ∈ {119..123,16375..16379,65535} × q{0,1,2}; UNSUBSCRIBE: every list of length 1..3 over the 4 filters (4+16+64) × id{1,0xFFFF}, plus [a,F]; decoded by env.Decode: filters and QoS in order, id, reserved flags 0010, minimal length")
}

// ---------------------------------------------------------------------------------------------
// Part 5: PUBACK / PUBREC / PUBREL / PUBCOMP packers

// c05CheckAck judges an emitted PUBACK/PUBREC/PUBREL/PUBCOMP.
func c05CheckAck(raw []byte, typ byte, id uint16) *c05Bad {
	name := strings.ToLower(env.TypeName(typ))
	wantFlags := byte(0)
	if typ == env.PUBREL {
		wantFlags = 2
	}
	p, used, err := env.Decode(raw)
	if err != nil {
		if p != nil && p.Type == typ && p.Flags != wantFlags {
			return &c05Bad{name + "/reserved-flags", fmt.Sprintf("%s fixed-header flags %04b, must be %04b; bytes [%s]", env.TypeName(typ), p.Flags, wantFlags, c05HexShort(raw))}
		}
		return &c05Bad{name + "/undecodable", fmt.Sprintf("emitted %s [%s] is not a well-formed packet: %v", env.TypeName(typ), c05HexShort(raw), err)}
	}
	if used != len(raw) || len(raw) != 4 {
		return &c05Bad{name + "/length", fmt.Sprintf("emitted %s is %d bytes, packet ends after %d, want 4", env.TypeName(typ), len(raw), used)}
	}
	if p.Type != typ {
		return &c05Bad{name + "/type", fmt.Sprintf("packet type %s, want %s", env.TypeName(p.Type), env.TypeName(typ))}
	}
	if p.Flags != wantFlags {
		return &c05Bad{name + "/reserved-flags", fmt.Sprintf("fixed-header flags %04b, must be %04b", p.Flags, wantFlags)}
	}
	if p.ID != id {
		return &c05Bad{name + "/id", fmt.Sprintf("packet identifier %#04x, asked %#04x", p.ID, id)}
	}
	return nil
}

func c05PackAcks(r *c05Run) {
	c := r.c
	var n int64
	type packer struct {
		typ byte
		f   func(uint16) []byte
	}
	ps := []packer{{env.PUBACK, mqtt.VerifPackPubAck}, {env.PUBREC, mqtt.VerifPackPubRec}, {env.PUBREL, mqtt.VerifPackPubRel}, {env.PUBCOMP, mqtt.VerifPackPubComp}}
	for _, pk := range ps {
		for id := 1; id <= 0xFFFF; id++ {
			if !r.mine() {
				continue
			}
			n++
			c.Res.Evaluations++
			if pk.typ == env.PUBREL {
				c.Res.Distinct++ // reserved flag bits 0010
			}
			raw := pk.f(uint16(id))
			if bad := c05CheckAck(raw, pk.typ, uint16(id)); bad != nil {
				c.EnumFail("ack_pack", bad.Key, bad.Msg, map[string]any{"type": env.TypeName(pk.typ), "id": id})
			}
		}
	}
	r.add("ack_pack", n)
	c.Bound("ack_pack", "PUBACK, PUBREC, PUBREL, PUBCOMP packers for every id 1..65535: 4 bytes, reserved flags 0000 (PUBREL 0010), id equal; PINGREQ / DISCONNECT bytes are judged at client level")
}

// ---------------------------------------------------------------------------------------------
// Part 1g: strings the protocol cannot carry (longer than 65,535 bytes).  Their two-byte length
// prefix cannot hold the length: the packer must refuse (the library panics before anything is
// produced); producing bytes would put a packet with a truncated length prefix on the wire.

func c05Oversize(r *c05Run) {
	c := r.c
	c.Bound("oversize_strings", "topic / filter / client id / user name / will topic of 65,536 and 65,541 bytes through the packers: either nothing is produced (refusal, a panic included) or what is produced decodes to exactly the given string")
	for _, n := range []int{65536, 65541} {
		big := strings.Repeat("x", n)
		cases := []struct {
			name string
			pack func() []byte
			get  func(p *env.Packet) string
		}{
			{"publish-topic", func() []byte { return mqtt.VerifPackPublish(&mqtt.Message{Topic: big, Payload: []byte("p")}) }, func(p *env.Packet) string { return p.Topic }},
			{"subscribe-filter", func() []byte { return mqtt.VerifPackSubscribe(1, []mqtt.Subscription{{Topic: big, QoS: mqtt.QoS1}}) }, func(p *env.Packet) string {
				if len(p.Filters) == 1 {
					return p.Filters[0]
				}
				return ""
			}},
			{"unsubscribe-filter", func() []byte { return mqtt.VerifPackUnsubscribe(1, []string{big}) }, func(p *env.Packet) string {
				if len(p.Filters) == 1 {
					return p.Filters[0]
				}
				return ""
			}},
			{"connect-client-id", func() []byte { return mqtt.VerifPackConnect(4, true, 0, big, "", "", nil) }, func(p *env.Packet) string { return p.ClientID }},
			{"connect-user", func() []byte { return mqtt.VerifPackConnect(4, true, 0, "cid", big, "pw", nil) }, func(p *env.Packet) string { return p.User }},
		}
		for _, cs := range cases {
			if !r.mine() {
				continue
			}
			c.Res.Evaluations++
			c.Res.Distinct++
			var raw []byte
			refused := ""
			func() {
				defer func() {
					if x := recover(); x != nil {
						refused = fmt.Sprint(x)
					}
				}()
				raw = cs.pack()
			}()
			if refused != "" || len(raw) == 0 {
				continue // nothing was produced
			}
			p, _, err := env.Decode(raw)
			if err != nil || p == nil || cs.get(p) != big {
				got := -1
				if p != nil {
					got = len(cs.get(p))
				}
				c.EnumFail("oversize", "oversize-string-encoded/"+cs.name, fmt.Sprintf("%s of %d bytes was packed into %d bytes that decode to a string of %d bytes (decode error %v): the two-byte length prefix cannot carry it and the packer did not refuse", cs.name, n, len(raw), got, err), map[string]any{"field": cs.name, "length": n})
			}
		}
	}
	r.add("oversize_strings", 10)
}
