//go:build verif

// Command h is the harness binary: it contains every check's scenarios and
// enumerators, linked against the rewritten library.  The coordinator (vcheck)
// starts one process per shard.
package main

import (
	"encoding/json"
	"flag"
	"fmt"
	"os"
	"runtime/pprof"
	"sort"
	"strings"
	"time"

	"github.com/at-wat/mqtt-go/internal/verif/vrt"
)

// Check is one registered property check.
type Check struct {
	ID  string
	Run func(c *Ctx)
}

var registry = map[string]*Check{}

func register(id string, run func(c *Ctx)) { registry[id] = &Check{ID: id, Run: run} }

// EnumViolation is a failing input of an enumerator part.
type EnumViolation struct {
	Part  string `json:"part"`
	Key   string `json:"key"`
	Msg   string `json:"msg"`
	Input any    `json:"input,omitempty"`
}

// Result is what one shard reports.
type Result struct {
	Check       string          `json:"check"`
	Shard       int             `json:"shard"`
	Scenarios   int64           `json:"scenarios"`
	Execs       int64           `json:"execs"`
	States      int64           `json:"states"`
	Transitions int64           `json:"transitions"`
	Evaluations int64           `json:"evaluations"`
	Distinct    int64           `json:"distinct_nontrivial"`
	MaxDepth    int             `json:"max_depth"`
	MaxPoints   int             `json:"max_points"`
	Pruned      int64           `json:"pruned"`
	CapHits     int64           `json:"cap_hits"`
	Violations  []vrt.Violation `json:"violations,omitempty"`
	EnumViol    []EnumViolation `json:"enum_violations,omitempty"`
	Samples     []any           `json:"samples,omitempty"`
	Incomplete  []string        `json:"incomplete,omitempty"`
	Bounds      map[string]any  `json:"bounds,omitempty"`
	Parts       map[string]any  `json:"parts,omitempty"`
	Notes       []string        `json:"notes,omitempty"`
	EngineError string          `json:"engine_error,omitempty"`
	TimedOut    bool            `json:"timed_out"`
	WallS       float64         `json:"wall_s"`
}

// Ctx is handed to a check's Run function.
type Ctx struct {
	Tier     string
	Shard    int
	NShards  int
	Deadline time.Time
	Res      *Result
	Filter   string // debugging: explore only scenarios whose name contains this string
	Only     string // replay: run only the scenario with this name
	Replay   []int  // replay: choice list
	scIndex  int64
	replayed bool
	enumKeys map[string]bool
}

// Thorough reports whether the thorough tier was requested.
func (c *Ctx) Thorough() bool { return c.Tier == "thorough" }

// Mine reports whether work item number i belongs to this shard.
func (c *Ctx) Mine(i int64) bool { return c.NShards <= 1 || int(i%int64(c.NShards)) == c.Shard }

// Expired reports whether the wall-clock budget is used up.
func (c *Ctx) Expired() bool {
	if c.Res.TimedOut {
		return true
	}
	if !c.Deadline.IsZero() && time.Now().After(c.Deadline) {
		c.Res.TimedOut = true
		return true
	}
	return false
}

// Bound records a bound in the evidence.
func (c *Ctx) Bound(k string, v any) {
	if c.Res.Bounds == nil {
		c.Res.Bounds = map[string]any{}
	}
	c.Res.Bounds[k] = v
}

// Note adds a free-text note to the evidence.
func (c *Ctx) Note(format string, a ...any) {
	s := fmt.Sprintf(format, a...)
	for _, n := range c.Res.Notes {
		if n == s {
			return
		}
	}
	if len(c.Res.Notes) < 50 {
		c.Res.Notes = append(c.Res.Notes, s)
	}
}

// Sample records an example case (at most a few are kept).
func (c *Ctx) Sample(v any) {
	if len(c.Res.Samples) < 6 {
		c.Res.Samples = append(c.Res.Samples, v)
	}
}

// EnumFail records a failing input of an enumerator part (deduplicated by key).
func (c *Ctx) EnumFail(part, key, msg string, input any) {
	if c.enumKeys == nil {
		c.enumKeys = map[string]bool{}
	}
	k := part + "|" + key
	if c.enumKeys[k] || len(c.Res.EnumViol) >= 40 {
		return
	}
	c.enumKeys[k] = true
	c.Res.EnumViol = append(c.Res.EnumViol, EnumViolation{Part: part, Key: key, Msg: msg, Input: input})
}

// Explore runs one scenario exhaustively within its bound (if it belongs to this shard).
func (c *Ctx) Explore(sc *vrt.Scenario) {
	i := c.scIndex
	c.scIndex++
	if c.Only != "" {
		if sc.Name != c.Only || c.replayed {
			return
		}
		c.replayed = true
		o := vrt.Replay(sc, c.Replay)
		if sc.Observe != nil {
			sc.Observe()
		}
		for _, l := range o.Trace {
			fmt.Println(l)
		}
		if len(o.Failures) == 0 {
			fmt.Println("REPLAY: no failure")
		}
		for _, f := range o.Failures {
			fmt.Printf("REPLAY FAILURE kind=%s key=%s\n%s\n", f.Kind, f.Key, f.Msg)
			c.Res.Violations = append(c.Res.Violations, vrt.Violation{Scenario: sc.Name, Kind: f.Kind, Key: f.Key, Msg: f.Msg, Choices: c.Replay})
		}
		return
	}
	if c.Filter != "" {
		if !strings.Contains(sc.Name, c.Filter) {
			return
		}
	} else if !c.Mine(i) {
		return
	}
	if c.Expired() {
		if len(c.Res.Incomplete) < 20 {
			c.Res.Incomplete = append(c.Res.Incomplete, sc.Name)
		}
		return
	}
	ex := &vrt.Explorer{Sc: sc, Deadline: c.Deadline}
	t0 := time.Now()
	ex.Run()
	st := &ex.Stats
	// per-family totals (second component of the scenario name), summed over the shards by the coordinator
	if np := strings.SplitN(sc.Name, "/", 3); len(np) >= 2 {
		if c.Res.Parts == nil {
			c.Res.Parts = map[string]any{}
		}
		for k, v := range map[string]float64{"scenarios": 1, "executions": float64(st.Execs), "cpu_ms": float64(time.Since(t0).Milliseconds())} {
			old, _ := c.Res.Parts["family."+np[1]+"."+k].(float64)
			c.Res.Parts["family."+np[1]+"."+k] = old + v
		}
	}
	if c.Filter != "" {
		fmt.Fprintf(os.Stderr, "%s: execs=%d states=%d transitions=%d pruned=%d maxpoints=%d maxdepth=%d complete=%v level=%d distinct=%d viol=%d\n", sc.Name, st.Execs, st.States, st.Transitions, st.Pruned, st.MaxPoints, st.MaxDepth, st.Complete, st.LevelDone, len(st.Distinct), len(ex.Violations))
	}
	c.Res.Scenarios++
	c.Res.Execs += st.Execs
	c.Res.States += st.States
	c.Res.Transitions += st.Transitions
	c.Res.Pruned += st.Pruned
	c.Res.CapHits += st.CapHits
	c.Res.Distinct += int64(len(st.DistinctDev))
	if st.MaxDepth > c.Res.MaxDepth {
		c.Res.MaxDepth = st.MaxDepth
	}
	if st.MaxPoints > c.Res.MaxPoints {
		c.Res.MaxPoints = st.MaxPoints
	}
	if e := ex.EngineError(); e != "" {
		c.Res.EngineError = sc.Name + ": " + e
	}
	if !st.Complete {
		if st.TimedOut {
			c.Res.TimedOut = true
		}
		if len(c.Res.Incomplete) < 20 {
			c.Res.Incomplete = append(c.Res.Incomplete, fmt.Sprintf("%s (level done %d)", sc.Name, st.LevelDone))
		}
	}
	for _, v := range ex.Violations {
		if len(c.Res.Violations) < 60 {
			c.Res.Violations = append(c.Res.Violations, v)
		}
	}
}

func main() {
	check := flag.String("check", "", "check id")
	tier := flag.String("tier", "quick", "quick|thorough")
	shard := flag.Int("shard", 0, "shard index")
	nshards := flag.Int("nshards", 1, "number of shards")
	out := flag.String("out", "", "result file")
	budget := flag.Float64("budget", 0, "wall-clock budget in seconds (0 = none)")
	replay := flag.String("replay", "", "replay file")
	list := flag.Bool("list", false, "list checks")
	filter := flag.String("filter", "", "explore only scenarios whose name contains this")
	cpuprof := flag.String("cpuprofile", "", "write cpu profile")
	flag.Parse()
	if *cpuprof != "" {
		f, _ := os.Create(*cpuprof)
		pprof.StartCPUProfile(f)
		defer pprof.StopCPUProfile()
	}
	if *list {
		var ids []string
		for id := range registry {
			ids = append(ids, id)
		}
		sort.Strings(ids)
		fmt.Println(strings.Join(ids, " "))
		return
	}
	ck := registry[*check]
	if ck == nil {
		fmt.Fprintf(os.Stderr, "unknown check %q\n", *check)
		os.Exit(2)
	}
	t0 := time.Now()
	res := &Result{Check: *check, Shard: *shard}
	ctx := &Ctx{Tier: *tier, Shard: *shard, NShards: *nshards, Res: res}
	ctx.Filter = *filter
	if *budget > 0 {
		ctx.Deadline = t0.Add(time.Duration(*budget * float64(time.Second)))
	}
	if *replay != "" {
		b, err := os.ReadFile(*replay)
		if err != nil {
			fmt.Fprintln(os.Stderr, err)
			os.Exit(2)
		}
		var rp struct {
			Scenario string `json:"scenario"`
			Tier     string `json:"tier"`
			Choices  []int  `json:"choices"`
		}
		if err := json.Unmarshal(b, &rp); err != nil {
			fmt.Fprintln(os.Stderr, err)
			os.Exit(2)
		}
		ctx.Only, ctx.Replay = rp.Scenario, rp.Choices
		if rp.Tier != "" {
			ctx.Tier = rp.Tier
		}
		ctx.NShards = 1
		ck.Run(ctx)
		if !ctx.replayed {
			fmt.Printf("REPLAY: scenario %q not found in tier %s\n", rp.Scenario, ctx.Tier)
			os.Exit(2)
		}
		if len(res.Violations) > 0 {
			os.Exit(1)
		}
		return
	}
	ck.Run(ctx)
	res.WallS = time.Since(t0).Seconds()
	b, _ := json.Marshal(res)
	if *out != "" {
		if err := os.WriteFile(*out, b, 0o644); err != nil {
			fmt.Fprintln(os.Stderr, err)
			os.Exit(2)
		}
	} else {
		os.Stdout.Write(b)
		fmt.Println()
	}
}

// Marker announces the input about to be evaluated in a memory-mapped file named by
// VERIF_MARKER, so that the coordinator can attribute a fatal (unrecoverable) crash of this
// process to that input.  Cheap enough to call per input.
type Marker struct{ mem []byte }

var theMarker *Marker

// Announce writes s as the current input.
func Announce(s string) {
	if theMarker == nil {
		theMarker = &Marker{}
		if p := os.Getenv("VERIF_MARKER"); p != "" {
			theMarker.mem = mmapFile(p, 1<<16)
		}
	}
	m := theMarker.mem
	if m == nil {
		return
	}
	if len(s) > len(m)-4 {
		s = s[:len(m)-4]
	}
	copy(m[4:], s)
	l := len(s)
	m[0], m[1], m[2], m[3] = byte(l), byte(l>>8), byte(l>>16), byte(l>>24)
}
