//go:build verif

package main

import (
	"fmt"
	"strings"
	"time"
	"unsafe"

	mqtt "github.com/at-wat/mqtt-go"
	"github.com/at-wat/mqtt-go/internal/verif/env"
	vctx "github.com/at-wat/mqtt-go/internal/verif/shim/context"
	"github.com/at-wat/mqtt-go/internal/verif/vrt"
)

// Shared harness of the retry / reconnect scenarios (C01, C02, C03, C08, C12, C17, C18):
// a real NewReconnectClient over the modelled dialer / transport / broker, an application
// task issuing a workload, recorders for OnError, ConnState and the message handler.
// One execution yields one rcRun; the checks are different oracles over it.

type rcReq struct {
	Kind  string   // "p0" "p1" "p2" "sub" "unsub"
	Tag   string   // payload (publish)
	Subs  []string // filters (sub: "filter:qos")
	Phase byte     // 'B' before Connect, 'S' connected after settling, 'N' connected immediately, 'O' when the current link is down, 'H' during the next reconnect handshake (CONNECT written, CONNACK not yet consumed), 'C' (Manual only) between the application's SetClient and Connect of the next connection, 'T' 15 s later, 'U' 11 s later
	Dup   bool     // publish: the caller's Message already has Dup=true (a forwarded / reused message)
	ID    uint16   // publish: identifier the caller put on the message (0: let the client choose)
}

func (r rcReq) String() string {
	s := r.Kind
	if r.Dup {
		s += "+dupset"
	}
	if r.Tag != "" {
		s += "(" + r.Tag + ")"
	}
	if len(r.Subs) > 0 {
		s += "(" + strings.Join(r.Subs, ",") + ")"
	}
	return s + "@" + string(r.Phase)
}

type rcCfg struct {
	Reqs                 []rcReq
	Faults               env.FaultSet
	KeepSession          bool
	MethodB              bool
	Clean                bool
	AlwaysResub          bool
	RespTimeout          time.Duration
	RespTimeoutLate      bool // assign RetryClient.ResponseTimeout only after Connect has returned
	ConnTimeout          time.Duration
	PingInterval         time.Duration
	WaitBase             time.Duration
	WaitMax              time.Duration
	PushAfterAck         []string       // messages "topic:payload:qos" the broker pushes after every accepting CONNACK
	HandlerPhase         byte           // 0: no handler; 'B' before Connect; 'C' after Connect
	AfterConnect         func(r *rcRun) // called by the main task right after Connect returned successfully
	PingDelay            time.Duration  // the broker answers PINGREQ after this delay
	KeepAliveOpt         uint16         // mqtt.WithKeepAlive(seconds) connect option (the reconnecting client derives its ping interval from it)
	CancelConnectCtx     bool           // Connect gets a cancellable context which the application cancels as soon as Connect has returned (the usual `defer cancel()`)
	GrantMax             *byte          // the broker grants at most this QoS in SUBACK (nil: what was requested)
	HandleViaRetryClient bool           // "handle" requests go to the application's own *RetryClient (given to WithRetryClient) instead of the ReconnectClient
	SlowOnError          time.Duration  // the OnError callback takes this long (virtual time), e.g. slow logging
	Reentrant            bool           // callbacks call back into the client: ConnState reads Done/Err/Stats of its BaseClient and publishes a QoS 0 note through the retrying client on Active; OnError publishes a QoS 0 alarm; the message handler re-registers itself and publishes a QoS 0 echo
	ReuseBase            bool           // the dialer hands out one and the same *BaseClient every time, with a fresh Transport
	RepeatPubRec         bool           // the broker repeats PUBREC for unreleased QoS 2 messages right behind CONNACK on reconnects
	EOFWriteErrors       bool           // a write on a broken link fails with an error that wraps io.EOF
	PipeErrors           bool           // a locally closed transport reports io.ErrClosedPipe (net.Pipe) instead of a socket-style *net.OpError wrapping net.ErrClosed
	HandleInState        bool           // the application (re-)registers its handler from inside the ConnState callback, on every StateActive
	Manual               bool           // no ReconnectClient: the application drives a bare RetryClient itself (dial, SetClient, Connect, Resubscribe, Retry, wait for Done, redial)
}

type rcState struct {
	Conn  int
	State mqtt.ConnState
	Err   error
	T     int64
}

type rcRun struct {
	cfg        *rcCfg
	net        *env.Net
	broker     *env.Broker
	rc         mqtt.ReconnectClient
	retry      *mqtt.RetryClient
	swapGen    int // Manual: number of redials whose SetClient has been called
	submitted  []bool
	accepted   []bool
	subErr     []error
	onErr      []error
	states     []rcState
	handled    []string
	bases      []*mqtt.BaseClient
	connectOK  bool
	connErr    error
	log        int // object for Event
	handledBy  []rcHandled
	registered []rcRegistered
	onErrAt    []int64 // virtual time of each OnError call
}

type rcHandled struct {
	Handler string
	Payload string
	At      int // position in the wire trace
}

type rcRegistered struct {
	Handler string
	At      int
}

func (r *rcRun) ev(s string) { vrt.Event(unsafe.Pointer(&r.log), vrt.HashString(s)) }

func parseSub(s string) mqtt.Subscription {
	i := strings.LastIndex(s, ":")
	q := mqtt.QoS(s[i+1] - '0')
	return mqtt.Subscription{Topic: s[:i], QoS: q}
}

func (r *rcRun) submit(i int) {
	q := r.cfg.Reqs[i]
	ctx := vctx.Background()
	var err error
	switch q.Kind {
	case "p0", "p1", "p2":
		err = r.rc.Publish(ctx, &mqtt.Message{Topic: "t/" + q.Tag, QoS: mqtt.QoS(q.Kind[1] - '0'), Payload: []byte(q.Tag), Dup: q.Dup, ID: q.ID})
	case "sub":
		var subs []mqtt.Subscription
		for _, s := range q.Subs {
			subs = append(subs, parseSub(s))
		}
		_, err = r.rc.Subscribe(ctx, subs...)
	case "unsub":
		err = r.rc.Unsubscribe(ctx, q.Subs...)
	case "handle":
		name := q.Tag
		target := mqtt.Client(r.rc)
		if r.cfg.HandleViaRetryClient {
			target = r.retry // the RetryClient object the application passed to WithRetryClient
		}
		target.Handle(mqtt.HandlerFunc(func(m *mqtt.Message) {
			r.handledBy = append(r.handledBy, rcHandled{Handler: name, Payload: string(m.Payload), At: len(r.net.Trace)})
			r.ev("handled " + name + " " + string(m.Payload))
		}))
		r.registered = append(r.registered, rcRegistered{Handler: name, At: len(r.net.Trace)})
	}
	r.submitted[i] = true
	r.accepted[i] = err == nil
	r.subErr[i] = err
	r.ev(fmt.Sprintf("submit %d %v", i, err == nil))
	if vrt.Tracing() {
		vrt.Tracef("   app: submitted #%d %s -> %v", i, q, err)
	}
}

// rcExecute runs one execution of the configuration; call it from a scenario body.
func rcExecute(cfg *rcCfg) *rcRun {
	var r *rcRun
	return rcExecuteInto(cfg, &r)
}

// rcExecuteInto publishes the run object before the execution starts, so that observers see
// it even when the execution is aborted (library panic, deadlock).
func rcExecuteInto(cfg *rcCfg, out **rcRun) *rcRun {
	r := &rcRun{cfg: cfg}
	*out = r
	r.net = env.NewNet()
	r.net.PipeErrors = cfg.PipeErrors
	r.net.EOFWriteErrors = cfg.EOFWriteErrors
	r.broker = env.NewBroker(r.net)
	r.broker.Faults = cfg.Faults
	r.broker.KeepSession = cfg.KeepSession
	r.broker.MethodB = cfg.MethodB
	r.broker.PingDelay = int64(cfg.PingDelay)
	r.broker.GrantMax = cfg.GrantMax
	r.broker.RepeatPubRec = cfg.RepeatPubRec
	n := len(cfg.Reqs)
	r.submitted, r.accepted, r.subErr = make([]bool, n), make([]bool, n), make([]error, n)
	if len(cfg.PushAfterAck) > 0 {
		r.broker.AfterConnAck = func(b *env.Broker, c *env.Conn) {
			for _, m := range cfg.PushAfterAck {
				p := strings.Split(m, ":")
				if len(p) > 3 && p[3] == "dup" {
					// a message the broker considers in flight from the previous connection: re-sent with DUP=1
					if c.ID > 0 {
						c.Send(env.EncPublish(p[0], []byte(fmt.Sprintf("%s@c%d", p[1], c.ID)), p[2][0]-'0', 900+uint16(c.ID), true, false), "push (redelivery)")
					}
					continue
				}
				b.Push(c, p[0], fmt.Sprintf("%s@c%d", p[1], c.ID), p[2][0]-'0')
			}
		}
	}
	dials := 0
	reuseID := 0
	vrt.W.RandInt31n = func(n int32) int32 { return int32(1000*dials - 1) }
	dialer := mqtt.DialerFunc(func(ctx vctx.Context) (*mqtt.BaseClient, error) {
		conn, err := r.broker.Dial()
		if err != nil {
			return nil, err
		}
		dials++
		id := conn.ID
		if cfg.ReuseBase && len(r.bases) > 0 {
			// one BaseClient object for every connection: only the transport is new
			b := r.bases[0]
			b.Transport = conn
			reuseID = id
			r.bases = append(r.bases, b)
			return b, nil
		}
		reuseID = id
		var b *mqtt.BaseClient
		b = &mqtt.BaseClient{Transport: conn, ConnState: func(s mqtt.ConnState, err error) {
			if cfg.ReuseBase {
				id = reuseID
			}
			r.states = append(r.states, rcState{id, s, err, vrt.Now()})
			r.ev(fmt.Sprintf("state %d %v", id, s))
			if vrt.Tracing() {
				vrt.Tracef("   connstate c%d: %v (%v)", id, s, err)
			}
			if cfg.Reentrant {
				_, _, _ = b.Done(), b.Err(), b.Stats()
				if s == mqtt.StateActive && r.rc != nil {
					r.rc.Publish(vctx.Background(), &mqtt.Message{Topic: "note/connstate", Payload: []byte(fmt.Sprintf("active-c%d", id))})
				}
			}
			if cfg.HandleInState && s == mqtt.StateActive && r.rc != nil {
				name := fmt.Sprintf("hs%d", id)
				r.rc.Handle(mqtt.HandlerFunc(func(m *mqtt.Message) {
					r.handledBy = append(r.handledBy, rcHandled{Handler: name, Payload: string(m.Payload), At: len(r.net.Trace)})
					r.ev("handled " + name + " " + string(m.Payload))
				}))
				r.registered = append(r.registered, rcRegistered{Handler: name, At: len(r.net.Trace)})
				r.ev("registered " + name)
			}
		}}
		r.bases = append(r.bases, b)
		return b, nil
	})
	r.retry = &mqtt.RetryClient{ResponseTimeout: cfg.RespTimeout}
	if cfg.RespTimeoutLate {
		r.retry.ResponseTimeout = 0
	}
	r.retry.OnError = func(err error) {
		r.onErr = append(r.onErr, err)
		r.onErrAt = append(r.onErrAt, vrt.Now())
		r.ev("onerror")
		if cfg.SlowOnError > 0 {
			vrt.Sleep(int64(cfg.SlowOnError))
		}
		if cfg.Reentrant && r.rc != nil {
			_ = r.rc.Stats()
			if len(r.onErr) <= 2 { // the alarm itself may fail and be reported: no endless ping-pong
				r.rc.Publish(vctx.Background(), &mqtt.Message{Topic: "note/alarm", Payload: []byte("alarm")})
			}
		}
		if vrt.Tracing() {
			vrt.Tracef("   OnError: %v", err)
		}
	}
	base, max := cfg.WaitBase, cfg.WaitMax
	if base == 0 {
		base, max = time.Second, 10*time.Second
	}
	opts := []mqtt.ReconnectOption{mqtt.WithRetryClient(r.retry), mqtt.WithReconnectWait(base, max), mqtt.WithAlwaysResubscribe(cfg.AlwaysResub)}
	if cfg.ConnTimeout > 0 {
		opts = append(opts, mqtt.WithTimeout(cfg.ConnTimeout))
	}
	if cfg.PingInterval > 0 {
		opts = append(opts, mqtt.WithPingInterval(cfg.PingInterval))
	}
	if cfg.Manual {
		// The documented stand-alone use of RetryClient (Retryer interface): the application owns
		// the redial loop.  Same calls in the same order as the library's own reconnect loop.
		r.rc = r.retry
	} else {
		rc, err := mqtt.NewReconnectClient(dialer, opts...)
		if err != nil {
			vrt.Failf("harness", "NewReconnectClient: %v", err)
			return r
		}
		r.rc = rc
	}
	rc := r.rc
	var h mqtt.HandlerFunc
	h = mqtt.HandlerFunc(func(m *mqtt.Message) {
		r.handled = append(r.handled, string(m.Payload))
		r.ev("handled " + string(m.Payload))
		if cfg.Reentrant {
			rc.Handle(h)
			rc.Publish(vctx.Background(), &mqtt.Message{Topic: "note/echo", Payload: []byte("echo")})
		}
	})
	if cfg.HandlerPhase == 'B' {
		rc.Handle(h)
	}
	i := 0
	for ; i < n && cfg.Reqs[i].Phase == 'B'; i++ {
		r.submit(i)
	}
	first := i
	vrt.Go("app", func() {
		for i := first; i < n; i++ {
			switch cfg.Reqs[i].Phase {
			case 'S':
				vrt.Settle()
			case 'O':
				k := len(r.net.Conns)
				vrt.Observe(uint64(k)) // a read of shared state that decides this task's behaviour
				vrt.Await("outage", func() bool {
					return len(r.net.Conns) > 0 && len(r.net.Conns) >= k && r.net.Conns[len(r.net.Conns)-1].Down()
				})
			case 'T':
				vrt.Sleep(int64(15 * time.Second))
			case 'U':
				vrt.Sleep(int64(11 * time.Second)) // one second after the first keep-alive tick of a 10 s interval
			case 'C':
				k := r.swapGen
				vrt.Observe(uint64(k))
				vrt.Await("between SetClient and Connect of a redial", func() bool { return r.swapGen > k })
			case 'H':
				k := len(r.net.Conns)
				vrt.Observe(uint64(k))
				vrt.Await("reconnect handshake", func() bool {
					n := len(r.net.Conns)
					return n > k && r.broker.PacketsOn(n-1) >= 1
				})
			}
			r.submit(i)
		}
	})
	copts := []mqtt.ConnectOption{mqtt.WithCleanSession(cfg.Clean)}
	if cfg.KeepAliveOpt > 0 {
		copts = append(copts, mqtt.WithKeepAlive(cfg.KeepAliveOpt))
	}
	if cfg.Manual {
		r.connErr = r.manualLoop(dialer, copts, base, max)
	} else {
		cctx, ccancel := vctx.Background(), func() {}
		if cfg.CancelConnectCtx {
			cctx, ccancel = vctx.WithCancel(cctx)
		}
		_, r.connErr = rc.Connect(cctx, "cid", copts...)
		ccancel()
	}
	r.connectOK = r.connErr == nil
	if cfg.HandlerPhase == 'C' {
		rc.Handle(h)
	}
	if cfg.RespTimeoutLate {
		r.retry.ResponseTimeout = cfg.RespTimeout
	}
	if cfg.AfterConnect != nil && r.connectOK {
		cfg.AfterConnect(r)
	}
	vrt.Quiesce()
	return r
}

// manualLoop is an application-owned redial loop around a bare RetryClient.  It returns when the
// first connection is established (like ReconnectClient.Connect); the loop goes on in its own task.
func (r *rcRun) manualLoop(dialer mqtt.Dialer, copts []mqtt.ConnectOption, base, max time.Duration) error {
	first := make(chan error, 1)
	bg := vctx.Background()
	vrt.GoDaemon("app-redial", func() {
		initialized := false
		wait := base
		for {
			cli, err := dialer.DialContext(bg)
			if err == nil {
				r.retry.SetClient(bg, cli)
				if initialized {
					// the application's other goroutines may run here (phase 'C')
					r.swapGen++
					vrt.Settle()
				}
				var sp bool
				sp, err = r.retry.Connect(bg, "cid", copts...)
				if err == nil {
					wait = base
					if !initialized {
						vrt.SendTo(first).V(nil)
					}
					if initialized && (!sp || r.cfg.AlwaysResub) {
						r.retry.Resubscribe(bg)
					}
					r.retry.Retry(bg)
					initialized = true
					vrt.Recv(cli.Done())
				} else {
					cli.Close()
				}
			}
			vrt.Sleep(int64(wait))
			wait *= 2
			if wait > max {
				wait = max
			}
		}
	})
	return vrt.Recv(first)
}

// ---- trace helpers ----

// ackFor reports whether the completing acknowledgement of request i reached the client's transport.
func (r *rcRun) ackedOnWire(i int) (bool, string) {
	q := r.cfg.Reqs[i]
	tr := r.net.Trace
	switch q.Kind {
	case "p1", "p2":
		want := byte(env.PUBACK)
		if q.Kind == "p2" {
			want = env.PUBCOMP
		}
		ids := map[uint16]bool{}
		for _, e := range tr {
			if e.Dir == '>' && e.Pkt != nil && e.Pkt.Type == env.PUBLISH && string(e.Pkt.Payload) == q.Tag {
				ids[e.Pkt.ID] = true
			}
			if e.Dir == '<' && e.Pkt != nil && e.Pkt.Type == want && ids[e.Pkt.ID] {
				return true, ""
			}
		}
		return false, fmt.Sprintf("no %s for message %q (ids used %v)", env.TypeName(want), q.Tag, ids)
	case "sub", "unsub":
		typ, ack := byte(env.SUBSCRIBE), byte(env.SUBACK)
		if q.Kind == "unsub" {
			typ, ack = env.UNSUBSCRIBE, env.UNSUBACK
		}
		ids := map[string]bool{}
		for _, e := range tr {
			if e.Dir == '>' && e.Pkt != nil && e.Pkt.Type == typ && rcCovers(e.Pkt, q) {
				ids[fmt.Sprintf("%d/%d", e.Conn, e.Pkt.ID)] = true
			}
			if e.Dir == '<' && e.Pkt != nil && e.Pkt.Type == ack && ids[fmt.Sprintf("%d/%d", e.Conn, e.Pkt.ID)] {
				return true, ""
			}
		}
		return false, fmt.Sprintf("no %s for %s", env.TypeName(ack), q)
	}
	return true, ""
}

// rcCovers: packet p carries exactly the filters of request q (in order).
func rcCovers(p *env.Packet, q rcReq) bool {
	if len(p.Filters) != len(q.Subs) {
		return false
	}
	for i, f := range p.Filters {
		want := q.Subs[i]
		if q.Kind == "sub" {
			s := parseSub(want)
			if f != s.Topic || p.QoSs[i] != byte(s.QoS) {
				return false
			}
		} else if f != want {
			return false
		}
	}
	return true
}

func (r *rcRun) summary() string {
	var rs []string
	for _, q := range r.cfg.Reqs {
		rs = append(rs, q.String())
	}
	return fmt.Sprintf("workload [%s] faults %v\n wire:\n  %s", strings.Join(rs, " "), r.broker.FaultLog, strings.Join(r.net.TraceStrings(), "\n  "))
}

func (r *rcRun) faultKinds() string {
	var ks []string
	for _, f := range r.broker.FaultLog {
		i := strings.LastIndex(f, ": ")
		k := f
		if i >= 0 {
			k = f[i+2:]
		}
		// name the packet type the fault hit
		pt := ""
		if j := strings.Index(f, " "); j >= 0 && i > j {
			pt = f[j+1 : i]
			if p := strings.Index(pt, "("); p >= 0 {
				pt = pt[:p]
			}
		}
		ks = append(ks, pt+"/"+k)
	}
	return strings.Join(ks, "+")
}

// rcWorkloads enumerates request sequences of length 1..n over the given kinds and phases
// ('B' requests first).  Tags are made unique per position.
func rcWorkloads(n int, kinds []string, phases []byte) [][]rcReq {
	var out [][]rcReq
	var rec func(cur []rcReq)
	rec = func(cur []rcReq) {
		if len(cur) > 0 {
			out = append(out, append([]rcReq(nil), cur...))
		}
		if len(cur) == n {
			return
		}
		for _, k := range kinds {
			for _, ph := range phases {
				if ph == 'B' && len(cur) > 0 && cur[len(cur)-1].Phase != 'B' {
					continue
				}
				q := rcReq{Kind: k, Phase: ph}
				i := len(cur) + 1
				switch k {
				case "p0", "p1", "p2":
					q.Tag = fmt.Sprintf("m%d", i)
				case "sub":
					q.Subs = []string{fmt.Sprintf("f%d:1", i)}
				case "unsub":
					q.Subs = []string{fmt.Sprintf("f%d", i)}
				}
				rec(append(cur, q))
			}
		}
	}
	rec(nil)
	return out
}

func rcName(reqs []rcReq) string {
	var s []string
	for _, q := range reqs {
		s = append(s, q.String())
	}
	return strings.Join(s, ",")
}

// rcLateOnlyLast reports whether the outage / handshake phases ('O', 'H') occur only on the last
// request of the workload (the quick tiers restrict themselves to such workloads).
func rcLateOnlyLast(reqs []rcReq) bool {
	for i, q := range reqs {
		if (q.Phase == 'O' || q.Phase == 'H' || q.Phase == 'C') && i != len(reqs)-1 {
			return false
		}
	}
	return true
}
