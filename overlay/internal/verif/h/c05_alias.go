//go:build verif

package main

import (
	"bytes"
	"fmt"

	mqtt "github.com/at-wat/mqtt-go"
	"github.com/at-wat/mqtt-go/internal/verif/env"
	vctx "github.com/at-wat/mqtt-go/internal/verif/shim/context"
	"github.com/at-wat/mqtt-go/internal/verif/vrt"
)

// c05InboundOwnership: "a PUBLISH from the broker is delivered with exactly the encoded topic,
// payload and flags".  The library hands the message over for good ("ownership is transferred to
// the receiver"), so what the handler received must stay what the broker encoded while later
// packets arrive; a QoS 2 message parked until PUBREL must not be disturbed by packets in between.
func c05InboundOwnership(c *Ctx) {
	c.Bound("client_inbound_ownership", "sequences of 3..5 inbound PUBLISH packets of shrinking / equal / growing sizes (payload lengths from {24,22,8,24,100}), QoS 0/1/2 mixes with another packet between a QoS 2 PUBLISH and its PUBREL; the handler keeps the *Message it was given; at the end every kept message must still equal what was encoded")
	sizes := [][]int{{24, 22, 8}, {24, 24, 24}, {8, 22, 24}, {100, 24, 22, 8}, {24, 22, 8, 24, 100}}
	for si, sz := range sizes {
		for _, pattern := range []string{"q2-first", "q1-only", "q0-only", "q2-all"} {
			sz, pattern := sz, pattern
			var net *env.Net
			sc := &vrt.Scenario{
				Name: fmt.Sprintf("C05/client/inbound-ownership/sizes%d/%s", si, pattern),
				Body: func() {
					net = env.NewNet()
					s := env.NewScript(net)
					s.AutoConnAck = true
					cli := &mqtt.BaseClient{Transport: s.Conn}
					var kept []*mqtt.Message
					cli.Handle(mqtt.HandlerFunc(func(m *mqtt.Message) { kept = append(kept, m) }))
					if _, err := cli.Connect(vctx.Background(), "c05"); err != nil {
						vrt.Failf("harness", "connect: %v", err)
						return
					}
					type sent struct {
						topic   string
						payload []byte
						qos     byte
					}
					var want []sent
					var pendingRel []uint16
					var pendingWant []sent
					for i, n := range sz {
						q := byte(1)
						switch pattern {
						case "q0-only":
							q = 0
						case "q2-all":
							q = 2
						case "q2-first":
							if i == 0 {
								q = 2
							} else {
								q = byte(i % 2)
							}
						}
						payload := bytes.Repeat([]byte{byte('A' + i)}, n)
						topic := fmt.Sprintf("t/%d", i)
						id := uint16(10 + i)
						s.Send(env.EncPublish(topic, payload, q, id, false, false))
						vrt.Settle()
						if q == 2 {
							pendingRel = append(pendingRel, id)
							pendingWant = append(pendingWant, sent{topic, payload, q})
						} else {
							want = append(want, sent{topic, payload, q})
						}
						if pattern == "q2-first" && i == 1 || pattern == "q2-all" && i == len(sz)-1 {
							// the parked QoS 2 message(s) are released only now, after other packets went by
							for k, rid := range pendingRel {
								s.Send(env.EncAck(env.PUBREL, rid))
								vrt.Settle()
								want = append(want, pendingWant[k])
							}
							pendingRel, pendingWant = nil, nil
						}
					}
					for k, rid := range pendingRel {
						s.Send(env.EncAck(env.PUBREL, rid))
						vrt.Settle()
						want = append(want, pendingWant[k])
					}
					vrt.Quiesce()
					if len(kept) != len(want) {
						vrt.Failf("inbound-ownership/count", "%d messages handed over, %d sent (sizes %v, %s)", len(kept), len(want), sz, pattern)
						return
					}
					for i, w := range want {
						g := kept[i]
						if g.Topic != w.topic || !bytes.Equal(g.Payload, w.payload) || byte(g.QoS) != w.qos {
							vrt.Failf("inbound-ownership/content-changed", "message %d (sizes %v, %s): encoded topic=%q payload=%q, the handler's message now reads topic=%q payload=%q", i, sz, pattern, w.topic, w.payload, g.Topic, g.Payload)
							return
						}
					}
				},
				Observe: func() uint64 { return net.TraceHash() },
			}
			c.Explore(sc)
		}
	}
}
