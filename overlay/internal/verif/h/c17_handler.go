//go:build verif

package main

import (
	"fmt"
	"strings"
	"time"

	mqtt "github.com/at-wat/mqtt-go"
	"github.com/at-wat/mqtt-go/internal/verif/env"
	vctx "github.com/at-wat/mqtt-go/internal/verif/shim/context"
	"github.com/at-wat/mqtt-go/internal/verif/vrt"
)

// C17 — the handler registered on the retrying / reconnecting client keeps receiving the
// messages arriving on every later connection.

func init() { register("C17", runC17) }

func c17Oracle(r *rcRun) {
	if !r.connectOK {
		return
	}
	last := len(r.net.Conns) - 1
	// which connections processed their pushed messages completely: the last one (still up at
	// quiescence) and those on which the client acknowledged the pushed QoS 1 message
	processed := map[int]bool{}
	if last >= 0 && !r.net.Conns[last].Down() {
		processed[last] = true
	}
	for _, e := range r.net.Trace {
		if e.Sent() && e.Pkt != nil && e.Pkt.Type == env.PUBACK {
			processed[e.Conn] = true
		}
	}
	for pos, e := range r.net.Trace {
		if e.Dir != '<' || e.Pkt == nil || e.Pkt.Type != env.PUBLISH {
			continue
		}
		tag := string(e.Pkt.Payload)
		// handlers whose registration had completed before the message was sent, and all later ones
		var allowed []string
		before := ""
		for _, g := range r.registered {
			if g.At <= pos {
				before = g.Handler
			} else {
				allowed = append(allowed, g.Handler)
			}
		}
		n := 0
		by := ""
		for _, h := range r.handledBy {
			if h.Payload == tag {
				n++
				by = h.Handler
			}
		}
		if n > 1 {
			vrt.Failf("c17/handed-over-twice", "message %q was handed over %d times\n%s", tag, n, r.summary())
		}
		if before == "" || !processed[e.Conn] {
			continue
		}
		allowed = append(allowed, before)
		if n == 0 {
			vrt.Failf(fmt.Sprintf("c17/not-handed-over:conn%s:faults=%s", c17ConnClass(e.Conn), r.faultKinds()), "message %q arrived on connection %d after handler %q had been registered, but no handler received it (registrations %v, hand-overs %v)\n%s", tag, e.Conn, before, r.registered, r.handledBy, r.summary())
			continue
		}
		ok := false
		for _, a := range allowed {
			if a == by {
				ok = true
			}
		}
		if !ok {
			vrt.Failf("c17/stale-handler", "message %q (connection %d) was handed to %q; registered at that time or later: %v\n%s", tag, e.Conn, by, allowed, r.summary())
		}
	}
}

func c17ConnClass(c int) string {
	if c == 0 {
		return "0"
	}
	return "N"
}

func runC17(c *Ctx) {
	c17ProactiveSwap(c)
	faults := env.FaultSet{LostClose: true, AckLost: true, OnlyTypes: map[byte]bool{env.PUBLISH: true, env.CONNECT: true}}
	f, p := 2, 1
	if c.Thorough() {
		f, p = 3, 2
	}
	push := []string{"in/a:i0:0", "in/c:redelivered:1:dup", "in/b:i1:1"}
	// Handle at every phase, optionally replaced later; publishes give the faults something to hit
	var wls [][]rcReq
	pubs := func(n int, ph byte) []rcReq {
		var l []rcReq
		for i := 0; i < n; i++ {
			l = append(l, rcReq{Kind: "p1", Tag: fmt.Sprintf("m%d", i+1), Phase: ph})
		}
		return l
	}
	for _, hp := range []byte{'B', 'S', 'N', 'O', 'H'} {
		for _, np := range []int{1, 2} {
			h1 := rcReq{Kind: "handle", Tag: "h1", Phase: hp}
			ps := pubs(np, 'S')
			if hp == 'B' {
				wls = append(wls, append([]rcReq{h1}, ps...))
			} else {
				wls = append(wls, append([]rcReq{ps[0], h1}, ps[1:]...))
				wls = append(wls, append([]rcReq{h1}, ps...))
			}
			// replaced after (possibly) a reconnect
			for _, rp := range []byte{'S', 'O', 'H'} {
				h2 := rcReq{Kind: "handle", Tag: "h2", Phase: rp}
				w := append([]rcReq{{Kind: "handle", Tag: "h1", Phase: 'B'}}, ps[0], h2)
				w = append(w, ps[1:]...)
				wls = append(wls, w)
			}
		}
	}
	c.Bound("workloads", fmt.Sprintf("%d workloads: Handle before Connect / settled / immediately / during an outage / during the reconnect handshake, optionally replaced by a second handler, with 1-2 QoS 1 publishes; the broker pushes a QoS 0 message, (on later connections) a QoS 1 redelivery with DUP=1 and a QoS 1 message right after every accepting CONNACK; faults %+v F<=%d; P<=%d", len(wls), faults, f, p))
	var sample *rcRun
	seen := map[string]bool{}
	for _, reqs := range wls {
		name := rcName(reqs)
		if seen[name] {
			continue
		}
		seen[name] = true
		for bi, bound := range []vrt.Budget{{F: f}, {F: 1, P: p, Total: p + 1}, {F: f}, {F: f}, {F: f}, {F: f}} {
			reqs, bound := reqs, bound
			manual := bi == 2   // third pass: an application-owned redial loop around a bare RetryClient
			inState := bi == 3  // fourth pass: the handler is additionally (re-)registered from inside the ConnState callback on every StateActive
			viaRetry := bi == 5 // sixth pass: handlers are registered through the application's own *RetryClient
			reuse := bi == 4    // fifth pass: the dialer hands out the same *BaseClient with a fresh transport every time
			mode := ""
			if manual {
				mode = "manual/"
			}
			if reuse {
				if !strings.HasPrefix(name, "handle(h1)@B") {
					continue
				}
				mode = "same-baseclient-reused/"
			}
			if viaRetry {
				if strings.Contains(name, "handle(h2)") {
					continue
				}
				mode = "handle-via-retryclient/"
			}
			if inState {
				if !strings.HasPrefix(name, "handle(h1)@B") {
					continue
				}
				mode = "handle-in-connstate/"
			}
			var r *rcRun
			sc := &vrt.Scenario{
				Name:  fmt.Sprintf("C17/%s%s/%s", mode, bound, name),
				Bound: bound,
				Cfg:   vrt.Config{Horizon: int64(600 * time.Second)},
				Body: func() {
					rcExecuteInto(&rcCfg{Reqs: reqs, Faults: faults, KeepSession: true, PushAfterAck: push, Manual: manual, HandleInState: inState, ReuseBase: reuse, HandleViaRetryClient: viaRetry}, &r)
					c17Oracle(r)
				},
				Observe: func() uint64 {
					var hs []string
					for _, h := range r.handledBy {
						hs = append(hs, h.Handler+":"+h.Payload)
					}
					return r.net.TraceHash() ^ vrt.HashString(strings.Join(hs, ","))
				},
			}
			c.Explore(sc)
			if r != nil && len(r.broker.FaultLog) > 0 && len(r.handledBy) > 2 {
				sample = r
			}
		}
	}
	if sample != nil {
		c.Sample(map[string]any{"workload": rcName(sample.cfg.Reqs), "faults": sample.broker.FaultLog, "handed_over": fmt.Sprint(sample.handledBy), "wire": sample.net.TraceStrings()})
	}
}

// c17ProactiveSwap: an application that drives a bare RetryClient replaces the connection while the
// old one is still alive (SetClient + Connect on a fresh BaseClient).  Messages still arriving on
// the old connection and those arriving on the new one reach the registered handler.
func c17ProactiveSwap(c *Ctx) {
	c.Bound("proactive-swap", "bare RetryClient: handler registered before the first | after the first | after the second connection; second connection installed by SetClient+Connect while the first is still up; a QoS 0 and a QoS 1 message pushed on the first connection before the swap, on the first connection after the swap and on the second one; P<=1")
	for _, when := range []string{"before-first", "after-first", "after-second"} {
		when := when
		var net *env.Net
		sc := &vrt.Scenario{
			Name:  "C17/proactive-swap/handler-registered-" + when,
			Bound: vrt.Budget{P: 1},
			Cfg:   vrt.Config{Horizon: int64(60 * time.Second)},
			Body: func() {
				net = env.NewNet()
				var got []string
				h := mqtt.HandlerFunc(func(m *mqtt.Message) {
					got = append(got, string(m.Payload))
					vrt.Event(nil, vrt.HashString(string(m.Payload)))
				})
				rc := &mqtt.RetryClient{}
				bg := vctx.Background()
				if when == "before-first" {
					rc.Handle(h)
				}
				connect := func() *env.Script {
					s := env.NewScript(net)
					s.AutoConnAck = true
					rc.SetClient(bg, &mqtt.BaseClient{Transport: s.Conn})
					if _, err := rc.Connect(bg, "c17"); err != nil {
						vrt.Failf("harness", "connect: %v", err)
					}
					return s
				}
				var want []string
				push := func(s *env.Script, tag string) {
					s.Send(env.EncPublish("t", []byte(tag+"-q0"), 0, 0, false, false))
					s.Send(env.EncPublish("t", []byte(tag+"-q1"), 1, 7, false, false))
					want = append(want, tag+"-q0", tag+"-q1")
					vrt.Settle()
				}
				s1 := connect()
				if when == "after-first" {
					rc.Handle(h)
				}
				if when != "after-second" {
					push(s1, "first-conn")
				}
				s2 := connect() // the first connection stays up
				if when == "after-second" {
					rc.Handle(h)
				} else {
					push(s1, "first-conn-after-swap")
				}
				push(s2, "second-conn")
				if strings.Join(got, " ") != strings.Join(want, " ") {
					vrt.Failf("c17/not-handed-over:proactive-swap:"+when, "handler registered %s: handed over %v, pushed %v\n wire:\n  %s", when, got, want, strings.Join(net.TraceStrings(), "\n  "))
				}
				s1.Close()
				rc.Disconnect(bg)
				vrt.Quiesce()
			},
			Observe: func() uint64 { return net.TraceHash() },
		}
		c.Explore(sc)
	}
}
