//go:build verif

package main

import (
	"fmt"
	"runtime"
	"sort"
	"strings"
	"time"

	"github.com/at-wat/mqtt-go/internal/verif/env"
	sp "github.com/at-wat/mqtt-go/internal/verif/selfprog"
	spn "github.com/at-wat/mqtt-go/internal/verif/selfprognative"
	vctx "github.com/at-wat/mqtt-go/internal/verif/shim/context"
	vsync "github.com/at-wat/mqtt-go/internal/verif/shim/sync"
	vtime "github.com/at-wat/mqtt-go/internal/verif/shim/time"
	"github.com/at-wat/mqtt-go/internal/verif/vrt"
)

// Engine self-checks: toy programs with known outcome sets / schedule counts.

func init() { register("SELF", runSelf) }

type selfCase struct {
	name   string
	bound  vrt.Budget
	cfg    vrt.Config
	body   func(out *string)
	want   []string // exact set of outcomes expected
	execs  int64    // expected number of executions (0 = not checked)
	wantFK string   // expected failure key prefix ("" = none)
	nocach bool
}

// selfNativeLater holds the native-mode runs of the conformance programs.  They are executed after
// every exploration of this process: goroutines that a program leaves behind in native mode (blocked
// on a real channel, or woken by a real timer) must not run into a later execution's world.
var selfNativeLater []func()

func runSelf(c *Ctx) {
	defer func() {
		for _, f := range selfNativeLater {
			f()
		}
	}()
	defer selfCacheSoundness(c)
	selfConformance(c)
	cases := selfCases()
	for i := range cases {
		sc := &cases[i]
		outs := map[string]bool{}
		var out string
		fk := map[string]bool{}
		s := &vrt.Scenario{Name: "SELF/" + sc.name, Cfg: sc.cfg, Bound: sc.bound, NoCache: sc.nocach,
			Body:    func() { out = ""; sc.body(&out) },
			Observe: func() uint64 { outs[out] = true; return vrt.HashString(out) },
		}
		if c.Only != "" {
			c.Explore(s)
			continue
		}
		if !c.Mine(int64(i)) {
			continue
		}
		ex := &vrt.Explorer{Sc: s, Deadline: c.Deadline}
		ex.Run()
		c.Res.Scenarios++
		c.Res.Execs += ex.Stats.Execs
		c.Res.States += ex.Stats.States
		c.Res.Transitions += ex.Stats.Transitions
		c.Res.Distinct += int64(len(outs))
		if e := ex.EngineError(); e != "" {
			c.Res.EngineError = sc.name + ": " + e
			continue
		}
		for _, v := range ex.Violations {
			fk[v.Key] = true
		}
		var got []string
		for o := range outs {
			got = append(got, o)
		}
		sort.Strings(got)
		want := append([]string{}, sc.want...)
		sort.Strings(want)
		if sc.want != nil && strings.Join(got, "|") != strings.Join(want, "|") {
			c.EnumFail("self", sc.name+"/outcomes", fmt.Sprintf("outcomes %q, want %q (execs %d)", got, want, ex.Stats.Execs), nil)
		}
		if sc.execs != 0 && ex.Stats.Execs != sc.execs {
			c.EnumFail("self", sc.name+"/execs", fmt.Sprintf("executions %d, want %d", ex.Stats.Execs, sc.execs), nil)
		}
		if sc.wantFK == "" && len(fk) > 0 {
			c.EnumFail("self", sc.name+"/failure", fmt.Sprintf("unexpected failures %v", fk), nil)
		}
		if sc.wantFK != "" {
			ok := false
			for k := range fk {
				if strings.HasPrefix(k, sc.wantFK) {
					ok = true
				}
			}
			if !ok {
				c.EnumFail("self", sc.name+"/failure", fmt.Sprintf("expected failure %q, got %v (execs %d)", sc.wantFK, fk, ex.Stats.Execs), nil)
			}
		}
		c.Sample(map[string]any{"self": sc.name, "outcomes": got, "executions": ex.Stats.Execs, "states": ex.Stats.States})
	}
}

// countInterleavings is an independent model: tasks are lists of always-enabled operations;
// main spawns task i with its i-th operation and finally waits for all. It counts complete
// schedules with at most p preemptions (a switch away from a task whose next op is enabled).
func countInterleavings(nTasks, opsPerTask, p int) int64 {
	// state: main index (0..nTasks = spawns done, then wait), per-task progress (-1 = not spawned)
	type st struct {
		mi   int
		prog [4]int
		cur  int // running task: -1 main, else index
		pre  int
	}
	var rec func(s st) int64
	rec = func(s st) int64 {
		// enabled set
		mainEnabled := s.mi < nTasks
		allDone := true
		for i := 0; i < nTasks; i++ {
			if s.prog[i] != opsPerTask {
				allDone = false
			}
		}
		if s.mi == nTasks && allDone {
			return 1 // main's wait becomes enabled and the run ends (single continuation)
		}
		curEnabled := false
		if s.cur == -1 {
			curEnabled = mainEnabled
		} else {
			curEnabled = s.prog[s.cur] >= 0 && s.prog[s.cur] < opsPerTask
		}
		var total int64
		try := func(who int) {
			n := s
			if curEnabled && who != s.cur {
				n.pre++
				if n.pre > p {
					return
				}
			}
			n.cur = who
			if who == -1 {
				n.prog[n.mi] = 0
				n.mi++
			} else {
				n.prog[who]++
			}
			total += rec(n)
		}
		if mainEnabled {
			try(-1)
		}
		for i := 0; i < nTasks; i++ {
			if s.prog[i] >= 0 && s.prog[i] < opsPerTask {
				try(i)
			}
		}
		return total
	}
	s := st{cur: -1}
	for i := range s.prog {
		s.prog[i] = -1
	}
	return rec(s)
}

func selfCases() []selfCase {
	var cs []selfCase
	// 1. schedule counts against the independent model
	for _, p := range []int{0, 1, 2, 50} {
		p := p
		for _, shape := range [][2]int{{2, 2}, {2, 3}, {3, 2}} {
			nT, k := shape[0], shape[1]
			cs = append(cs, selfCase{
				name: fmt.Sprintf("count/T%d.k%d.P%d", nT, k, p), bound: vrt.Budget{P: p}, nocach: true,
				body: func(out *string) {
					var wg vsync.WaitGroup
					wg.Add(nT)
					for i := 0; i < nT; i++ {
						vrt.Go("w", func() {
							// the start of a task is its first operation; k-1 further yields
							for j := 0; j < k-1; j++ {
								vrt.Yield("op")
							}
							wg.Done()
						})
					}
					wg.Wait()
				},
				execs: 0, // filled below
			})
			// levels 0,1,max are each explored from scratch: expected executions = sum over levels
			var want int64
			lv := []int{0}
			if p >= 1 {
				lv = append(lv, 1)
			}
			if p >= 2 {
				lv = append(lv, p)
			}
			for _, l := range lv {
				want += countInterleavings(nT, k, l)
			}
			cs[len(cs)-1].execs = want
		}
	}
	// 2. lost update needs exactly one preemption
	lost := func(out *string) {
		x := 0
		var wg vsync.WaitGroup
		wg.Add(2)
		for i := 0; i < 2; i++ {
			vrt.Go("inc", func() {
				v := *vrt.R(&x, "x", "r")
				*vrt.Wr(&x, "x", "w") = v + 1
				wg.Done()
			})
		}
		wg.Wait()
		*out = fmt.Sprint(x)
	}
	cs = append(cs, selfCase{name: "lostupdate/P0", bound: vrt.Budget{}, cfg: vrt.Config{Fine: true}, body: lost, want: []string{"2"}})
	cs = append(cs, selfCase{name: "lostupdate/P1", bound: vrt.Budget{P: 1}, cfg: vrt.Config{Fine: true}, body: lost, want: []string{"1", "2"}})
	// 3. mutex makes it atomic
	cs = append(cs, selfCase{name: "locked/P2", bound: vrt.Budget{P: 2}, want: []string{"2"}, body: func(out *string) {
		x := 0
		var mu vsync.Mutex
		var wg vsync.WaitGroup
		wg.Add(2)
		for i := 0; i < 2; i++ {
			vrt.Go("inc", func() {
				mu.Lock()
				vrt.Yield("read")
				v := x
				vrt.Yield("write")
				x = v + 1
				mu.Unlock()
				wg.Done()
			})
		}
		wg.Wait()
		*out = fmt.Sprint(x)
	}})
	// 4. lock-order deadlock at P=1, none at P=0
	dl := func(out *string) {
		var a, b vsync.Mutex
		var wg vsync.WaitGroup
		wg.Add(2)
		vrt.Go("ab", func() { a.Lock(); b.Lock(); b.Unlock(); a.Unlock(); wg.Done() })
		vrt.Go("ba", func() { b.Lock(); a.Lock(); a.Unlock(); b.Unlock(); wg.Done() })
		wg.Wait()
		*out = "ok"
	}
	cs = append(cs, selfCase{name: "deadlock/P0", bound: vrt.Budget{}, body: dl, want: []string{"ok"}})
	cs = append(cs, selfCase{name: "deadlock/P1", bound: vrt.Budget{P: 1}, body: dl, wantFK: "deadlock"})
	// 5. select with two ready cases: second case only with S>=1
	sel := func(out *string) {
		c1 := make(chan int, 1)
		c2 := make(chan int, 1)
		vrt.SendTo(c1).V(1)
		vrt.SendTo(c2).V(2)
		i, r := vrt.Select(false, vrt.CaseRecv(c1), vrt.CaseRecv(c2))
		if i == 0 {
			*out = fmt.Sprint("c1:", vrt.SelRecv(r, c1))
		} else {
			*out = fmt.Sprint("c2:", vrt.SelRecv(r, c2))
		}
	}
	cs = append(cs, selfCase{name: "select/S0", bound: vrt.Budget{}, body: sel, want: []string{"c1:1"}})
	cs = append(cs, selfCase{name: "select/S1", bound: vrt.Budget{S: 1}, body: sel, want: []string{"c1:1", "c2:2"}})
	// 6. unbuffered rendezvous and close
	cs = append(cs, selfCase{name: "rendezvous/P2", bound: vrt.Budget{P: 2}, want: []string{"7,true;0,false"}, body: func(out *string) {
		c := make(chan int)
		vrt.Go("snd", func() { vrt.SendTo(c).V(7); vrt.Close(c) })
		v, ok := vrt.Recv2(c)
		v2, ok2 := vrt.Recv2(c)
		*out = fmt.Sprintf("%d,%v;%d,%v", v, ok, v2, ok2)
	}})
	// 7. lost wake-up: notifier uses a non-blocking send on an unbuffered channel
	lw := func(out *string) {
		c := make(chan struct{})
		flag := false
		var mu vsync.Mutex
		vrt.Go("notifier", func() {
			mu.Lock()
			flag = true
			mu.Unlock()
			vrt.Select(true, vrt.CaseSend(c).V(struct{}{}))
		})
		mu.Lock()
		f := flag
		mu.Unlock()
		if !f {
			vrt.Recv(c)
		}
		*out = "woke"
	}
	cs = append(cs, selfCase{name: "lostwake/P0", bound: vrt.Budget{}, body: lw, want: []string{"woke"}})
	cs = append(cs, selfCase{name: "lostwake/P1", bound: vrt.Budget{P: 1}, body: lw, wantFK: "deadlock"})
	// 8. timeout vs response: with T=0 the response always wins (computation is instantaneous)
	tmo := func(out *string) {
		resp := make(chan int, 1)
		vrt.Go("server", func() { vrt.Yield("work"); vrt.SendTo(resp).V(1) })
		ctx, cancel := vctx.WithTimeout(vctx.Background(), 2*vtime.Second)
		defer cancel()
		i, _ := vrt.Select(false, vrt.CaseRecv(resp), vrt.CaseRecv(ctx.Done()))
		if i == 0 {
			*out = "resp"
		} else {
			*out = "timeout:" + ctx.Err().Error()
		}
	}
	cs = append(cs, selfCase{name: "timeout/T0", bound: vrt.Budget{P: 1}, cfg: vrt.Config{EarlyTimers: true}, body: tmo, want: []string{"resp"}})
	cs = append(cs, selfCase{name: "timeout/T1", bound: vrt.Budget{T: 1}, cfg: vrt.Config{EarlyTimers: true}, body: tmo, want: []string{"resp", "timeout:context deadline exceeded"}})
	// 9. virtual clock: ticker period and Sleep are exact
	cs = append(cs, selfCase{name: "ticker", bound: vrt.Budget{}, want: []string{"3s,6s,9s|10s"}, body: func(out *string) {
		tk := vtime.NewTicker(3 * vtime.Second)
		t0 := vtime.Now()
		var s []string
		for i := 0; i < 3; i++ {
			t := vrt.Recv(tk.C)
			s = append(s, t.Sub(t0).String())
		}
		tk.Stop()
		vtime.Sleep(vtime.Second)
		*out = strings.Join(s, ",") + "|" + vtime.Since(t0).String()
	}})
	// 10. context cancellation propagates to children and through a wrapping context
	cs = append(cs, selfCase{name: "ctxprop", bound: vrt.Budget{P: 1}, want: []string{"context canceled/context canceled"}, body: func(out *string) {
		p, cancel := vctx.WithCancel(vctx.Background())
		type wrap struct{ vctx.Context }
		ch, c2 := vctx.WithTimeout(&wrap{p}, 5*vtime.Second)
		defer c2()
		vrt.Go("canceller", func() { cancel() })
		vrt.Recv(ch.Done())
		*out = ch.Err().Error() + "/" + p.Err().Error()
	}})
	// 11. Once runs exactly once, Cond wakes
	cs = append(cs, selfCase{name: "once/P2", bound: vrt.Budget{P: 2}, want: []string{"1"}, body: func(out *string) {
		n := 0
		var once vsync.Once
		var wg vsync.WaitGroup
		wg.Add(2)
		for i := 0; i < 2; i++ {
			vrt.Go("o", func() { once.Do(func() { vrt.Yield("in once"); n++ }); wg.Done() })
		}
		wg.Wait()
		*out = fmt.Sprint(n)
	}})
	// 12. race monitor: unsynchronised write/read is reported, locked one is not
	cs = append(cs, selfCase{name: "race/found", bound: vrt.Budget{P: 1}, cfg: vrt.Config{Race: true}, want: []string{"race"}, body: func(out *string) {
		x := 0
		var wg vsync.WaitGroup
		wg.Add(1)
		vrt.Go("w", func() { *vrt.Wr(&x, "x", "w") = 1; wg.Done() })
		_ = *vrt.R(&x, "x", "r")
		wg.Wait()
		if len(vrt.Races()) > 0 {
			*out = "race"
		} else {
			*out = "clean"
		}
	}})
	cs = append(cs, selfCase{name: "race/clean", bound: vrt.Budget{P: 2}, cfg: vrt.Config{Race: true}, want: []string{"clean"}, body: func(out *string) {
		x := 0
		var mu vsync.Mutex
		var wg vsync.WaitGroup
		wg.Add(1)
		vrt.Go("w", func() { mu.Lock(); *vrt.Wr(&x, "x", "w") = 1; mu.Unlock(); wg.Done() })
		mu.Lock()
		_ = *vrt.R(&x, "x", "r")
		mu.Unlock()
		wg.Wait()
		c := make(chan int, 1)
		y := 0
		vrt.Go("s", func() { *vrt.Wr(&y, "y", "w") = 1; vrt.SendTo(c).V(1) })
		vrt.Recv(c)
		_ = *vrt.R(&y, "y", "r")
		if len(vrt.Races()) > 0 {
			*out = fmt.Sprint("race", vrt.Races())
		} else {
			*out = "clean"
		}
	}})
	return cs
}

// selfConformance: outcomes(native Go) ⊆ outcomes(vrt, exhaustive) ⊆ Allowed for every
// micro-program of package selfprog (same source, compiled unchanged and rewritten).
func selfConformance(c *Ctx) {
	if c.Only != "" {
		return
	}
	old := runtime.GOMAXPROCS(4)
	defer runtime.GOMAXPROCS(old)
	for i := range sp.Progs {
		if !c.Mine(int64(1000 + i)) {
			continue
		}
		p := sp.Progs[i]
		np := spn.Progs[i]
		if p.Name != np.Name {
			c.EnumFail("conformance", "catalogue-mismatch", p.Name+" vs "+np.Name, nil)
			continue
		}
		native := map[string]int{}
		for k := 0; k < 400; k++ {
			native[np.Run()]++
			if k%7 == 0 {
				runtime.Gosched()
			}
		}
		explored := map[string]bool{}
		var out string
		s := &vrt.Scenario{Name: "SELF/conformance/" + p.Name, Bound: vrt.Budget{P: 2, S: 2, T: 1, Total: 3},
			Cfg:     vrt.Config{EarlyTimers: true, Horizon: int64(3 * 3600e9)},
			Body:    func() { out = "<aborted>"; out = p.Run() },
			Observe: func() uint64 { explored[out] = true; return vrt.HashString(out) },
		}
		ex := &vrt.Explorer{Sc: s, Deadline: c.Deadline}
		ex.Run()
		c.Res.Scenarios++
		c.Res.Execs += ex.Stats.Execs
		c.Res.States += ex.Stats.States
		c.Res.Transitions += ex.Stats.Transitions
		c.Res.Distinct += int64(len(explored))
		if e := ex.EngineError(); e != "" {
			c.Res.EngineError = p.Name + ": " + e
			continue
		}
		for _, v := range ex.Violations {
			c.EnumFail("conformance", p.Name+"/failure:"+v.Key, v.Msg, nil)
		}
		allowed := map[string]bool{}
		for _, a := range p.Allowed {
			allowed[a] = true
		}
		for o := range native {
			if !explored[o] {
				c.EnumFail("conformance", p.Name+"/missed-by-vrt", fmt.Sprintf("real Go produced %q (%d of 400 runs) but the exhaustive exploration only saw %v", o, native[o], keysOf(explored)), nil)
			}
			if !allowed[o] {
				c.EnumFail("conformance", p.Name+"/catalogue-wrong", fmt.Sprintf("real Go produced %q which the catalogue does not allow (%v)", o, p.Allowed), nil)
			}
		}
		// native mode: the rewritten program run outside of any execution (as the enumerating parts of
		// the checks run library code) must behave like Go as well
		selfNativeLater = append(selfNativeLater, func() {
			defer func() {
				if r := recover(); r != nil {
					c.EnumFail("conformance", p.Name+"/native-mode-panic", fmt.Sprintf("the rewritten program panicked when run outside of an execution: %v", r), nil)
				}
			}()
			for k := 0; k < 40; k++ {
				if o := p.Run(); !allowed[o] {
					c.EnumFail("conformance", p.Name+"/native-mode-wrong", fmt.Sprintf("the rewritten program run outside of an execution produced %q which Go's semantics do not allow (%v)", o, p.Allowed), nil)
					break
				}
			}
		})
		for o := range explored {
			if !allowed[o] {
				c.EnumFail("conformance", p.Name+"/invented-by-vrt", fmt.Sprintf("the exploration produced %q which Go's semantics do not allow (%v)", o, p.Allowed), nil)
			}
		}
		if ex.Stats.Complete {
			for _, a := range p.Allowed {
				if !explored[a] {
					c.Note("conformance %s: allowed outcome %q was not reached within the bound", p.Name, a)
				}
			}
		}
		c.Sample(map[string]any{"conformance": p.Name, "native": fmt.Sprint(native), "vrt": keysOf(explored), "executions": ex.Stats.Execs})
	}
}

func keysOf(m map[string]bool) []string {
	var ks []string
	for k := range m {
		ks = append(ks, k)
	}
	sort.Strings(ks)
	return ks
}

// selfCacheSoundness: the happens-before state cache must not change what is found.  Real library
// scenarios of several harness families are explored twice, with and without the cache; the sets of
// distinct final observations (per-connection wire traces) and of failure keys must be identical.
// (This check found harness reads of shared state that were not part of the fingerprint.)
func selfCacheSoundness(c *Ctx) {
	if c.Only != "" {
		return
	}
	type mk func() (*vrt.Scenario, func() (uint64, string))
	rcScn := func(name string, reqs []rcReq, bound vrt.Budget, fs env.FaultSet, extra func(*rcCfg)) mk {
		return func() (*vrt.Scenario, func() (uint64, string)) {
			var r *rcRun
			s := &vrt.Scenario{Name: "SELF/cache/" + name, Bound: bound, Cfg: vrt.Config{Horizon: int64(600e9)},
				Body: func() {
					cfg := &rcCfg{Reqs: reqs, Faults: fs, KeepSession: true}
					if extra != nil {
						extra(cfg)
					}
					rcExecuteInto(cfg, &r)
				}}
			return s, func() (uint64, string) {
				return r.net.CanonHash() ^ vrt.HashString(r.broker.SubsString()+fmt.Sprint(r.handledBy)), fmt.Sprint(r.broker.FaultLog) + "\n  " + strings.Join(r.net.TraceStrings(), "\n  ")
			}
		}
	}
	netScn := func(name string, bound vrt.Budget, cfg vrt.Config, delay bool, body func(out **env.Net) func()) mk {
		return func() (*vrt.Scenario, func() (uint64, string)) {
			var net *env.Net
			s := &vrt.Scenario{Name: "SELF/cache/" + name, Bound: bound, Cfg: cfg, DelayBound: delay, Body: body(&net)}
			return s, func() (uint64, string) { return net.CanonHash(), strings.Join(net.TraceStrings(), "\n  ") }
		}
	}
	cut := env.FaultSet{LostClose: true, AckLost: true, WriteErr: true}
	cl := env.FaultSet{LostClose: true, AckLost: true}
	list := []mk{
		rcScn("rc/p2.F2", []rcReq{{Kind: "p2", Tag: "m1", Phase: 'S'}}, vrt.Budget{F: 2}, cl, nil),
		rcScn("rc/p1.F1.P1", []rcReq{{Kind: "p1", Tag: "m1", Phase: 'N'}}, vrt.Budget{F: 1, P: 1, Total: 2}, env.FaultSet{AckLost: true, OnlyTypes: map[byte]bool{env.PUBLISH: true}}, nil),
		rcScn("rc/p1@B+p2@H.F1", []rcReq{{Kind: "p1", Tag: "m1", Phase: 'B'}, {Kind: "p2", Tag: "m2", Phase: 'H'}}, vrt.Budget{F: 1}, cut, nil),
		rcScn("rc/p1@S+sub@O.F1", []rcReq{{Kind: "p1", Tag: "m1", Phase: 'S'}, {Kind: "sub", Subs: []string{"a:1"}, Phase: 'O'}}, vrt.Budget{F: 1}, cl, nil),
		rcScn("rc/sub+unsub@N.F1.nosession", []rcReq{{Kind: "sub", Subs: []string{"a:1"}, Phase: 'N'}, {Kind: "unsub", Subs: []string{"a"}, Phase: 'N'}}, vrt.Budget{F: 1}, cl, func(c *rcCfg) { c.KeepSession = false }),
		rcScn("rc/handle@H+p1.F1.push", []rcReq{{Kind: "p1", Tag: "m1", Phase: 'S'}, {Kind: "handle", Tag: "h1", Phase: 'H'}}, vrt.Budget{F: 1}, env.FaultSet{LostClose: true, OnlyTypes: map[byte]bool{env.PUBLISH: true}}, func(c *rcCfg) { c.PushAfterAck = []string{"in/a:i0:0", "in/b:i1:1"} }),
		netScn("c07/p1+sub.foreign1", vrt.Budget{P: 1}, vrt.Config{}, false, func(out **env.Net) func() {
			return c07Body(c07Cfg{kinds: []string{"p1", "sub1"}, foreign: 1, bound: vrt.Budget{P: 1}}, out)
		}),
		netScn("c11/p2.1.cancel.racing", vrt.Budget{P: 1, S: 1}, vrt.Config{Horizon: int64(60e9)}, false, func(out **env.Net) func() {
			return c11Body(c11Cfg{calls: []c11Call{{"p2", 1}}, cause: "cancel", concurrent: true}, out)
		}),
		netScn("c09/stop.disconnect.delaybound", vrt.Budget{P: 1, D: 1, Total: 1}, vrt.Config{Horizon: int64(200e9)}, true, func(out **env.Net) func() {
			return func() {
				at := []time.Duration{500 * time.Millisecond, time.Second, 1500 * time.Millisecond}[vrt.Choose(vrt.KFree, 3, "instant")]
				c09Body([]string{"close-before-connack"}, time.Second, 4*time.Second, c09Stop{kind: "disconnect", at: at}, out)()
			}
		}),
	}
	for i, m := range list {
		if !c.Mine(int64(2000 + i)) {
			continue
		}
		var sets [2]map[uint64]bool
		var execs [2]int64
		var name string
		example := map[uint64]string{}
		for k, nocache := range []bool{false, true} {
			sets[k] = map[uint64]bool{}
			s, obs := m()
			name = s.Name
			s.NoCache = nocache
			s.Observe = func() uint64 {
				h, ex := obs()
				sets[k][h] = true
				if _, ok := example[h]; !ok && len(example) < 400 {
					example[h] = ex
				}
				return h
			}
			ex := &vrt.Explorer{Sc: s, Deadline: c.Deadline}
			ex.Run()
			execs[k] = ex.Stats.Execs
			c.Res.Scenarios++
			c.Res.Execs += ex.Stats.Execs
			c.Res.States += ex.Stats.States
			c.Res.Transitions += ex.Stats.Transitions
			if e := ex.EngineError(); e != "" {
				c.Res.EngineError = name + ": " + e
			}
			if !ex.Stats.Complete {
				c.Note("cache soundness %s: not completed within the budget", name)
				sets[k] = nil
			}
		}
		if sets[0] == nil || sets[1] == nil {
			continue
		}
		missing, extra := 0, 0
		firstMissing := ""
		for h := range sets[1] {
			if !sets[0][h] {
				missing++
				if firstMissing == "" || len(example[h]) < len(firstMissing) {
					firstMissing = example[h]
				}
			}
		}
		for h := range sets[0] {
			if !sets[1][h] {
				extra++
			}
		}
		if missing > 0 || extra > 0 {
			c.EnumFail("cache", name+"/outcome-sets-differ", fmt.Sprintf("with cache %d outcomes (%d executions), without %d outcomes (%d executions): %d missed by the cached search, %d only in the cached search; e.g. missed:\n%s", len(sets[0]), execs[0], len(sets[1]), execs[1], missing, extra, firstMissing), nil)
		}
		c.Sample(map[string]any{"cache_soundness": name, "outcomes": len(sets[0]), "executions_with_cache": execs[0], "executions_without_cache": execs[1]})
	}
}
