//go:build verif

package main

import (
	"errors"
	"fmt"
	"strings"
	"unsafe"

	mqtt "github.com/at-wat/mqtt-go"
	"github.com/at-wat/mqtt-go/internal/verif/env"
	vctx "github.com/at-wat/mqtt-go/internal/verif/shim/context"
	"github.com/at-wat/mqtt-go/internal/verif/vrt"
)

// C07 — a blocking Publish(QoS1/2) / Subscribe / Unsubscribe on the base client returns success
// only after the acknowledgement of the right kind with its own identifier arrived; foreign,
// wrong-kind or unsolicited acknowledgements neither complete nor disturb it.

func init() { register("C07", runC07) }

type c07Caller struct {
	kind     string // "p1" "p2" "sub1" "sub2" "unsub"
	tag      string
	returned bool
	err      error
	subs     []mqtt.Subscription
	// peer-side bookkeeping
	id      uint16
	seen    bool // request packet seen on the wire
	acked   bool // final acknowledgement delivered by the peer
	recd    bool // q2: PUBREC delivered
	relSeen bool // q2: PUBREL seen
	early   bool // returned nil before its final acknowledgement was delivered
	codes   []byte
}

type c07Owed struct {
	caller int
	pkt    []byte
	desc   string
	final  bool
	rec    bool
}

func c07Kinds() []string { return []string{"p1", "p2", "sub1", "sub2", "unsub"} }

type c07Cfg struct {
	kinds     []string
	immediate bool // peer answers inside the client's Write
	foreign   int  // number of foreign acknowledgements the peer may inject
	bound     vrt.Budget
}

func c07Body(cfg c07Cfg, outNet **env.Net) func() {
	return func() {
		net := env.NewNet()
		*outNet = net
		s := env.NewScript(net)
		s.AutoConnAck = true
		cli := &mqtt.BaseClient{Transport: s.Conn}
		vrt.W.RandInt31n = func(n int32) int32 { return 9 } // first identifier 11
		if _, err := cli.Connect(vctx.Background(), "c07"); err != nil {
			vrt.Failf("harness", "connect: %v", err)
			return
		}
		callers := make([]*c07Caller, len(cfg.kinds))
		var logObj int
		var owed []c07Owed
		var delivered []string
		// classify what the client writes
		match := func(p *env.Packet) {
			switch p.Type {
			case env.PUBLISH:
				for i, c := range callers {
					if (c.kind == "p1" || c.kind == "p2") && c.tag == string(p.Payload) && !c.seen {
						c.seen, c.id = true, p.ID
						if c.kind == "p1" {
							owed = append(owed, c07Owed{i, env.EncAck(env.PUBACK, p.ID), fmt.Sprintf("PUBACK(%d)", p.ID), true, false})
						} else {
							owed = append(owed, c07Owed{i, env.EncAck(env.PUBREC, p.ID), fmt.Sprintf("PUBREC(%d)", p.ID), false, true})
						}
					}
				}
			case env.PUBREL:
				for i, c := range callers {
					if c.kind == "p2" && c.seen && c.id == p.ID && !c.relSeen {
						c.relSeen = true
						if !c.recd {
							vrt.Failf("c07/pubrel-before-pubrec", "PUBREL(%d) written before PUBREC was delivered", p.ID)
						}
						owed = append(owed, c07Owed{i, env.EncAck(env.PUBCOMP, p.ID), fmt.Sprintf("PUBCOMP(%d)", p.ID), true, false})
					}
				}
			case env.SUBSCRIBE:
				for i, c := range callers {
					if strings.HasPrefix(c.kind, "sub") && !c.seen && len(p.Filters) > 0 && p.Filters[0] == c.tag {
						c.seen, c.id = true, p.ID
						c.codes = make([]byte, len(p.Filters))
						for k := range c.codes {
							c.codes[k] = byte((i + k) % 3)
						}
						owed = append(owed, c07Owed{i, env.EncSubAck(p.ID, c.codes), fmt.Sprintf("SUBACK(%d)", p.ID), true, false})
					}
				}
			case env.UNSUBSCRIBE:
				for i, c := range callers {
					if c.kind == "unsub" && !c.seen && p.Filters[0] == c.tag {
						c.seen, c.id = true, p.ID
						owed = append(owed, c07Owed{i, env.EncAck(env.UNSUBACK, p.ID), fmt.Sprintf("UNSUBACK(%d)", p.ID), true, false})
					}
				}
			}
		}
		deliver := func(k int) {
			o := owed[k]
			owed = append(owed[:k], owed[k+1:]...)
			c := callers[o.caller]
			if o.rec {
				c.recd = true
			}
			if o.final {
				c.acked = true
			}
			delivered = append(delivered, o.desc)
			s.Conn.Send(o.pkt, "")
		}
		s.OnPacket = func(_ *env.Script, p *env.Packet) {
			match(p)
			if cfg.immediate {
				for len(owed) > 0 {
					deliver(0)
				}
			}
		}
		for i, k := range cfg.kinds {
			i, k := i, k
			c := &c07Caller{kind: k, tag: fmt.Sprintf("%s-%d", k, i)}
			callers[i] = c
			vrt.Go("caller-"+k, func() {
				ctx := vctx.Background()
				switch k {
				case "p1", "p2":
					q := mqtt.QoS1
					if k == "p2" {
						q = mqtt.QoS2
					}
					c.err = cli.Publish(ctx, &mqtt.Message{Topic: "t", QoS: q, Payload: []byte(c.tag)})
				case "sub1":
					c.subs, c.err = cli.Subscribe(ctx, mqtt.Subscription{Topic: c.tag, QoS: mqtt.QoS2})
				case "sub2":
					c.subs, c.err = cli.Subscribe(ctx, mqtt.Subscription{Topic: c.tag, QoS: mqtt.QoS2}, mqtt.Subscription{Topic: c.tag + "/x", QoS: mqtt.QoS1})
				case "unsub":
					c.err = cli.Unsubscribe(ctx, c.tag)
				}
				c.returned = true
				if c.err == nil && !c.acked {
					c.early = true
				}
				vrt.Event(unsafe.Pointer(&logObj), uint64(i))
			})
		}
		// the peer: deliver owed acknowledgements in every order, with foreign ones in between
		foreignLeft := cfg.foreign
		var foreignLog []string
		for step := 0; step < 40; step++ {
			vrt.Settle()
			if len(owed) == 0 {
				break
			}
			var menu []c07Owed
			if foreignLeft > 0 {
				menu = c07Foreign(callers, delivered)
			}
			n := len(owed) + len(menu)
			k := vrt.Choose(vrt.KFree, n, "peer")
			vrt.Yield("peer acts")
			if k < len(owed) {
				deliver(k)
			} else {
				f := menu[k-len(owed)]
				foreignLeft--
				foreignLog = append(foreignLog, f.desc)
				s.Conn.Send(f.pkt, "foreign")
			}
		}
		vrt.Quiesce()
		desc := func() string {
			var cs []string
			for _, c := range callers {
				cs = append(cs, fmt.Sprintf("%s(id=%d returned=%v err=%v)", c.kind, c.id, c.returned, c.err))
			}
			return fmt.Sprintf("callers %v; acks delivered in order %v; foreign %v; immediate=%v\n wire:\n  %s", cs, delivered, foreignLog, cfg.immediate, strings.Join(net.TraceStrings(), "\n  "))
		}
		for _, c := range callers {
			if c.early {
				vrt.Failf("c07/returned-before-own-ack:"+c.kind, "%s returned nil before its own acknowledgement was delivered\n%s", c.kind, desc())
			}
			if !c.returned {
				vrt.Failf("c07/never-returned:"+c.kind, "%s has not returned although all its acknowledgements were delivered\n%s", c.kind, desc())
				continue
			}
			if c.err != nil {
				vrt.Failf("c07/failed:"+c.kind, "%s failed: %v\n%s", c.kind, c.err, desc())
				continue
			}
			if strings.HasPrefix(c.kind, "sub") {
				ok := len(c.subs) == len(c.codes)
				for k := 0; ok && k < len(c.subs); k++ {
					if byte(c.subs[k].QoS) != c.codes[k] {
						ok = false
					}
				}
				if !ok {
					vrt.Failf("c07/granted-qos", "Subscribe returned %v, SUBACK codes were %v\n%s", c.subs, c.codes, desc())
				}
			}
		}
		if err := cli.Err(); err != nil {
			vrt.Failf("c07/connection-ended", "connection ended: %v\n%s", err, desc())
		}
		if len(s.Bad) > 0 {
			vrt.Failf("c07/malformed-write", "client wrote malformed data: %v", s.Bad)
		}
	}
}

// c07Foreign lists acknowledgements that belong to no pending request in the right way.
func c07Foreign(callers []*c07Caller, delivered []string) []c07Owed {
	var m []c07Owed
	add := func(pkt []byte, d string) { m = append(m, c07Owed{caller: -1, pkt: pkt, desc: d}) }
	for _, c := range callers {
		if !c.seen || c.acked {
			continue
		}
		x := c.id
		switch {
		case c.kind == "p1":
			add(env.EncAck(env.PUBACK, x+100), "PUBACK(other id)")
			add(env.EncAck(env.PUBREC, x), "PUBREC(id of pending q1)")
			add(env.EncAck(env.PUBCOMP, x), "PUBCOMP(id of pending q1)")
			add(env.EncSubAck(x, []byte{0}), "SUBACK(id of pending q1)")
			add(env.EncAck(env.UNSUBACK, x), "UNSUBACK(id of pending q1)")
		case c.kind == "p2" && !c.recd:
			add(env.EncAck(env.PUBREC, x+100), "PUBREC(other id)")
			add(env.EncAck(env.PUBACK, x), "PUBACK(id of pending q2)")
			add(env.EncAck(env.PUBCOMP, x), "PUBCOMP before PUBREL was sent")
		case c.kind == "p2" && c.recd:
			add(env.EncAck(env.PUBCOMP, x+100), "PUBCOMP(other id)")
			add(env.EncAck(env.PUBACK, x), "PUBACK(id of q2 awaiting PUBCOMP)")
			add(env.EncAck(env.PUBREC, x), "duplicate PUBREC")
		case strings.HasPrefix(c.kind, "sub"):
			add(env.EncSubAck(x+100, []byte{0}), "SUBACK(other id)")
			add(env.EncAck(env.UNSUBACK, x), "UNSUBACK(id of pending subscribe)")
			add(env.EncAck(env.PUBACK, x), "PUBACK(id of pending subscribe)")
		case c.kind == "unsub":
			add(env.EncAck(env.UNSUBACK, x+100), "UNSUBACK(other id)")
			add(env.EncSubAck(x, []byte{0}), "SUBACK(id of pending unsubscribe)")
			add(env.EncAck(env.PUBACK, x), "PUBACK(id of pending unsubscribe)")
		}
	}
	for _, c := range callers {
		if c.acked && c.seen {
			switch c.kind {
			case "p1":
				add(env.EncAck(env.PUBACK, c.id), "duplicate PUBACK")
			case "p2":
				add(env.EncAck(env.PUBCOMP, c.id), "duplicate PUBCOMP")
			case "unsub":
				add(env.EncAck(env.UNSUBACK, c.id), "duplicate UNSUBACK")
			default:
				add(env.EncSubAck(c.id, c.codes), "duplicate SUBACK")
			}
		}
	}
	add(env.EncConnAck(false, 0), "unsolicited CONNACK")
	add(env.EncPingResp(), "unsolicited PINGRESP")
	return m
}

func runC07(c *Ctx) {
	kinds := c07Kinds()
	var net *env.Net
	var last *env.Net
	run := func(name string, cfg c07Cfg) {
		sc := &vrt.Scenario{Name: name, Bound: cfg.bound, Body: c07Body(cfg, &net), Observe: func() uint64 { return net.TraceHash() }}
		c.Explore(sc)
		if net != nil {
			last = net
		}
	}
	fo, p1, p2 := 2, 2, 2
	if c.Thorough() {
		fo, p1, p2 = 3, 3, 3
	}
	c.Bound("A", fmt.Sprintf("K=2 concurrent callers, every pair of kinds %v; peer delivers owed acknowledgements in every order with <=%d foreign/duplicate/unsolicited acknowledgements from the menu in between; P<=%d", kinds, fo, p1-1))
	c.Bound("B", fmt.Sprintf("K=2, peer answers inside the client's Write (acknowledgement can overtake the caller); all schedules with P<=%d, S<=1", p2))
	c.Bound("C", "K=3, every multiset of kinds; acknowledgements in every order; P=0 (thorough: <=1 foreign acknowledgement)")
	c.Bound("D", "single Subscribe of 1 and 2 filters x every SUBACK return-code vector over {0,1,2,0x80}^n and wrong lengths 0, n-1, n+1 x transport Close succeeding / returning an error")
	for _, a := range kinds {
		for _, b := range kinds {
			run(fmt.Sprintf("C07/A/%s+%s/foreign%d", a, b, fo), c07Cfg{kinds: []string{a, b}, foreign: fo, bound: vrt.Budget{P: p1 - 1}})
			run(fmt.Sprintf("C07/B/%s+%s/immediate", a, b), c07Cfg{kinds: []string{a, b}, immediate: true, bound: vrt.Budget{P: p2, S: 1}})
		}
	}
	for i, a := range kinds {
		for j, b := range kinds[i:] {
			for _, d := range kinds[i+j:] {
				f3 := 0
				if c.Thorough() {
					f3 = 1
				}
				run(fmt.Sprintf("C07/C/%s+%s+%s", a, b, d), c07Cfg{kinds: []string{a, b, d}, foreign: f3, bound: vrt.Budget{}})
			}
		}
	}
	c07Ending(c)
	c07Abandoned(c)
	c07CancelRace(c)
	c07SubAckVectors(c)
	if last != nil {
		c.Sample(map[string]any{"wire": last.TraceStrings()})
	}
}

// c07SubAckVectors: part D.
func c07SubAckVectors(c *Ctx) {
	for n := 1; n <= 2; n++ {
		n := n
		var vecs [][]byte
		var rec func(cur []byte, l int)
		rec = func(cur []byte, l int) {
			if len(cur) == l {
				vecs = append(vecs, append([]byte(nil), cur...))
				return
			}
			for _, v := range []byte{0, 1, 2, 0x80} {
				rec(append(cur, v), l)
			}
		}
		done := map[int]bool{}
		for _, l := range []int{0, n - 1, n, n + 1} {
			if l < 0 || done[l] {
				continue
			}
			done[l] = true
			rec(nil, l)
		}
		var net *env.Net
		sc := &vrt.Scenario{
			Name: fmt.Sprintf("C07/D/suback-vectors/n%d", n),
			Body: func() {
				net = env.NewNet()
				s := env.NewScript(net)
				s.AutoConnAck = true
				cli := &mqtt.BaseClient{Transport: s.Conn}
				if _, err := cli.Connect(vctx.Background(), "c07"); err != nil {
					vrt.Failf("harness", "connect: %v", err)
					return
				}
				vec := vecs[vrt.Choose(vrt.KFree, len(vecs), "suback vector")]
				if vrt.Choose(vrt.KFree, 2, "transport Close succeeds / reports an error") == 1 {
					// e.g. a failed TLS or WebSocket closing handshake; the verdict on the SUBACK must not depend on it
					s.Conn.CloseErr = errors.New("c07: closing handshake failed")
				}
				s.OnPacket = func(_ *env.Script, p *env.Packet) {
					if p.Type == env.SUBSCRIBE {
						s.Conn.Send(env.EncSubAck(p.ID, vec), "")
					}
				}
				req := []mqtt.Subscription{{Topic: "a", QoS: mqtt.QoS2}, {Topic: "b", QoS: mqtt.QoS0}}[:n]
				got, err := cli.Subscribe(vctx.Background(), req...)
				if len(vec) != n {
					if !errors.Is(err, mqtt.ErrInvalidSubAck) {
						vrt.Failf("c07/suback-count-not-rejected", "SUBACK with %d codes for %d filters: Subscribe returned %v, %v", len(vec), n, got, err)
					}
				} else {
					if err != nil {
						vrt.Failf("c07/suback-rejected", "SUBACK %v for %d filters: Subscribe failed: %v", vec, n, err)
					} else {
						for i := range vec {
							if len(got) != n || got[i].Topic != req[i].Topic || byte(got[i].QoS) != vec[i] {
								vrt.Failf("c07/granted-qos", "SUBACK %v: Subscribe returned %v", vec, got)
								break
							}
						}
					}
				}
				vrt.Quiesce()
			},
			Observe: func() uint64 { return net.TraceHash() },
		}
		c.Explore(sc)
	}
}

// c07Ending: part E.  No acknowledgement is ever delivered; the connection is ended while the
// request is pending (Disconnect by another task, local Close, peer close).  The call must not
// report success.
func c07Ending(c *Ctx) {
	c.Bound("E", "each request kind (QoS 2 also between PUBREC and PUBCOMP) pending with no acknowledgement while another task ends the connection by Disconnect / Close / the peer closes; P<=2; the call must return an error, never nil")
	type variant struct {
		kind string
		rec  bool // answer PUBREC so that the QoS 2 publish waits for PUBCOMP
	}
	for _, v := range []variant{{"p1", false}, {"p2", false}, {"p2", true}, {"sub1", false}, {"unsub", false}} {
		for _, end := range []string{"disconnect", "close", "peer-close"} {
			v, end := v, end
			var net *env.Net
			sc := &vrt.Scenario{
				Name:  fmt.Sprintf("C07/E/%s.rec=%v/%s", v.kind, v.rec, end),
				Bound: vrt.Budget{P: 2},
				Body: func() {
					net = env.NewNet()
					s := env.NewScript(net)
					s.AutoConnAck = true
					s.OnPacket = func(_ *env.Script, p *env.Packet) {
						if p.Type == env.PUBLISH && p.QoS == 2 && v.rec {
							s.Conn.Send(env.EncAck(env.PUBREC, p.ID), "")
						}
						if p.Type == env.DISCONNECT {
							s.Conn.PeerClose("DISCONNECT received")
						}
					}
					cli := &mqtt.BaseClient{Transport: s.Conn}
					if _, err := cli.Connect(vctx.Background(), "c07"); err != nil {
						vrt.Failf("harness", "connect: %v", err)
						return
					}
					returned := false
					var err error
					vrt.Go("caller", func() {
						ctx := vctx.Background()
						switch v.kind {
						case "p1":
							err = cli.Publish(ctx, &mqtt.Message{Topic: "t", QoS: mqtt.QoS1, Payload: []byte("x")})
						case "p2":
							err = cli.Publish(ctx, &mqtt.Message{Topic: "t", QoS: mqtt.QoS2, Payload: []byte("x")})
						case "sub1":
							_, err = cli.Subscribe(ctx, mqtt.Subscription{Topic: "a", QoS: mqtt.QoS1})
						case "unsub":
							err = cli.Unsubscribe(ctx, "a")
						}
						returned = true
					})
					vrt.Go("ender", func() {
						switch end {
						case "disconnect":
							cli.Disconnect(vctx.Background())
						case "close":
							cli.Close()
						case "peer-close":
							s.Close()
						}
					})
					vrt.Quiesce()
					if returned && err == nil {
						vrt.Failf("c07/success-without-ack:"+v.kind+":"+end, "%s returned nil although no acknowledgement was ever sent (connection ended by %s)\n wire:\n  %s", v.kind, end, strings.Join(net.TraceStrings(), "\n  "))
					}
					if !returned {
						vrt.Failf("c07/never-returned:"+v.kind+":"+end, "%s did not return after the connection ended (%s)", v.kind, end)
					}
				},
				Observe: func() uint64 { return net.TraceHash() },
			}
			c.Explore(sc)
		}
	}
}

// c07Abandoned: part F.  A first request is given up by its caller (context cancelled after the
// request was written, nothing answered), then a second request is issued and left pending, and
// only now the peer answers the abandoned one (every acknowledgement kind with the abandoned
// identifier).  The late acknowledgement belongs to nobody: the second call must stay pending until
// its own acknowledgement arrives, and must then succeed.
func c07Abandoned(c *Ctx) {
	c.Bound("F", "an abandoned first request (context cancelled after the write, unanswered) x a second pending request, every pair of kinds; the peer then sends PUBACK/PUBREC/PUBCOMP/SUBACK/UNSUBACK with the abandoned identifier, after that the second request's own acknowledgements; P<=1")
	kinds := c07Kinds()
	issue := func(cli *mqtt.BaseClient, ctx vctx.Context, kind, tag string) error {
		switch kind {
		case "p1":
			return cli.Publish(ctx, &mqtt.Message{Topic: "t", QoS: mqtt.QoS1, Payload: []byte(tag)})
		case "p2":
			return cli.Publish(ctx, &mqtt.Message{Topic: "t", QoS: mqtt.QoS2, Payload: []byte(tag)})
		case "sub1":
			_, err := cli.Subscribe(ctx, mqtt.Subscription{Topic: tag, QoS: mqtt.QoS1})
			return err
		case "sub2":
			_, err := cli.Subscribe(ctx, mqtt.Subscription{Topic: tag, QoS: mqtt.QoS1}, mqtt.Subscription{Topic: tag + "/x", QoS: mqtt.QoS0})
			return err
		default:
			return cli.Unsubscribe(ctx, tag)
		}
	}
	for _, k1 := range kinds {
		for _, k2 := range kinds {
			k1, k2 := k1, k2
			var net *env.Net
			sc := &vrt.Scenario{
				Name:  fmt.Sprintf("C07/F/abandoned-%s/then-%s", k1, k2),
				Bound: vrt.Budget{P: 1},
				Body: func() {
					net = env.NewNet()
					s := env.NewScript(net)
					s.AutoConnAck = true
					var reqs []*env.Packet
					s.OnPacket = func(_ *env.Script, p *env.Packet) {
						switch p.Type {
						case env.PUBLISH, env.SUBSCRIBE, env.UNSUBSCRIBE:
							reqs = append(reqs, p)
						case env.PUBREL:
							s.Conn.Send(env.EncAck(env.PUBCOMP, p.ID), "")
						}
					}
					cli := &mqtt.BaseClient{Transport: s.Conn}
					if _, err := cli.Connect(vctx.Background(), "c07"); err != nil {
						vrt.Failf("harness", "connect: %v", err)
						return
					}
					ctx1, cancel1 := vctx.WithCancel(vctx.Background())
					done1, done2 := false, false
					var err2 error
					vrt.Go("first", func() { issue(cli, ctx1, k1, "first"); done1 = true })
					vrt.Settle()
					cancel1()
					vrt.Settle()
					if !done1 || len(reqs) != 1 {
						vrt.Failf("harness", "the abandoned call did not return after cancellation (returned=%v, requests on the wire %d)", done1, len(reqs))
						return
					}
					old := reqs[0].ID
					vrt.Go("second", func() { err2 = issue(cli, vctx.Background(), k2, "second"); done2 = true })
					vrt.Settle()
					if len(reqs) != 2 || done2 {
						vrt.Failf("c07/success-without-ack:"+k2+":before-any-answer", "second request (%s) returned %v before anything was answered (requests on the wire %d)", k2, err2, len(reqs))
						return
					}
					if reqs[1].ID == old {
						return // identifier reuse is C15's matter; the late answer would legitimately be the second request's
					}
					// the late answers for the abandoned identifier, every kind
					for _, typ := range []byte{env.PUBACK, env.PUBREC, env.PUBCOMP, env.UNSUBACK} {
						s.Conn.Send(env.EncAck(typ, old), "late answer to the abandoned request")
					}
					s.Conn.Send(env.EncSubAck(old, []byte{1}), "late answer to the abandoned request")
					s.Conn.Send(env.EncSubAck(old, []byte{1, 0}), "late answer to the abandoned request")
					vrt.Settle()
					if done2 {
						vrt.Failf("c07/completed-by-abandoned-requests-ack:"+k2, "second request (%s, id %d) returned %v on acknowledgements carrying the identifier %d of the abandoned %s\n wire:\n  %s", k2, reqs[1].ID, err2, old, k1, strings.Join(net.TraceStrings(), "\n  "))
						return
					}
					// now its own
					id := reqs[1].ID
					switch k2 {
					case "p1":
						s.Conn.Send(env.EncAck(env.PUBACK, id), "")
					case "p2":
						s.Conn.Send(env.EncAck(env.PUBREC, id), "")
					case "sub1":
						s.Conn.Send(env.EncSubAck(id, []byte{1}), "")
					case "sub2":
						s.Conn.Send(env.EncSubAck(id, []byte{1, 0}), "")
					default:
						s.Conn.Send(env.EncAck(env.UNSUBACK, id), "")
					}
					vrt.Settle()
					if !done2 || err2 != nil {
						vrt.Failf("c07/own-ack-did-not-complete:"+k2, "second request (%s, id %d) after its own acknowledgement: returned=%v err=%v\n wire:\n  %s", k2, id, done2, err2, strings.Join(net.TraceStrings(), "\n  "))
					}
					cli.Close()
					vrt.Quiesce()
				},
				Observe: func() uint64 { return net.TraceHash() },
			}
			c.Explore(sc)
		}
	}
}

// c07CancelRace: family G.  The caller's context ends at the very instant an acknowledgement becomes
// readable.  Whatever the call returns, success still means that the whole exchange took place: for
// QoS 2, PUBREC answered by PUBREL and PUBCOMP received.
func c07CancelRace(c *Ctx) {
	c.Bound("G", "one QoS 2 Publish; the caller's context is cancelled in the same instant as PUBREC (or PUBCOMP) arrives, with or without a stray PUBCOMP sent first; P<=1, S<=2; a nil result requires that the peer received PUBREL and sent PUBCOMP")
	for _, at := range []string{"pubrec", "pubcomp", "stray-pubcomp-then-pubrec"} {
		at := at
		var net *env.Net
		sc := &vrt.Scenario{
			Name:  "C07/G/cancel-at-" + at,
			Bound: vrt.Budget{P: 1, S: 2},
			Body: func() {
				net = env.NewNet()
				s := env.NewScript(net)
				s.AutoConnAck = true
				ctx, cancel := vctx.WithCancel(vctx.Background())
				var pub *env.Packet
				gotRel, sentComp := false, false
				s.OnPacket = func(_ *env.Script, p *env.Packet) {
					switch p.Type {
					case env.PUBLISH:
						pub = p
					case env.PUBREL:
						gotRel = true
						s.Conn.Send(env.EncAck(env.PUBCOMP, p.ID), "")
						sentComp = true
						if at == "pubcomp" {
							cancel()
						}
					}
				}
				cli := &mqtt.BaseClient{Transport: s.Conn}
				if _, err := cli.Connect(vctx.Background(), "c07"); err != nil {
					vrt.Failf("harness", "connect: %v", err)
					return
				}
				done := false
				var err error
				vrt.Go("publisher", func() {
					err = cli.Publish(ctx, &mqtt.Message{Topic: "t", QoS: mqtt.QoS2, Payload: []byte("m")})
					done = true
				})
				vrt.Settle()
				if pub == nil || done {
					vrt.Failf("c07/success-without-ack:p2:before-any-answer", "QoS 2 Publish returned %v before anything was answered", err)
					return
				}
				if at == "stray-pubcomp-then-pubrec" {
					s.Conn.Send(env.EncAck(env.PUBCOMP, pub.ID), "PUBCOMP ahead of PUBREC")
				}
				s.Conn.Send(env.EncAck(env.PUBREC, pub.ID), "")
				if at != "pubcomp" {
					cancel()
				}
				vrt.Settle()
				if !done {
					vrt.Failf("c07/not-returned-after-cancel", "QoS 2 Publish has not returned although its context ended (cancel at %s)", at)
					return
				}
				if err == nil && (!gotRel || !sentComp) {
					vrt.Failf("c07/success-without-ack:p2:cancel-at-"+at, "QoS 2 Publish returned nil with its context ending at %s, but PUBREL received by the peer=%v, PUBCOMP sent=%v\n wire:\n  %s", at, gotRel, sentComp, strings.Join(net.TraceStrings(), "\n  "))
				}
				cancel()
				cli.Close()
				vrt.Quiesce()
			},
			Observe: func() uint64 { return net.TraceHash() },
		}
		c.Explore(sc)
	}
}
