//go:build verif

package main

import (
	"os"
	"syscall"
)

func mmapFile(path string, size int) []byte {
	f, err := os.OpenFile(path, os.O_RDWR|os.O_CREATE, 0o644)
	if err != nil {
		return nil
	}
	defer f.Close()
	if err := f.Truncate(int64(size)); err != nil {
		return nil
	}
	b, err := syscall.Mmap(int(f.Fd()), 0, size, syscall.PROT_READ|syscall.PROT_WRITE, syscall.MAP_SHARED)
	if err != nil {
		return nil
	}
	return b
}
