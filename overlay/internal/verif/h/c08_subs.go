//go:build verif

package main

import (
	"fmt"
	"sort"
	"strings"
	"time"

	mqtt "github.com/at-wat/mqtt-go"
	"github.com/at-wat/mqtt-go/internal/verif/env"
	"github.com/at-wat/mqtt-go/internal/verif/vrt"
)

// C08 — broker-side subscriptions converge to the net effect of the application's
// Subscribe / Unsubscribe calls, however many reconnects happened.

func init() { register("C08", runC08) }

type c08Sym struct {
	kind string
	subs []string
}

func c08Alphabet() []c08Sym {
	return []c08Sym{
		{"sub", []string{"a:0"}}, {"sub", []string{"a:1"}}, {"sub", []string{"b:1"}},
		{"sub", []string{"a:1", "b:2"}}, {"sub", []string{"a:0", "a:2"}},
		{"unsub", []string{"a"}}, {"unsub", []string{"b"}}, {"unsub", []string{"b", "b"}}, {"unsub", []string{"c"}},
		{"p1", nil},
	}
}

func c08Fold(reqs []rcReq, include func(i int) bool) map[string]byte {
	m := map[string]byte{}
	for i, q := range reqs {
		if !include(i) {
			continue
		}
		switch q.Kind {
		case "sub":
			for _, s := range q.Subs {
				sb := parseSub(s)
				m[sb.Topic] = byte(sb.QoS)
			}
		case "unsub":
			for _, t := range q.Subs {
				delete(m, t)
			}
		}
	}
	return m
}

func c08Table(m map[string]byte) string {
	var ks []string
	for k := range m {
		ks = append(ks, k)
	}
	sort.Strings(ks)
	var sb strings.Builder
	for _, k := range ks {
		fmt.Fprintf(&sb, "%s:q%d ", k, m[k])
	}
	return sb.String()
}

func c08Oracle(r *rcRun, cfgName string) {
	if !r.connectOK {
		return
	}
	want := c08Table(c08Fold(r.cfg.Reqs, func(i int) bool { return r.submitted[i] && r.accepted[i] }))
	if r.cfg.GrantMax != nil && *r.cfg.GrantMax == 0x80 {
		want = c08Table(map[string]byte{}) // every subscription is refused by the broker: nothing is subscribed
	}
	got := c08Table(r.broker.Subs)
	if want != got {
		vrt.Failf("c08/table-differs:"+c08Shape(r)+":faults="+r.faultKinds(), "at quiescence the broker holds subscriptions [%s], the application's calls amount to [%s] (%s)\n%s", got, want, cfgName, r.summary())
	}
	// resubscription policy
	firstConn := -1
	for _, e := range r.net.Trace {
		if e.Dir == '<' && e.Pkt != nil && e.Pkt.Type == env.CONNACK && e.Pkt.ReturnCode == 0 {
			firstConn = e.Conn
			break
		}
	}
	reqCount := map[string]int{}
	for i, q := range r.cfg.Reqs {
		if q.Kind == "sub" && r.submitted[i] && r.accepted[i] {
			reqCount[strings.Join(q.Subs, ",")]++
		}
	}
	sent := map[string]int{}
	unacked := map[string]int{}
	sentFirst := map[string]int{}
	type key struct {
		conn int
		id   uint16
	}
	pending := map[key]string{}
	for _, e := range r.net.Trace {
		if e.Pkt == nil {
			continue
		}
		if e.Sent() && e.Pkt.Type == env.SUBSCRIBE {
			var l []string
			for i, f := range e.Pkt.Filters {
				l = append(l, fmt.Sprintf("%s:%d", f, e.Pkt.QoSs[i]))
			}
			ls := strings.Join(l, ",")
			sent[ls]++
			unacked[ls]++
			pending[key{e.Conn, e.Pkt.ID}] = ls
			if e.Conn == firstConn {
				sentFirst[ls]++
			}
		}
		if e.Dir == '<' && e.Pkt.Type == env.SUBACK {
			if ls, ok := pending[key{e.Conn, e.Pkt.ID}]; ok {
				unacked[ls]--
				delete(pending, key{e.Conn, e.Pkt.ID})
			}
		}
	}
	for ls, n := range sentFirst {
		if n > reqCount[ls] {
			vrt.Failf("c08/resubscribe-on-first-connection", "SUBSCRIBE(%s) was sent %d times on the first connection for %d application request(s) (%s)\n%s", ls, n, reqCount[ls], cfgName, r.summary())
		}
	}
	forgot := false
	for _, f := range r.broker.FaultLog {
		if strings.Contains(f, "session-forgotten") {
			forgot = true
		}
	}
	if r.cfg.KeepSession && !r.cfg.AlwaysResub && !r.cfg.Clean && !forgot {
		for ls, n := range sent {
			if n-unacked[ls] > reqCount[ls] {
				vrt.Failf("c08/resubscribe-despite-session", "session kept, AlwaysResubscribe off: SUBSCRIBE(%s) was acknowledged %d times for %d application request(s) (%s)\n%s", ls, n-unacked[ls], reqCount[ls], cfgName, r.summary())
			}
		}
	}
}

// c08Shape names the structural feature of the workload that the mismatch involves (for stable keys).
func c08Shape(r *rcRun) string {
	dupInCall, repeat, unsubAfter := false, false, false
	seen := map[string]bool{}
	for i, q := range r.cfg.Reqs {
		if !r.submitted[i] {
			continue
		}
		local := map[string]bool{}
		for _, s := range q.Subs {
			t := s
			if q.Kind == "sub" {
				t = parseSub(s).Topic
			}
			if local[t] {
				dupInCall = true
			}
			local[t] = true
			if q.Kind == "sub" && seen[t] {
				repeat = true
			}
			if q.Kind == "unsub" && seen[t] {
				unsubAfter = true
			}
			if q.Kind == "sub" {
				seen[t] = true
			}
		}
	}
	var p []string
	if dupInCall {
		p = append(p, "dup-in-call")
	}
	if repeat {
		p = append(p, "filter-resubscribed")
	}
	if unsubAfter {
		p = append(p, "unsub")
	}
	if len(p) == 0 {
		return "plain"
	}
	return strings.Join(p, "+")
}

func c08Workloads(n int, phase byte) [][]rcReq {
	alpha := c08Alphabet()
	var out [][]rcReq
	var rec func(cur []rcReq)
	rec = func(cur []rcReq) {
		if len(cur) > 0 {
			hasSub := false
			for _, q := range cur {
				if q.Kind != "p1" {
					hasSub = true
				}
			}
			if hasSub {
				out = append(out, append([]rcReq(nil), cur...))
			}
		}
		if len(cur) == n {
			return
		}
		for _, s := range alpha {
			q := rcReq{Kind: s.kind, Subs: s.subs, Phase: phase}
			if s.kind == "p1" {
				q.Tag = fmt.Sprintf("m%d", len(cur)+1)
			}
			rec(append(cur, q))
		}
	}
	rec(nil)
	return out
}

func runC08(c *Ctx) {
	c08Unit(c)
	type conf struct {
		keep, always, clean bool
		grant0              bool // the broker grants QoS 0 whatever was requested (SUBACK return codes differ from the request)
		refuse              bool // the broker refuses every subscription (return code 0x80)
	}
	confs := []conf{{true, false, false, false, false}, {false, false, false, false, false}, {true, true, false, false, false}, {true, false, true, false, false}, {false, false, false, true, false}, {keep: false, refuse: true}}
	n, f := 2, 1
	n3 := true
	if c.Thorough() {
		confs = append(confs, conf{false, true, false, false, false}, conf{false, false, true, false, false}, conf{true, true, false, true, false})
	}
	faults := env.FaultSet{LostClose: true, AckLost: true}
	if c.Thorough() {
		c.Bound("workloads.deep", fmt.Sprintf("after everything else: all sequences of length<=3 over %v, all settled / all back-to-back / the last one during the reconnect handshake; faults %+v with F<=2; the same configurations", c08Alphabet(), faults))
	}
	c.Bound("workloads", fmt.Sprintf("all sequences of length<=%d over %v, requests either all settled ('S') or all back-to-back ('N') or the last one during the reconnect handshake ('H'); faults %+v with F<=%d; configurations (session kept, AlwaysResubscribe, CleanSession) %v", n, c08Alphabet(), faults, f, confs))
	var sample *rcRun
	run := func(name string, reqs []rcReq, cf conf, bound vrt.Budget) {
		var r *rcRun
		cfgName := fmt.Sprintf("keep=%v always=%v clean=%v", cf.keep, cf.always, cf.clean)
		var grant *byte
		if cf.grant0 {
			cfgName += " broker-grants-qos0"
			grant = new(byte)
		}
		if cf.refuse {
			cfgName += " broker-refuses-subscriptions"
			grant = new(byte)
			*grant = 0x80
		}
		sc := &vrt.Scenario{
			Name:  fmt.Sprintf("C08/%s/%s/%s", name, strings.ReplaceAll(cfgName, " ", ","), rcName(reqs)),
			Bound: bound,
			Cfg:   vrt.Config{Horizon: int64(600 * time.Second)},
			Body: func() {
				rcExecuteInto(&rcCfg{Reqs: reqs, Faults: faults, KeepSession: cf.keep, AlwaysResub: cf.always, Clean: cf.clean, Manual: strings.HasPrefix(name, "manual."), GrantMax: grant}, &r)
				c08Oracle(r, cfgName)
			},
			Observe: func() uint64 { return r.net.TraceHash() ^ vrt.HashString(r.broker.SubsString()) },
		}
		c.Explore(sc)
		if r != nil && len(r.broker.FaultLog) > 0 {
			sample = r
		}
	}
	mainPass := func(n, f int) {
		for _, ph := range []byte{'S', 'N'} {
			for _, reqs := range c08Workloads(n, ph) {
				for _, cf := range confs {
					run(fmt.Sprintf("N%d.F%d", n, f), reqs, cf, vrt.Budget{F: f})
				}
			}
		}
		// the last request submitted while the library is reconnecting
		for _, reqs := range c08Workloads(n, 'S') {
			if len(reqs) < 2 {
				continue
			}
			rq := append([]rcReq(nil), reqs...)
			rq[len(rq)-1].Phase = 'H'
			for _, cf := range confs[:2] {
				run(fmt.Sprintf("N%d.F%d.H", n, f), rq, cf, vrt.Budget{F: f})
			}
		}
	}
	mainPass(n, f)
	// two faults on a small alphabet: a subscribe whose SUBACK is lost, then a second connection loss
	focus := []c08Sym{{"sub", []string{"b:1"}}, {"sub", []string{"a:1", "b:2"}}, {"unsub", []string{"b"}}, {"p1", nil}}
	for _, x := range focus {
		for _, y := range focus {
			reqs := []rcReq{{Kind: x.kind, Subs: x.subs, Phase: 'S'}, {Kind: y.kind, Subs: y.subs, Phase: 'S'}}
			for i := range reqs {
				if reqs[i].Kind == "p1" {
					reqs[i].Tag = fmt.Sprintf("m%d", i+1)
				}
			}
			if x.kind == "p1" && y.kind == "p1" {
				continue
			}
			for _, cf := range []conf{{false, false, false, false, false}, {true, true, false, false, false}} {
				run("N2.F2.focus", reqs, cf, vrt.Budget{F: 2})
			}
			// one fault and one non-default resolution of a select whose cases are ready together
			run("N2.F1.S1.focus", reqs, conf{false, false, false, false, false}, vrt.Budget{F: 1, S: 1, Total: 2})
			// the same with an application-owned redial loop around a bare RetryClient
			run("manual.N2.F2.focus", reqs, conf{false, false, false, false, false}, vrt.Budget{F: 2})
			if c.Thorough() {
				run("manual.N2.F2.focus", reqs, conf{true, true, false, false, false}, vrt.Budget{F: 2})
				run("manual.N2.F2.focus", reqs, conf{true, false, false, false, false}, vrt.Budget{F: 2})
			}
		}
	}
	// requests parked behind a failed one during an outage (their bookkeeping must follow the order in
	// which they are finally carried out), then a later connection loss that forces a resubscription
	parked := [][2]c08Sym{
		{{"sub", []string{"c:1"}}, {"unsub", []string{"c"}}},
		{{"unsub", []string{"c"}}, {"sub", []string{"c:1"}}},
		{{"sub", []string{"c:1"}}, {"sub", []string{"c:2"}}},
		{{"sub", []string{"c:1", "d:0"}}, {"unsub", []string{"d"}}},
	}
	for _, pr := range parked {
		for _, pre := range []bool{false, true} {
			var reqs []rcReq
			if pre {
				// the filter is already subscribed before the outage
				reqs = append(reqs, rcReq{Kind: "sub", Subs: []string{"c:0"}, Phase: 'S'})
			}
			reqs = append(reqs, rcReq{Kind: "p1", Tag: "m1", Phase: 'S'},
				rcReq{Kind: pr[0].kind, Subs: pr[0].subs, Phase: 'O'},
				rcReq{Kind: pr[1].kind, Subs: pr[1].subs, Phase: 'O'},
				rcReq{Kind: "p1", Tag: "m9", Phase: 'S'})
			for _, cf := range []conf{{false, false, false, false, false}, {true, true, false, false, false}} {
				run("parked.F2", reqs, cf, vrt.Budget{F: 2})
			}
		}
	}
	// requests submitted while the library is reconnecting (they wait in front of the resubscription), the
	// first of them answered 6 s late, so that the resubscription is requested while they are still pending
	{
		hs := []c08Sym{{"sub", []string{"g:1"}}, {"unsub", []string{"f"}}, {"sub", []string{"f:2"}}}
		saved := faults
		faults = env.FaultSet{LostClose: true, LateAck: true, OnlyTypes: map[byte]bool{env.PUBLISH: true, env.SUBSCRIBE: true, env.UNSUBSCRIBE: true}}
		c.Bound("handshake.late.F2", fmt.Sprintf("[sub f:1 settled, QoS 0|1 publish settled (its loss forces the reconnect), X and Y during the reconnect handshake] for X != Y in %v; faults %+v with F<=2; session lost / kept with AlwaysResubscribe", hs, faults))
		for _, x := range hs {
			for _, y := range hs {
				if x.kind == y.kind && x.subs[0] == y.subs[0] {
					continue
				}
				for _, k := range []string{"p0", "p1"} {
					// a lost QoS 0 publish leaves nothing to retry: X and Y are then carried out directly, ahead of the resubscription
					reqs := []rcReq{{Kind: "sub", Subs: []string{"f:1"}, Phase: 'S'}, {Kind: k, Tag: "m1", Phase: 'S'},
						{Kind: x.kind, Subs: x.subs, Phase: 'H'}, {Kind: y.kind, Subs: y.subs, Phase: 'H'}}
					for _, cf := range []conf{{false, false, false, false, false}, {true, true, false, false, false}} {
						run("handshake.late.F2", reqs, cf, vrt.Budget{F: 2})
					}
				}
			}
		}
		faults = saved
	}
	// three subscriptions, the connection lost while a SUBSCRIBE is in flight up to three times and
	// the session forgotten by the broker on some reconnect (kept on the others)
	{
		reqs := []rcReq{{Kind: "sub", Subs: []string{"a:1"}, Phase: 'S'}, {Kind: "sub", Subs: []string{"b:1"}, Phase: 'S'}, {Kind: "sub", Subs: []string{"c:1"}, Phase: 'S'}}
		var r *rcRun
		cfgName := "keep=true, session forgotten on some reconnects"
		fs := env.FaultSet{LostClose: true, ForgetSession: true, OnlyTypes: map[byte]bool{env.SUBSCRIBE: true, env.CONNECT: true}}
		fb := 4
		if c.Thorough() {
			fb = 5
		}
		sc := &vrt.Scenario{
			Name:  fmt.Sprintf("C08/subs3.F%d.session-forgotten/%s", fb, rcName(reqs)),
			Bound: vrt.Budget{F: fb},
			Cfg:   vrt.Config{Horizon: int64(600 * time.Second)},
			Body: func() {
				rcExecuteInto(&rcCfg{Reqs: reqs, Faults: fs, KeepSession: true}, &r)
				c08Oracle(r, cfgName)
			},
			Observe: func() uint64 { return r.net.TraceHash() ^ vrt.HashString(r.broker.SubsString()) },
		}
		c.Explore(sc)
	}
	// a silent (half-open) link with ResponseTimeout configured: the request must still take effect
	silent := env.FaultSet{Silent: true, SilentDrop: true, OnlyTypes: map[byte]bool{env.SUBSCRIBE: true, env.UNSUBSCRIBE: true, env.PUBLISH: true}}
	for _, x := range focus {
		for _, y := range focus {
			if x.kind == "p1" && y.kind == "p1" {
				continue
			}
			reqs := []rcReq{{Kind: x.kind, Subs: x.subs, Phase: 'S'}, {Kind: y.kind, Subs: y.subs, Phase: 'S'}}
			for i := range reqs {
				if reqs[i].Kind == "p1" {
					reqs[i].Tag = fmt.Sprintf("m%d", i+1)
				}
			}
			var r *rcRun
			cfgName := "keep=true response-timeout=2s silent-link"
			sc := &vrt.Scenario{
				Name:  fmt.Sprintf("C08/N2.F1.silent/%s", rcName(reqs)),
				Bound: vrt.Budget{F: 1},
				Cfg:   vrt.Config{Horizon: int64(600 * time.Second)},
				Body: func() {
					rcExecuteInto(&rcCfg{Reqs: reqs, Faults: silent, KeepSession: true, RespTimeout: 2 * time.Second}, &r)
					c08Oracle(r, cfgName)
				},
				Observe: func() uint64 { return r.net.TraceHash() ^ vrt.HashString(r.broker.SubsString()) },
			}
			c.Explore(sc)
		}
	}
	if n3 {
		// quick tier: length 3 without publishes, default configuration only, one fault
		for _, reqs := range c08Workloads(3, 'S') {
			if len(reqs) != 3 {
				continue
			}
			skip := false
			for _, q := range reqs {
				if q.Kind == "p1" {
					skip = true
				}
			}
			if skip {
				continue
			}
			run("N3.F1", reqs, confs[1], vrt.Budget{F: 1})
		}
	}
	if c.Thorough() {
		mainPass(3, 2)
	}
	if sample != nil {
		c.Sample(map[string]any{"workload": rcName(sample.cfg.Reqs), "faults": sample.broker.FaultLog, "broker_table": sample.broker.SubsString(), "wire": sample.net.TraceStrings()})
	}
}

// c08Unit: the bookkeeping type against a plain map for all call sequences of length <= 5.
func c08Unit(c *Ctx) {
	if !mqtt.VerifHasSubs {
		c.Note("C08: the white-box wrapper around the established-subscription list does not compile against this tree; the unit part is skipped, the client-level scenarios still judge the broker's table")
		return
	}
	alpha := c08Alphabet()[:9]
	maxL := 4
	if c.Thorough() {
		maxL = 5
	}
	c.Bound("unit", fmt.Sprintf("subscriptions/unsubscriptions.applyTo for every call sequence of length<=%d over the 9 subscribe/unsubscribe symbols; the list's view (entries applied in order, last wins) must equal a plain map", maxL))
	var idx int64
	var rec func(cur []c08Sym)
	rec = func(cur []c08Sym) {
		if len(cur) > 0 {
			idx++
			if c.Mine(idx) {
				c.Res.Evaluations++
				var calls [][]mqtt.Subscription
				var unsub [][]string
				var order []bool
				ref := map[string]byte{}
				nontrivial := false
				for _, s := range cur {
					if s.kind == "sub" {
						var l []mqtt.Subscription
						for _, x := range s.subs {
							sb := parseSub(x)
							if _, ok := ref[sb.Topic]; ok {
								nontrivial = true
							}
							ref[sb.Topic] = byte(sb.QoS)
							l = append(l, sb)
						}
						calls = append(calls, l)
						order = append(order, true)
					} else {
						for _, t := range s.subs {
							delete(ref, t)
						}
						unsub = append(unsub, s.subs)
						order = append(order, false)
					}
				}
				if nontrivial {
					c.Res.Distinct++
				}
				var got []mqtt.Subscription
				pan := ""
				func() {
					defer func() {
						if r := recover(); r != nil {
							pan = fmt.Sprint(r)
						}
					}()
					got = mqtt.VerifApplySubs(calls, unsub, order)
				}()
				view := map[string]byte{}
				for _, s := range got {
					view[s.Topic] = byte(s.QoS)
				}
				if pan != "" {
					c.EnumFail("unit", "applyTo-panic", fmt.Sprintf("calls %v: panic %s", cur, pan), fmt.Sprint(cur))
				} else if c08Table(view) != c08Table(ref) {
					key := "applyTo-view-differs"
					c.EnumFail("unit", key, fmt.Sprintf("calls %v: bookkeeping holds %v (view [%s]), reference [%s]", cur, got, c08Table(view), c08Table(ref)), fmt.Sprint(cur))
				}
			}
		}
		if len(cur) == maxL {
			return
		}
		for _, s := range alpha {
			rec(append(cur, s))
		}
	}
	rec(nil)
}
