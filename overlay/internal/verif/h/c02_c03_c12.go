//go:build verif

package main

import (
	"fmt"
	"strings"
	"time"

	"github.com/at-wat/mqtt-go/internal/verif/env"
	"github.com/at-wat/mqtt-go/internal/verif/vrt"
)

// C02 (QoS 2 exactly once), C03 (wire order = submission order), C12 (faithful retransmissions):
// three oracles over the traces of the shared retry/reconnect harness (rc.go).

// rcSessionModes: how the broker / client treat the session across reconnects.  "lost" and
// "always-resubscribe" make the reconnect loop run Resubscribe before Retry.
var rcSessionModes = []struct {
	name         string
	keep, always bool
}{{"kept", true, false}, {"lost", false, false}, {"always-resubscribe", true, true}}

func init() {
	register("C02", runC02)
	register("C03", runC03)
	register("C12", runC12)
}

func (r *rcRun) reqIndexByTag(tag string) int {
	for i, q := range r.cfg.Reqs {
		if q.Tag == tag {
			return i
		}
	}
	return -1
}

// ---------------------------------------------------------------- C02

func c02Oracle(r *rcRun) {
	if !r.connectOK {
		return
	}
	// onward deliveries per accepted QoS 2 message
	for i, q := range r.cfg.Reqs {
		if q.Kind != "p2" || !r.submitted[i] || !r.accepted[i] {
			continue
		}
		n := 0
		for _, d := range r.broker.Deliveries {
			if d.Tag == q.Tag {
				n++
			}
		}
		if n > 1 {
			vrt.Failf("c02/delivered-twice:faults="+r.faultKinds(), "QoS 2 message %q was delivered onward %d times\n%s", q.Tag, n, r.summary())
		}
		if n == 0 {
			vrt.Failf("c02/never-delivered:faults="+r.faultKinds(), "QoS 2 message %q was never delivered onward\n%s", q.Tag, r.summary())
		}
	}
	// after PUBCOMP reached the client on an open link nothing more is transmitted for the message
	type st struct {
		id       uint16
		complete bool
	}
	msgs := map[string]*st{}
	byID := map[uint16]string{}
	for _, e := range r.net.Trace {
		if e.Pkt == nil || e.Dir == '>' && !e.Sent() {
			continue
		}
		switch {
		case e.Dir == '>' && e.Pkt.Type == env.PUBLISH && e.Pkt.QoS == 2:
			tag := string(e.Pkt.Payload)
			m := msgs[tag]
			if m == nil {
				m = &st{id: e.Pkt.ID}
				msgs[tag] = m
			}
			byID[e.Pkt.ID] = tag
			if m.complete {
				vrt.Failf("c02/publish-after-pubcomp:faults="+r.faultKinds(), "PUBLISH for %q transmitted again after its PUBCOMP had been received\n%s", tag, r.summary())
			}
		case e.Dir == '>' && e.Pkt.Type == env.PUBREL:
			if tag, ok := byID[e.Pkt.ID]; ok && msgs[tag].complete {
				vrt.Failf("c02/pubrel-after-pubcomp:faults="+r.faultKinds(), "PUBREL(id=%d) for %q transmitted again after its PUBCOMP had been received\n%s", e.Pkt.ID, tag, r.summary())
			}
		case e.Dir == '<' && e.Pkt.Type == env.PUBCOMP:
			if tag, ok := byID[e.Pkt.ID]; ok {
				msgs[tag].complete = true
			}
		}
	}
}

func runC02(c *Ctx) {
	type fam struct {
		name   string
		wl     [][]rcReq
		bound  vrt.Budget
		faults env.FaultSet
	}
	cut := env.FaultSet{LostClose: true, AckLost: true}
	cutw := env.FaultSet{LostClose: true, AckLost: true, WriteErr: true, ConnRefuse: true}
	one := [][]rcReq{{{Kind: "p2", Tag: "m1", Phase: 'S'}}, {{Kind: "p2", Tag: "m1", Phase: 'B'}},
		{{Kind: "sub", Subs: []string{"a:1"}, Phase: 'S'}, {Kind: "p2", Tag: "m1", Phase: 'S'}}}
	mixed := c02Workloads(2)
	fams := []fam{
		{"one.F3", one, vrt.Budget{F: 3}, cutw},
		{"N2.F2", mixed, vrt.Budget{F: 2}, cut},
		{"one.F2.P1", one[:1], vrt.Budget{F: 2, P: 1, Total: 3}, cut},
		{"one.F2.S1", one, vrt.Budget{F: 2, S: 1, Total: 3}, cut},
		{"manual.one.F2", one, vrt.Budget{F: 2}, cutw},
		{"eofwrite.one.F2", one, vrt.Budget{F: 2}, env.FaultSet{WriteErr: true, AckLost: true}},
		{"slow-onerror.one.F2", one, vrt.Budget{F: 2}, cut},
		{"timeout.one.F2", one, vrt.Budget{F: 2}, env.FaultSet{Silent: true, SilentDrop: true, LostClose: true, OnlyTypes: map[byte]bool{env.PUBLISH: true, env.PUBREL: true}}},
	}
	if c.Thorough() { // after the quick families
		fams = append(fams, []fam{
			{"N2.F2.S1", mixed, vrt.Budget{F: 2, S: 1, Total: 3}, cut},
			{"one.F4", one, vrt.Budget{F: 4}, cutw},
			{"N2.F3", mixed, vrt.Budget{F: 3}, cut},
			{"N3.F2", c02Workloads(3), vrt.Budget{F: 2}, cut},
			{"one.F2.P2", one, vrt.Budget{F: 2, P: 2, Total: 4}, cut},
			{"manual.one.F4", one, vrt.Budget{F: 4}, cutw},
			{"timeout.one.F3", one, vrt.Budget{F: 3}, env.FaultSet{Silent: true, SilentDrop: true, LostClose: true, AckLost: true, OnlyTypes: map[byte]bool{env.PUBLISH: true, env.PUBREL: true}}},
			{"timeout.N2.F2", mixed, vrt.Budget{F: 2}, env.FaultSet{Silent: true, SilentDrop: true, LostClose: true, OnlyTypes: map[byte]bool{env.PUBLISH: true, env.PUBREL: true}}},
			{"manual.N2.F3", mixed, vrt.Budget{F: 3}, cut},
		}...)
	}
	var sample *rcRun
	for _, f := range fams {
		c.Bound(f.name, fmt.Sprintf("%d workloads containing >=1 QoS 2 publish; faults %+v at every client->broker packet (PUBLISH, PUBREL, CONNECT ...); budget %s; receiver method A and B; session kept", len(f.wl), f.faults, f.bound))
		for _, reqs := range f.wl {
			for _, mb := range []bool{false, true} {
				for _, always := range []bool{false, true} {
					if always && !(len(reqs) <= 2 && (len(reqs) == 1 || reqs[0].Kind == "sub")) {
						continue // AlwaysResubscribe: single message, and subscription + message
					}
					reqs, mb, f, always := reqs, mb, f, always
					var run *rcRun
					sc := &vrt.Scenario{
						Name:  fmt.Sprintf("C02/%s/methodB=%v/alwaysResubscribe=%v/%s", f.name, mb, always, rcName(reqs)),
						Bound: f.bound,
						Cfg:   vrt.Config{Horizon: int64(600 * time.Second)},
						Body: func() {
							rcExecuteInto(&rcCfg{Reqs: reqs, Faults: f.faults, KeepSession: true, MethodB: mb, AlwaysResub: always, Manual: strings.HasPrefix(f.name, "manual."), RespTimeout: c02RespTimeout(f.name), EOFWriteErrors: strings.HasPrefix(f.name, "eofwrite."), SlowOnError: c02SlowOnError(f.name)}, &run)
							c02Oracle(run)
						},
						Observe: func() uint64 { return run.net.TraceHash() },
					}
					c.Explore(sc)
					if run != nil && len(run.broker.FaultLog) > 1 {
						sample = run
					}
				}
			}
		}
	}
	if sample != nil {
		c.Sample(map[string]any{"workload": rcName(sample.cfg.Reqs), "faults": sample.broker.FaultLog, "wire": sample.net.TraceStrings(), "deliveries": fmt.Sprint(sample.broker.Deliveries)})
	}
}

// c02SlowOnError: families named "slow-onerror.*" run with an OnError callback that takes 2.5 s, longer
// than the redial and the handshake of the next connection.
func c02SlowOnError(fam string) time.Duration {
	if strings.HasPrefix(fam, "slow-onerror.") {
		return 2500 * time.Millisecond
	}
	return 0
}

// c02RespTimeout: families named "timeout.*" run with RetryClient.ResponseTimeout set (a silent link
// is then given up after 2 s and the message retransmitted on a new connection).
func c02RespTimeout(fam string) time.Duration {
	if strings.HasPrefix(fam, "timeout.") {
		return 2 * time.Second
	}
	return 0
}

// c02Workloads: sequences of length <= n over {p1,p2,sub} x {S,N} containing at least one p2.
func c02Workloads(n int) [][]rcReq {
	var out [][]rcReq
	for _, w := range rcWorkloads(n, []string{"p1", "p2", "sub"}, []byte{'S', 'N'}) {
		has := false
		for _, q := range w {
			if q.Kind == "p2" {
				has = true
			}
		}
		if has {
			out = append(out, w)
		}
	}
	return out
}

// ---------------------------------------------------------------- C03

func c03Oracle(r *rcRun) {
	if !r.connectOK {
		return
	}
	// (a) per connection the PUBLISH packets, mapped to submission index, are non-decreasing
	last := map[int]int{}
	// (b) first transmissions of application requests are in submission order
	firstSeen := map[int]bool{}
	lastFirst := -1
	for _, e := range r.net.Trace {
		if !e.Sent() || e.Pkt == nil {
			continue
		}
		idx := -1
		switch e.Pkt.Type {
		case env.PUBLISH:
			idx = r.reqIndexByTag(string(e.Pkt.Payload))
			if idx >= 0 {
				if l, ok := last[e.Conn]; ok && idx < l {
					vrt.Failf("c03/conn-order:faults="+r.faultKinds(), "on connection %d PUBLISH of request #%d follows PUBLISH of request #%d\n%s", e.Conn, idx, l, r.summary())
				}
				last[e.Conn] = idx
			}
		case env.SUBSCRIBE, env.UNSUBSCRIBE:
			for i, q := range r.cfg.Reqs {
				if (q.Kind == "sub" && e.Pkt.Type == env.SUBSCRIBE || q.Kind == "unsub" && e.Pkt.Type == env.UNSUBSCRIBE) && rcCovers(e.Pkt, q) {
					idx = i
					break
				}
			}
		}
		if idx >= 0 && !firstSeen[idx] {
			firstSeen[idx] = true
			if idx < lastFirst {
				vrt.Failf("c03/first-transmission-order:faults="+r.faultKinds(), "request #%d (%s) is transmitted for the first time after request #%d\n%s", idx, r.cfg.Reqs[idx], lastFirst, r.summary())
			}
			if idx > lastFirst {
				lastFirst = idx
			}
		}
	}
	// (c) when connections fail only by closing, the broker first-delivers QoS>=1 messages in submission order
	closeOnly := true
	for _, f := range r.broker.FaultLog {
		if !strings.Contains(f, "close") {
			closeOnly = false
		}
	}
	if closeOnly {
		seen := map[string]bool{}
		lastIdx := -1
		for _, d := range r.broker.Deliveries {
			if d.QoS == 0 || seen[d.Tag] {
				continue
			}
			seen[d.Tag] = true
			idx := r.reqIndexByTag(d.Tag)
			if idx < lastIdx {
				vrt.Failf("c03/delivery-order:faults="+r.faultKinds(), "broker first-delivers %q (request #%d) after request #%d\n%s", d.Tag, idx, lastIdx, r.summary())
			}
			if idx > lastIdx {
				lastIdx = idx
			}
		}
	}
}

func runC03(c *Ctx) {
	type fam struct {
		name   string
		n      int
		kinds  []string
		phases []byte
		bound  vrt.Budget
		faults env.FaultSet
	}
	cut := env.FaultSet{LostClose: true, AckLost: true, WriteErr: true, ConnRefuse: true, DialErr: true}
	cl := env.FaultSet{LostClose: true, AckLost: true}
	fams := []fam{
		{"N2.F2", 2, []string{"p1", "p2"}, []byte{'N', 'H'}, vrt.Budget{F: 2}, cl},
		{"N2.F1.all", 2, []string{"p0", "p1", "p2", "sub"}, []byte{'B', 'N', 'H'}, vrt.Budget{F: 1}, cut},
		{"N3.F1", 3, []string{"p1", "p2", "sub"}, []byte{'B', 'N'}, vrt.Budget{F: 1}, cl},
		{"N3.F2.pub", 3, []string{"p1"}, []byte{'N'}, vrt.Budget{F: 2}, cl},
		{"manual.N2.F1", 2, []string{"p1", "p2", "sub"}, []byte{'B', 'N'}, vrt.Budget{F: 1}, cut},
		{"slow-onerror.N2.F1", 2, []string{"p1", "p2", "sub"}, []byte{'S', 'N', 'O'}, vrt.Budget{F: 1}, cut},
		{"N2.F1.S1", 2, []string{"p1", "p2"}, []byte{'N', 'O', 'H'}, vrt.Budget{F: 1, S: 1, Total: 2}, cl},
	}
	quickN := len(fams) // the thorough tier runs the quick families first, unchanged, then the deeper ones
	if c.Thorough() {
		fams = append(fams, []fam{
			{"N2.F2.S1", 2, []string{"p1", "p2", "sub"}, []byte{'N', 'O', 'H'}, vrt.Budget{F: 2, S: 1, Total: 3}, cl},
			{"N2.F2.all", 2, []string{"p0", "p1", "p2", "sub", "unsub"}, []byte{'B', 'S', 'N', 'O', 'H'}, vrt.Budget{F: 2}, cut},
			{"N3.F2", 3, []string{"p0", "p1", "p2", "sub"}, []byte{'B', 'N', 'H'}, vrt.Budget{F: 2}, cl},
			{"N3.F3.pub", 3, []string{"p1", "p2"}, []byte{'N'}, vrt.Budget{F: 3}, cl},
			{"N2.F1.P2", 2, []string{"p1", "p2", "sub"}, []byte{'B', 'N'}, vrt.Budget{F: 1, P: 2, S: 1, Total: 3}, cl},
			{"manual.N2.F2", 2, []string{"p0", "p1", "p2", "sub"}, []byte{'B', 'S', 'N', 'O'}, vrt.Budget{F: 2}, cut},
			{"manual.N3.F1", 3, []string{"p1", "p2", "sub"}, []byte{'B', 'N'}, vrt.Budget{F: 1}, cl},
		}...)
	}
	var sample *rcRun
	for fi, f := range fams {
		deep := fi >= quickN
		wls := rcWorkloads(f.n, f.kinds, f.phases)
		c.Bound(f.name, fmt.Sprintf("%d workloads (length<=%d over %v x phases %q, one submitting task); faults %+v; budget %s", len(wls), f.n, f.kinds, string(f.phases), f.faults, f.bound))
		for _, reqs := range wls {
			if len(reqs) < 2 || !deep && !rcLateOnlyLast(reqs) {
				continue
			}
			for _, sess := range rcSessionModes {
				if sess.name != "kept" && !(f.name == "N2.F2" || f.name == "N2.F2.all" || f.name == "manual.N2.F2") {
					continue
				}
				reqs, f, sess := reqs, f, sess
				var run *rcRun
				sc := &vrt.Scenario{
					Name:  fmt.Sprintf("C03/%s/session=%s/%s", f.name, sess.name, rcName(reqs)),
					Bound: f.bound,
					Cfg:   vrt.Config{Horizon: int64(600 * time.Second)},
					Body: func() {
						rcExecuteInto(&rcCfg{Reqs: reqs, Faults: f.faults, KeepSession: sess.keep, AlwaysResub: sess.always, Manual: strings.HasPrefix(f.name, "manual."), SlowOnError: c02SlowOnError(f.name)}, &run)
						c03Oracle(run)
					},
					Observe: func() uint64 { return run.net.TraceHash() },
				}
				c.Explore(sc)
				if run != nil && len(run.broker.FaultLog) > 1 {
					sample = run
				}
			}
		}
	}
	if sample != nil {
		c.Sample(map[string]any{"workload": rcName(sample.cfg.Reqs), "faults": sample.broker.FaultLog, "wire": sample.net.TraceStrings()})
	}
}

// ---------------------------------------------------------------- C12

// c12Oracle judges every transmission attempt of every message (failed writes included).
func c12Oracle(net *env.Net, key func(string) string, summary func() string) {
	type first struct {
		p       *env.Packet
		relSent bool
	}
	msgs := map[string]*first{}
	byID := map[uint16]string{}
	for _, e := range net.Trace {
		if e.Dir != '>' || e.Pkt == nil {
			continue
		}
		p := e.Pkt
		switch p.Type {
		case env.PUBLISH:
			tag := string(p.Payload)
			m := msgs[tag]
			if m == nil {
				msgs[tag] = &first{p: p}
				if p.QoS > 0 {
					byID[p.ID] = tag
				}
				if p.Dup {
					vrt.Failf(key("c12/first-with-dup"), "first transmission of %q has DUP=1: %s\n%s", tag, p, summary())
				}
				continue
			}
			if p.QoS == 0 || m.p.QoS == 0 {
				vrt.Failf(key("c12/qos0-retransmitted"), "QoS 0 message %q transmitted again\n%s", tag, summary())
				continue
			}
			if !p.Dup {
				vrt.Failf(key("c12/retransmission-without-dup"), "retransmission of %q has DUP=0: %s\n%s", tag, p, summary())
			}
			if p.ID != m.p.ID || p.Topic != m.p.Topic || p.QoS != m.p.QoS || p.Retain != m.p.Retain {
				vrt.Failf(key("c12/retransmission-differs"), "retransmission of %q differs from the first transmission: %s vs %s\n%s", tag, p, m.p, summary())
			}
			if m.relSent {
				vrt.Failf(key("c12/publish-after-pubrel"), "PUBLISH for %q transmitted after its PUBREL had been sent\n%s", tag, summary())
			}
		case env.PUBREL:
			if tag, ok := byID[p.ID]; ok && e.Sent() && !strings.Contains(e.Note, "write error") {
				// the PUBREL was written successfully (it may still have been lost on the way)
				msgs[tag].relSent = true
			}
		}
	}
}

func runC12(c *Ctx) {
	type fam struct {
		name   string
		wl     [][]rcReq
		bound  vrt.Budget
		faults env.FaultSet
	}
	cut := env.FaultSet{LostClose: true, AckLost: true, WriteErr: true}
	one := [][]rcReq{{{Kind: "p1", Tag: "m1", Phase: 'S'}}, {{Kind: "p2", Tag: "m1", Phase: 'S'}}, {{Kind: "p1", Tag: "m1", Phase: 'B'}}, {{Kind: "p2", Tag: "m1", Phase: 'B'}}, {{Kind: "p0", Tag: "m1", Phase: 'S'}}}
	for _, k := range []string{"p0", "p1", "p2"} {
		// the caller's Message arrives with Dup already set (forwarded from a handler / reused struct)
		one = append(one, []rcReq{{Kind: k, Tag: "m1", Phase: 'S', Dup: true}})
	}
	// a subscription is established first, so that resubscription has something to do
	for _, k := range []string{"p1", "p2"} {
		one = append(one, []rcReq{{Kind: "sub", Subs: []string{"a:1"}, Phase: 'S'}, {Kind: k, Tag: "m1", Phase: 'S'}})
	}
	two := rcWorkloads(2, []string{"p0", "p1", "p2"}, []byte{'S', 'N'})
	fams := []fam{
		{"one.F3", one, vrt.Budget{F: 3}, cut},
		{"N2.F2", two, vrt.Budget{F: 2}, cut},
		{"manual.one.F2", one, vrt.Budget{F: 2}, cut},
		{"repeat-pubrec.one.F2", one, vrt.Budget{F: 2}, cut},
		{"slow-onerror.one.F2", one, vrt.Budget{F: 2}, cut},
		{"one.F2.S1", one, vrt.Budget{F: 2, S: 1, Total: 3}, cut},
	}
	if c.Thorough() { // after the quick families
		fams = append(fams, []fam{
			{"N2.F2.S1", two, vrt.Budget{F: 2, S: 1, Total: 3}, cut},
			{"repeat-pubrec.N2.F2", two, vrt.Budget{F: 2}, cut},
			{"manual.one.F3", one, vrt.Budget{F: 3}, cut},
			{"manual.N2.F2", two, vrt.Budget{F: 2}, cut},
			{"one.F4", one, vrt.Budget{F: 4}, cut},
			{"N2.F3", two, vrt.Budget{F: 3}, cut},
			{"N3.F2", rcWorkloads(3, []string{"p0", "p1", "p2"}, []byte{'S', 'N'}), vrt.Budget{F: 2}, cut},
		}...)
	}
	var sample *rcRun
	for _, f := range fams {
		c.Bound(f.name, fmt.Sprintf("%d publish workloads; faults %+v at every step of the QoS 1 / QoS 2 exchange; budget %s", len(f.wl), f.faults, f.bound))
		for _, reqs := range f.wl {
			for _, sess := range rcSessionModes {
				if sess.name != "kept" && len(reqs) > 1 && reqs[0].Kind != "sub" {
					continue // session loss / forced resubscription: single-message workloads and the sub+pub ones below
				}
				reqs, f, sess := reqs, f, sess
				var run *rcRun
				sc := &vrt.Scenario{
					Name:  fmt.Sprintf("C12/%s/session=%s/%s", f.name, sess.name, rcName(reqs)),
					Bound: f.bound,
					Cfg:   vrt.Config{Horizon: int64(600 * time.Second)},
					Body: func() {
						rcExecuteInto(&rcCfg{Reqs: reqs, Faults: f.faults, KeepSession: sess.keep, AlwaysResub: sess.always, Manual: strings.HasPrefix(f.name, "manual."), RepeatPubRec: strings.HasPrefix(f.name, "repeat-pubrec."), SlowOnError: c02SlowOnError(f.name)}, &run)
						if run.connectOK {
							c12Oracle(run.net, func(k string) string { return k + ":faults=" + run.faultKinds() }, run.summary)
						}
					},
					Observe: func() uint64 { return run.net.TraceHash() },
				}
				c.Explore(sc)
				if run != nil && len(run.broker.FaultLog) > 1 {
					sample = run
				}
			}
		}
	}
	c12RetryChains(c)
	if sample != nil {
		c.Sample(map[string]any{"workload": rcName(sample.cfg.Reqs), "faults": sample.broker.FaultLog, "wire": sample.net.TraceStrings()})
	}
}
