//go:build verif

package main

import (
	"fmt"
	"strings"
	"time"

	mqtt "github.com/at-wat/mqtt-go"
	"github.com/at-wat/mqtt-go/internal/verif/env"
	vctx "github.com/at-wat/mqtt-go/internal/verif/shim/context"
	"github.com/at-wat/mqtt-go/internal/verif/vrt"
)

// c06InFlight — part (d): broker bytes arriving while a request is in flight.  The reader is not
// the only code that consumes what the broker sends: the waiting caller post-processes the
// acknowledgement (e.g. SUBACK return codes are copied back).  Every request kind is answered
// with every acknowledgement of a small odd-but-possible menu; the oracle is "no panic in any
// goroutine" (plus: a wrong-length SUBACK must not be reported as success).
func c06InFlight(c *Ctx) {
	reqs := []string{"p1", "p2", "sub1", "sub2", "unsub", "ping"}
	c.Bound("d_inflight", "request kinds "+fmt.Sprint(reqs)+" x acknowledgement menu: SUBACK with 0..n+2 return codes over {0,1,2,0x80,3,0xff}, acknowledgements of every other kind with the request's identifier, with remaining length 2..4 (trailing bytes); default schedule")
	type ack struct {
		name string
		mk   func(id uint16) []byte
	}
	var menu []ack
	for n := 0; n <= 4; n++ {
		for _, v := range []byte{0, 1, 2, 0x80, 3, 0xff} {
			n, v := n, v
			if n == 0 && v != 0 {
				continue
			}
			menu = append(menu, ack{fmt.Sprintf("SUBACK/%dcodes/%#x", n, v), func(id uint16) []byte {
				codes := make([]byte, n)
				for i := range codes {
					codes[i] = v
				}
				return env.EncSubAck(id, codes)
			}})
		}
	}
	for _, t := range []byte{env.PUBACK, env.PUBREC, env.PUBCOMP, env.UNSUBACK} {
		t := t
		for extra := 0; extra <= 2; extra++ {
			extra := extra
			menu = append(menu, ack{fmt.Sprintf("%s/+%dbytes", env.TypeName(t), extra), func(id uint16) []byte {
				b := []byte{t << 4, byte(2 + extra), byte(id >> 8), byte(id)}
				for i := 0; i < extra; i++ {
					b = append(b, 0xAA)
				}
				return b
			}})
		}
	}
	menu = append(menu, ack{"PINGRESP", func(uint16) []byte { return env.EncPingResp() }}, ack{"CONNACK/again", func(uint16) []byte { return env.EncConnAck(true, 0) }})
	n := int64(0)
	for _, rq := range reqs {
		for _, a := range menu {
			rq, a := rq, a
			var net *env.Net
			sc := &vrt.Scenario{
				Name: fmt.Sprintf("C06/inflight/%s/%s", rq, a.name),
				Cfg:  vrt.Config{Horizon: int64(30 * time.Second)},
				Body: func() {
					net = env.NewNet()
					s := env.NewScript(net)
					s.AutoConnAck = true
					cli := &mqtt.BaseClient{Transport: s.Conn}
					if _, err := cli.Connect(vctx.Background(), "c06"); err != nil {
						vrt.Failf("harness", "connect: %v", err)
						return
					}
					answered := false
					s.OnPacket = func(_ *env.Script, p *env.Packet) {
						if answered || p.Type == env.CONNECT {
							return
						}
						answered = true
						raw := a.mk(p.ID)
						net.Trace = append(net.Trace, env.WireEvent{Conn: s.Conn.ID, Dir: '<', Raw: raw, Note: a.name})
						s.Conn.Inject(raw)
					}
					ctx, cancel := vctx.WithTimeout(vctx.Background(), 5*time.Second)
					defer cancel()
					var err error
					var subs []mqtt.Subscription
					want := 0
					switch rq {
					case "p1":
						err = cli.Publish(ctx, &mqtt.Message{Topic: "t", QoS: mqtt.QoS1, Payload: []byte("x")})
					case "p2":
						err = cli.Publish(ctx, &mqtt.Message{Topic: "t", QoS: mqtt.QoS2, Payload: []byte("x")})
					case "sub1":
						want = 1
						subs, err = cli.Subscribe(ctx, mqtt.Subscription{Topic: "a", QoS: mqtt.QoS1})
					case "sub2":
						want = 2
						subs, err = cli.Subscribe(ctx, mqtt.Subscription{Topic: "a", QoS: mqtt.QoS1}, mqtt.Subscription{Topic: "b", QoS: mqtt.QoS2})
					case "unsub":
						err = cli.Unsubscribe(ctx, "a")
					case "ping":
						err = cli.Ping(ctx)
					}
					if want > 0 && strings.HasPrefix(a.name, "SUBACK/") && err == nil && len(subs) != want {
						vrt.Failf("c06:inflight:suback-wrong-length-accepted", "Subscribe of %d filters answered by %s returned %v, nil", want, a.name, subs)
					}
					vrt.Quiesce()
				},
				Observe: func() uint64 { return net.TraceHash() },
			}
			c.Explore(sc)
			n++
		}
	}
	c06Add(c, "d_inflight_scenarios", n/int64(maxI(c.NShards, 1)))
}

func maxI(a, b int) int {
	if a > b {
		return a
	}
	return b
}
