//go:build verif

package main

import (
	"fmt"
	"sort"
	"strings"
	"unsafe"

	mqtt "github.com/at-wat/mqtt-go"
	"github.com/at-wat/mqtt-go/internal/verif/env"
	vctx "github.com/at-wat/mqtt-go/internal/verif/shim/context"
	"github.com/at-wat/mqtt-go/internal/verif/vrt"
)

// C04 — inbound QoS 0/1/2 flows.  Every sequence (length <= L) over a 12-symbol alphabet of
// broker->client packets is sent by a scripted peer to a real connected BaseClient; the single
// timeline of handler calls and packets written by the client is compared with a reference
// receiver written from MQTT 3.1.1 section 4.3 (method A for QoS 2, as the statement says).

func init() { register("C04", runC04) }

type c04Sym struct {
	kind byte // 'P' publish, 'R' pubrel
	qos  byte
	id   uint16
	dup  bool
	nopl bool // empty payload (the message is identified by its topic)
}

func (s c04Sym) String() string {
	if s.kind == 'R' {
		return fmt.Sprintf("PUBREL(%d)", s.id)
	}
	d := ""
	if s.dup {
		d = ",dup"
	}
	if s.nopl {
		d += ",empty"
	}
	if s.qos == 0 {
		return "PUB(q0" + d + ")"
	}
	return fmt.Sprintf("PUB(q%d,id%d%s)", s.qos, s.id, d)
}

func c04Alphabet() []c04Sym {
	a := []c04Sym{{kind: 'P', qos: 0}}
	for _, q := range []byte{1, 2} {
		for _, id := range []uint16{1, 2} {
			for _, d := range []bool{false, true} {
				a = append(a, c04Sym{kind: 'P', qos: q, id: id, dup: d})
			}
		}
	}
	for _, id := range []uint16{1, 2, 3} {
		a = append(a, c04Sym{kind: 'R', id: id})
	}
	// zero-length payloads: the topic string then ends exactly at the end of the packet body (QoS 0)
	a = append(a, c04Sym{kind: 'P', qos: 0, nopl: true}, c04Sym{kind: 'P', qos: 1, id: 1, nopl: true})
	return a
}

type c04Group struct {
	must []string
	opt  []string
}

// c04Ref is the reference receiver.
type c04Ref struct {
	stored map[uint16]string
	gen    map[uint16]int
	n      int
}

// step returns the payload tag to use for the symbol and the expected reaction.
func (r *c04Ref) step(s c04Sym, handler bool) (tag string, g c04Group) {
	r.n++
	switch {
	case s.kind == 'P' && s.qos == 0:
		tag = fmt.Sprintf("m%d", r.n)
		if handler {
			g.must = []string{"H+" + tag, "H-" + tag}
		}
	case s.kind == 'P' && s.qos == 1:
		tag = fmt.Sprintf("m%d", r.n)
		if handler {
			g.must = []string{"H+" + tag, "H-" + tag}
		}
		g.must = append(g.must, fmt.Sprintf("W:PUBACK(id=%d)", s.id))
	case s.kind == 'P' && s.qos == 2:
		// PUBLISH packets with one identifier between two releases are retransmissions of one message
		tag = fmt.Sprintf("x%d.%d", s.id, r.gen[s.id])
		if _, ok := r.stored[s.id]; !ok {
			r.stored[s.id] = tag
		}
		g.must = []string{fmt.Sprintf("W:PUBREC(id=%d)", s.id)}
	case s.kind == 'R':
		if t, ok := r.stored[s.id]; ok {
			delete(r.stored, s.id)
			r.gen[s.id]++
			if handler {
				g.must = []string{"H+" + t, "H-" + t}
			}
			g.must = append(g.must, fmt.Sprintf("W:PUBCOMP(id=%d)", s.id))
		} else {
			// the statement is silent about a PUBREL for an unknown identifier
			g.opt = []string{fmt.Sprintf("W:PUBCOMP(id=%d)", s.id)}
		}
	}
	return
}

// c04Match checks that actual is a concatenation matching the groups: within a group the
// handler events keep their order (H+ before H-), a QoS 1 PUBACK comes after H-, everything
// else may come in any order.
func c04Match(groups []c04Group, actual []string) string {
	pos := 0
	for gi, g := range groups {
		need := map[string]int{}
		for _, m := range g.must {
			need[m]++
		}
		opt := map[string]int{}
		for _, o := range g.opt {
			opt[o]++
		}
		start := pos
		for n := len(g.must); n > 0; {
			if pos >= len(actual) {
				return fmt.Sprintf("step %d: missing %v (timeline ended)", gi, c04Keys(need))
			}
			a := actual[pos]
			if need[a] > 0 {
				need[a]--
				n--
				pos++
				continue
			}
			if opt[a] > 0 {
				opt[a]--
				pos++
				continue
			}
			return fmt.Sprintf("step %d: unexpected %q while expecting %v", gi, a, c04Keys(need))
		}
		for pos < len(actual) && opt[actual[pos]] > 0 {
			opt[actual[pos]]--
			pos++
		}
		// order constraints inside the group
		seg := actual[start:pos]
		idx := func(s string) int {
			for i, x := range seg {
				if x == s {
					return i
				}
			}
			return -1
		}
		for _, m := range g.must {
			if strings.HasPrefix(m, "H+") {
				tag := m[2:]
				if idx("H+"+tag) > idx("H-"+tag) {
					return fmt.Sprintf("step %d: handler exit before entry for %s", gi, tag)
				}
				for _, w := range g.must {
					if strings.HasPrefix(w, "W:PUBACK") && idx(w) < idx("H-"+tag) {
						return fmt.Sprintf("step %d: %s written before the handler returned for %s", gi, w, tag)
					}
				}
			}
		}
	}
	if pos != len(actual) {
		return fmt.Sprintf("unexpected trailing events %v", actual[pos:])
	}
	return ""
}

func c04Keys(m map[string]int) []string {
	var ks []string
	for k, v := range m {
		if v > 0 {
			ks = append(ks, k)
		}
	}
	sort.Strings(ks)
	return ks
}

type c04Mode struct {
	name      string
	handler   int  // -1 never, 0 from the start, j>0: installed before the j-th symbol (1-based)
	burst     bool // all packets injected at once
	short     bool // the transport hands the client one byte per Read
	behind    bool // the burst arrives right behind the CONNACK, before Connect has returned
	replaceAt int
	wfail     bool // one of the client's answers cannot be written: the link breaks at that Write (fault budget 1)
}

func runC04(c *Ctx) {
	alpha := c04Alphabet()
	maxL := 4
	pb := 0
	if c.Thorough() {
		maxL = 6
	}
	c.Bound("alphabet", fmt.Sprint(alpha))
	c.Bound("max_sequence_length", maxL)
	c.Bound("modes", "handler from start | no handler | handler installed before symbol 2 | burst (all packets in one segment, handler from start) | the same with one byte per Read | the same with the burst arriving right behind the CONNACK (session messages of a reconnect) | handler from start and the link breaking at the Write of one of the client's answers (the sequence ends there; what the arrival of the packet demands besides that answer is still required); plus all sequences of length<=2 with preemption bound 1 and a handler that yields")
	modes := []c04Mode{{name: "h", handler: 0}, {name: "noh", handler: -1}, {name: "mid", handler: 2}, {name: "burst", handler: 0, burst: true}, {name: "burst-short-reads", handler: 0, burst: true, short: true}, {name: "burst-behind-connack", handler: 0, burst: true, behind: true}, {name: "answer-write-fails", handler: 0, wfail: true}}
	var lastTL []string
	var lastSeq string
	for _, m := range modes {
		for L := 1; L <= maxL; L++ {
			if m.name == "mid" && L < 2 {
				continue
			}
			// shard on the first two symbols; the remaining ones are free choices of the scenario
			fixed := 2
			if L < 2 {
				fixed = L
			}
			nfix := 1
			for i := 0; i < fixed; i++ {
				nfix *= len(alpha)
			}
			for f := 0; f < nfix; f++ {
				m, L, f := m, L, f
				p := pb
				if L <= 2 && m.name == "h" {
					p = 1
				}
				var tl []string
				var seqStr string
				var net *env.Net
				fbound := 0
				if m.wfail {
					fbound = 1
				}
				sc := &vrt.Scenario{
					Name:  fmt.Sprintf("C04/%s/L%d/f%d", m.name, L, f),
					Bound: vrt.Budget{P: p, F: fbound},
					Body: func() {
						tl = nil
						failed := false
						net = env.NewNet()
						s := env.NewScript(net)
						s.AutoConnAck = !m.behind
						if m.short {
							s.Conn.ReadMax = 1
						}
						if m.wfail {
							s.TransientFail = func(p *env.Packet) bool {
								if p.Type == env.CONNECT || failed || vrt.Choose(vrt.KFault, 2, "this answer cannot be written") == 0 {
									return false
								}
								failed = true
								tl = append(tl, "W:"+p.String()) // attempted; it is the hand-over that is judged
								vrt.Event(unsafe.Pointer(&tl), vrt.HashString("failed "+p.String()))
								s.Conn.Break("link broke at this write")
								return true
							}
						}
						var behindBurst []byte
						s.OnPacket = func(_ *env.Script, p *env.Packet) {
							if p.Type == env.CONNECT && m.behind {
								// CONNACK and the whole burst become readable together, before Connect returns
								s.Conn.Send(env.EncConnAck(true, 0), "")
								net.Trace = append(net.Trace, env.WireEvent{Conn: s.Conn.ID, Dir: '<', Raw: behindBurst, Note: "burst right behind CONNACK"})
								s.Conn.Inject(behindBurst)
							}
							if p.Type != env.CONNECT {
								tl = append(tl, "W:"+p.String())
								vrt.Event(unsafe.Pointer(&tl), vrt.HashString(p.String()))
							}
						}
						cli := &mqtt.BaseClient{Transport: s.Conn}
						var hSelf mqtt.Handler
						h := mqtt.HandlerFunc(func(msg *mqtt.Message) {
							tag := strings.TrimPrefix(strings.TrimPrefix(msg.Topic, "t/"), "é€/")
							if len(msg.Payload) > 0 && string(msg.Payload) != tag {
								tag += "[payload " + string(msg.Payload) + "]"
							}
							tl = append(tl, "H+"+tag)
							vrt.Event(unsafe.Pointer(&tl), vrt.HashString(tag))
							// a handler may call back into its client (re-register itself, look at the connection)
							cli.Handle(hSelf)
							_, _, _ = cli.Done(), cli.Err(), cli.Stats()
							vrt.Yield("in handler")
							tl = append(tl, "H-"+tag)
							vrt.Event(unsafe.Pointer(&tl), 1)
						})
						hSelf = h
						if m.handler == 0 {
							cli.Handle(h)
						}
						connect := func() bool {
							if _, err := cli.Connect(vctx.Background(), "c04"); err != nil {
								vrt.Failf("connect", "connect failed: %v", err)
								return false
							}
							return true
						}
						if !m.behind && !connect() {
							return
						}
						ref := &c04Ref{stored: map[uint16]string{}, gen: map[uint16]int{}}
						var groups []c04Group
						var seq []string
						hasH := m.handler == 0
						var burst []byte
						ff := f
						for i := 0; i < L; i++ {
							var k int
							if i < fixed {
								// most significant digit first
								div := 1
								for j := i + 1; j < fixed; j++ {
									div *= len(alpha)
								}
								k = (ff / div) % len(alpha)
							} else {
								k = vrt.Choose(vrt.KFree, len(alpha), "symbol")
							}
							sym := alpha[k]
							if m.handler == i+1 {
								cli.Handle(h)
								hasH = true
							}
							tag, g := ref.step(sym, hasH)
							groups = append(groups, g)
							seq = append(seq, sym.String())
							var pkt []byte
							if sym.kind == 'R' {
								pkt = env.EncAck(env.PUBREL, sym.id)
							} else {
								pl := []byte(tag)
								if sym.nopl {
									pl = nil
								}
								prefix := "t/"
								if sym.id == 2 {
									prefix = "é€/" // a multi-byte UTF-8 topic
								}
								pkt = env.EncPublish(prefix+tag, pl, sym.qos, sym.id, sym.dup, false)
							}
							if m.burst {
								burst = append(burst, pkt...)
								continue
							}
							s.Send(pkt)
							vrt.Settle()
							if failed {
								break
							}
						}
						if m.behind {
							behindBurst = burst
							if !connect() {
								return
							}
							vrt.Settle()
						} else if m.burst {
							s.SendRaw(burst, "burst of "+strings.Join(seq, " "))
							vrt.Settle()
							// in a burst the steps' reactions follow each other in order
						}
						seqStr = strings.Join(seq, " ")
						if msg := c04Match(groups, tl); msg != "" {
							vrt.Failf("c04/"+c04Rule(msg), "sequence [%s] mode %s: %s\n timeline: %v", seqStr, m.name, msg, tl)
						}
						if err := cli.Err(); err != nil && !failed {
							vrt.Failf("c04/connection-ended", "sequence [%s]: connection ended: %v", seqStr, err)
						}
						if len(s.Bad) > 0 {
							vrt.Failf("c04/malformed-write", "client wrote malformed data: %v", s.Bad)
						}
					},
					Observe: func() uint64 { return vrt.HashString(strings.Join(tl, ";")) },
				}
				c.Explore(sc)
				if tl != nil {
					lastTL, lastSeq = tl, m.name+": "+seqStr
				}
			}
		}
	}
	if lastTL != nil {
		c.Sample(map[string]any{"sequence": lastSeq, "timeline": lastTL})
	}
}

// c04Rule turns a mismatch message into a stable key (rule without the concrete values).
func c04Rule(msg string) string {
	switch {
	case strings.Contains(msg, "written before the handler returned"):
		return "puback-before-handler-return"
	case strings.Contains(msg, "missing"):
		if strings.Contains(msg, "H+") {
			return "missing-handover"
		}
		return "missing-ack"
	case strings.Contains(msg, "unexpected") && strings.Contains(msg, "\"H"):
		return "unexpected-handover"
	case strings.Contains(msg, "unexpected"):
		return "unexpected-write"
	}
	return "timeline-mismatch"
}
