//go:build verif

package main

import (
	"errors"
	"fmt"
	"strings"
	"time"

	mqtt "github.com/at-wat/mqtt-go"
	"github.com/at-wat/mqtt-go/internal/verif/env"
	vctx "github.com/at-wat/mqtt-go/internal/verif/shim/context"
	"github.com/at-wat/mqtt-go/internal/verif/vrt"
)

// C11 — every blocking call returns when its context is cancelled or the connection ends, at
// whatever step of the exchange; Done() is closed and the reader goroutine exits when the
// connection ends.

func init() { register("C11", runC11) }

type c11Call struct {
	name string // connect p1 p2 sub unsub ping disconnect
	step int    // number of broker answers the exchange receives before the peer goes silent
}

func c11Calls() []c11Call {
	return []c11Call{{"connect", 0}, {"p1", 0}, {"p2", 0}, {"p2", 1}, {"sub", 0}, {"unsub", 0}, {"ping", 0}, {"disconnect", 0}}
}

var c11Causes = []string{"cancel", "deadline", "local-close", "peer-close", "malformed", "disconnect", "cancel-before", "closed-before"}

type c11Caller struct {
	call     c11Call
	returned bool
	err      error
	ctx      vctx.Context
	cancel   func()
}

type c11Cfg struct {
	calls      []c11Call
	cause      string
	concurrent bool   // the cause is applied by a separate task racing with the call instead of after settling
	link       string // "": healthy; "stalled": after CONNACK the peer stops reading, every Write blocks; "write-fails": after CONNACK every Write fails while the read side stays open and silent
	bound      vrt.Budget
}

func c11Body(cfg c11Cfg, outNet **env.Net) func() {
	return func() {
		net := env.NewNet()
		*outNet = net
		s := env.NewScript(net)
		cli := &mqtt.BaseClient{Transport: s.Conn}
		bg := vctx.Background()
		hasConnect := false
		for _, c := range cfg.calls {
			if c.name == "connect" {
				hasConnect = true
			}
		}
		answers := map[string]int{}
		s.OnPacket = func(_ *env.Script, p *env.Packet) {
			left := func(k string, n int) bool {
				if answers[k] < n {
					answers[k]++
					return true
				}
				return false
			}
			stepOf := func(name string) int {
				n := 0
				for _, c := range cfg.calls {
					if c.name == name && c.step > n {
						n = c.step
					}
				}
				return n
			}
			switch p.Type {
			case env.CONNECT:
				if !hasConnect {
					s.Conn.Send(env.EncConnAck(false, 0), "")
				}
			case env.PUBLISH:
				if p.QoS == 2 && left("p2", stepOf("p2")) {
					s.Conn.Send(env.EncAck(env.PUBREC, p.ID), "")
				}
			}
		}
		if !hasConnect {
			if _, err := cli.Connect(bg, "c11"); err != nil {
				vrt.Failf("harness", "connect: %v", err)
				return
			}
		}
		switch cfg.link {
		case "stalled":
			s.Conn.Stalled = true
		case "write-fails":
			s.Conn.FailWrites = true
		}
		doneSeen := false
		if !hasConnect {
			vrt.GoDaemon("done-watch", func() { vrt.Recv(cli.Done()); doneSeen = true })
		}
		before := strings.HasSuffix(cfg.cause, "-before")
		callers := make([]*c11Caller, len(cfg.calls))
		for i, c := range cfg.calls {
			cc := &c11Caller{call: c}
			switch cfg.cause {
			case "deadline":
				cc.ctx, cc.cancel = vctx.WithTimeout(bg, 5*time.Second)
			default:
				cc.ctx, cc.cancel = vctx.WithCancel(bg)
			}
			callers[i] = cc
		}
		discRet, discErr := false, error(nil)
		_ = discErr
		applyCause := func() {
			switch cfg.cause {
			case "cancel", "cancel-before":
				for _, cc := range callers {
					cc.cancel()
				}
			case "deadline":
				// virtual time passes at quiescence
			case "local-close", "closed-before":
				cli.Close()
			case "peer-close":
				s.Close()
			case "disconnect":
				// the application shuts the connection down while calls are still waiting
				discErr = cli.Disconnect(bg)
				discRet = true
			case "malformed":
				s.SendRaw([]byte{0xF0, 0x00}, "reserved packet type 15")
			}
		}
		if before {
			applyCause()
			vrt.Settle()
		}
		for i := range callers {
			cc := callers[i]
			vrt.Go("caller-"+cc.call.name, func() {
				switch cc.call.name {
				case "connect":
					_, cc.err = cli.Connect(cc.ctx, "c11")
				case "p1":
					cc.err = cli.Publish(cc.ctx, &mqtt.Message{Topic: "t", QoS: mqtt.QoS1, Payload: []byte("x")})
				case "p2":
					cc.err = cli.Publish(cc.ctx, &mqtt.Message{Topic: "t", QoS: mqtt.QoS2, Payload: []byte("y")})
				case "sub":
					_, cc.err = cli.Subscribe(cc.ctx, mqtt.Subscription{Topic: "a", QoS: mqtt.QoS1})
				case "unsub":
					cc.err = cli.Unsubscribe(cc.ctx, "a")
				case "ping":
					cc.err = cli.Ping(cc.ctx)
				case "disconnect":
					cc.err = cli.Disconnect(cc.ctx)
				}
				cc.returned = true
			})
		}
		if !before {
			if cfg.concurrent {
				vrt.Go("cause", applyCause)
			} else {
				vrt.Settle()
				applyCause()
			}
		}
		vrt.Quiesce()
		desc := func() string {
			var cs []string
			for _, cc := range callers {
				cs = append(cs, fmt.Sprintf("%s/step%d(returned=%v err=%v)", cc.call.name, cc.call.step, cc.returned, cc.err))
			}
			var ts []string
			for _, t := range vrt.Tasks() {
				if !t.Done {
					ts = append(ts, fmt.Sprintf("%s blocked in %s", t.Name, t.Blocked))
				}
			}
			return fmt.Sprintf("cause %s (concurrent=%v); %v\n tasks alive: %v\n wire:\n  %s", cfg.cause, cfg.concurrent, cs, ts, strings.Join(net.TraceStrings(), "\n  "))
		}
		connEnd := cfg.cause == "local-close" || cfg.cause == "peer-close" || cfg.cause == "malformed" || cfg.cause == "closed-before" || cfg.cause == "disconnect"
		if cfg.cause == "disconnect" && !discRet {
			vrt.Failf("c11/still-blocked:disconnect-as-cause", "Disconnect, called while other calls were waiting, has not returned at quiescence\n%s", desc())
		}
		ctxEnd := cfg.cause == "cancel" || cfg.cause == "deadline" || cfg.cause == "cancel-before"
		disconnectCalled := false
		for _, cc := range callers {
			if cc.call.name == "disconnect" {
				disconnectCalled = true
			}
		}
		for _, cc := range callers {
			key := fmt.Sprintf("%s/step%d:%s", cc.call.name, cc.call.step, cfg.cause)
			if !cc.returned {
				vrt.Failf("c11/still-blocked:"+key, "%s is still blocked at quiescence\n%s", cc.call.name, desc())
				continue
			}
			if cc.call.name == "disconnect" {
				continue // Disconnect does not wait for the broker; only "returns" is judged
			}
			if cc.err == nil {
				vrt.Failf("c11/success-without-answer:"+key, "%s returned nil although the broker never answered\n%s", cc.call.name, desc())
				continue
			}
			if ctxEnd && !connEnd && !disconnectCalled {
				if ce := cc.ctx.Err(); ce == nil || !errors.Is(cc.err, ce) {
					vrt.Failf("c11/not-context-error:"+key, "%s returned %v, want an error wrapping %v\n%s", cc.call.name, cc.err, ce, desc())
				}
			}
		}
		if connEnd || disconnectCalled && !hasConnect {
			if !hasConnect && !doneSeen {
				vrt.Failf("c11/done-not-closed:"+cfg.cause, "the connection ended but Done() is not closed\n%s", desc())
			}
			for _, t := range vrt.Tasks() {
				if strings.HasPrefix(t.Name, "connect:") && !t.Done {
					vrt.Failf("c11/reader-still-running:"+cfg.cause, "the connection ended but the reader goroutine is still running (%s)\n%s", t.Blocked, desc())
				}
			}
		}
		for _, cc := range callers {
			cc.cancel()
		}
	}
}

func runC11(c *Ctx) {
	var net, last *env.Net
	run := func(name string, cfg c11Cfg) {
		sc := &vrt.Scenario{Name: name, Bound: cfg.bound, Cfg: vrt.Config{Horizon: int64(60 * time.Second), EarlyTimers: cfg.bound.T > 0}, Body: c11Body(cfg, &net), Observe: func() uint64 { return net.TraceHash() }}
		c.Explore(sc)
		if net != nil {
			last = net
		}
	}
	p, pc := 1, 2
	if c.Thorough() {
		p, pc = 4, 6
	}
	pairP := 1
	if c.Thorough() {
		pairP = 2
	}
	calls := c11Calls()
	c.Bound("single", fmt.Sprintf("every call %v x cause %v applied after the call blocked; P<=%d S<=1", calls, c11Causes, p))
	c.Bound("racing", fmt.Sprintf("every call x cause applied by a concurrent task; all schedules P<=%d S<=1 T<=1", pc))
	c.Bound("pairs", "every unordered pair of calls (excluding connect) blocked at once x connection-ending causes and cancel; P<=1 (thorough: 2)")
	for _, cl := range calls {
		for _, cause := range c11Causes {
			if cl.name == "connect" && (cause == "closed-before" || cause == "disconnect") {
				continue // a Disconnect behind a pending Connect is the during-connect family (known finding)
			}
			run(fmt.Sprintf("C11/single/%s.%d/%s", cl.name, cl.step, cause), c11Cfg{calls: []c11Call{cl}, cause: cause, bound: vrt.Budget{P: p, S: 1}})
			if !strings.HasSuffix(cause, "-before") {
				run(fmt.Sprintf("C11/racing/%s.%d/%s", cl.name, cl.step, cause), c11Cfg{calls: []c11Call{cl}, cause: cause, concurrent: true, bound: vrt.Budget{P: pc, S: 1, T: 1}})
			}
		}
	}
	// a link that no longer takes writes: the call is stuck inside (or fails in) Transport.Write, and a
	// local Close is what the application has left to end the connection
	c.Bound("bad-link", "every call (first step) on a link whose peer stopped reading (Write blocks) or whose writes fail while reads stay silent, ended by a local Close, applied after the call settled and by a racing task; P as for the single family")
	for _, cl := range calls {
		if cl.name == "connect" || cl.step > 0 {
			continue
		}
		for _, link := range []string{"stalled", "write-fails"} {
			run(fmt.Sprintf("C11/bad-link/%s/%s/local-close", link, cl.name), c11Cfg{calls: []c11Call{cl}, cause: "local-close", link: link, bound: vrt.Budget{P: p, S: 1}})
			run(fmt.Sprintf("C11/bad-link/%s/%s/local-close-racing", link, cl.name), c11Cfg{calls: []c11Call{cl}, cause: "local-close", link: link, concurrent: true, bound: vrt.Budget{P: p, S: 1}})
		}
	}
	for i, a := range calls {
		for _, b := range calls[i:] {
			if a.name == "connect" || b.name == "connect" || a.name == "p2" && b.name == "p2" {
				continue
			}
			for _, cause := range []string{"cancel", "local-close", "peer-close", "malformed"} {
				run(fmt.Sprintf("C11/pair/%s.%d+%s.%d/%s", a.name, a.step, b.name, b.step, cause), c11Cfg{calls: []c11Call{a, b}, cause: cause, bound: vrt.Budget{P: pairP, S: 1}})
			}
		}
	}
	c11DuringConnect(c)
	c11Reconnecting(c)
	c11LateAcks(c)
	c11PingPending(c)
	c11RetryPingCancel(c)
	c11SecondConnect(c)
	c11HandlerBusy(c)
	if last != nil {
		c.Sample(map[string]any{"wire": last.TraceStrings()})
	}
}

// c11DuringConnect: a request issued while a Connect on the same client is still waiting for
// CONNACK must return when its own context is cancelled.
func c11DuringConnect(c *Ctx) {
	c.Bound("during-connect", "Publish/Subscribe/Unsubscribe/Ping/Disconnect issued while Connect waits for a CONNACK that never comes; the second call's context is cancelled; P<=1")
	for _, name := range []string{"p1", "sub", "unsub", "ping", "disconnect"} {
		name := name
		var net *env.Net
		sc := &vrt.Scenario{
			Name:  "C11/during-connect/" + name,
			Bound: vrt.Budget{P: 1},
			Cfg:   vrt.Config{Horizon: int64(60 * time.Second)},
			Body: func() {
				net = env.NewNet()
				s := env.NewScript(net) // never answers CONNECT
				cli := &mqtt.BaseClient{Transport: s.Conn}
				bg := vctx.Background()
				cctx, ccancel := vctx.WithCancel(bg)
				connReturned := false
				vrt.Go("connect", func() { cli.Connect(cctx, "c11"); connReturned = true })
				vrt.Settle()
				ctx, cancel := vctx.WithCancel(bg)
				returned := false
				var err error
				vrt.Go("second-"+name, func() {
					switch name {
					case "p1":
						err = cli.Publish(ctx, &mqtt.Message{Topic: "t", QoS: mqtt.QoS1, Payload: []byte("x")})
					case "sub":
						_, err = cli.Subscribe(ctx, mqtt.Subscription{Topic: "a"})
					case "unsub":
						err = cli.Unsubscribe(ctx, "a")
					case "ping":
						err = cli.Ping(ctx)
					case "disconnect":
						err = cli.Disconnect(ctx)
					}
					returned = true
				})
				vrt.Settle()
				cancel()
				vrt.Quiesce()
				if !returned {
					vrt.Failf("c11/blocked-behind-connect:"+name, "%s issued while Connect waits for CONNACK does not return although its own context was cancelled (Connect returned=%v)", name, connReturned)
				} else if name != "disconnect" && (err == nil || !errors.Is(err, vctx.Canceled)) {
					vrt.Failf("c11/not-context-error:during-connect:"+name, "%s returned %v", name, err)
				}
				ccancel()
				vrt.Quiesce()
				if !connReturned {
					vrt.Failf("c11/still-blocked:connect/step0:cancel-late", "Connect does not return after its context was cancelled")
				}
			},
			Observe: func() uint64 { return net.TraceHash() },
		}
		c.Explore(sc)
	}
}

// c11Reconnecting: Connect / Disconnect of the reconnecting client.
func c11Reconnecting(c *Ctx) {
	c.Bound("reconnecting", "ReconnectClient.Connect against a broker that never sends CONNACK / always refuses / cannot be dialled, context cancelled or expiring; Disconnect on an established connection and with a cancelled context; P<=1")
	for _, mode := range []string{"noconnack-cancel", "refused-deadline", "dialerr-cancel", "disconnect", "disconnect-cancelled-ctx", "cancel-racing-success"} {
		mode := mode
		var net *env.Net
		sc := &vrt.Scenario{
			Name:  "C11/reconnecting/" + mode,
			Bound: vrt.Budget{P: 2, S: 1},
			Cfg:   vrt.Config{Horizon: int64(120 * time.Second)},
			Body: func() {
				net = env.NewNet()
				b := env.NewBroker(net)
				always := func(k int) {}
				_ = always
				dialFail := mode == "dialerr-cancel"
				dialer := mqtt.DialerFunc(func(ctx vctx.Context) (*mqtt.BaseClient, error) {
					if dialFail {
						vrt.Yield("dial")
						return nil, errors.New("dial refused")
					}
					conn := net.NewConn(c11Peer{b: b, mode: mode})
					return &mqtt.BaseClient{Transport: conn}, nil
				})
				rc, _ := mqtt.NewReconnectClient(dialer, mqtt.WithReconnectWait(time.Second, 4*time.Second))
				bg := vctx.Background()
				var ctx vctx.Context
				var cancel func()
				if mode == "refused-deadline" {
					ctx, cancel = vctx.WithTimeout(bg, 10*time.Second)
				} else {
					ctx, cancel = vctx.WithCancel(bg)
				}
				returned := false
				var err error
				vrt.Go("rc-connect", func() { _, err = rc.Connect(ctx, "c11"); returned = true })
				if mode == "cancel-racing-success" {
					// the caller gives up at the very moment the first connection succeeds; afterwards
					// Disconnect must still return and nothing may be left running
					vrt.Go("canceller", cancel)
					vrt.Quiesce()
					if !returned {
						vrt.Failf("c11/still-blocked:rc-connect:"+mode, "ReconnectClient.Connect does not return")
					}
					dret := false
					vrt.Go("rc-disconnect", func() { rc.Disconnect(bg); dret = true })
					vrt.Quiesce()
					if !dret {
						vrt.Failf("c11/still-blocked:rc-disconnect:"+mode, "ReconnectClient.Disconnect does not return after a Connect whose context was cancelled while the connection was being established (Connect returned %v)", err)
					}
					for _, t := range vrt.Tasks() {
						if !t.Done && (strings.HasPrefix(t.Name, "reconnclient:") || strings.HasPrefix(t.Name, "connect:")) {
							vrt.Failf("c11/task-left-running:"+mode, "library goroutine %s is still blocked in %s after Disconnect returned", t.Name, t.Blocked)
						}
					}
					return
				}
				vrt.Settle()
				switch mode {
				case "noconnack-cancel", "dialerr-cancel":
					cancel()
					vrt.Quiesce()
					if !returned {
						vrt.Failf("c11/still-blocked:rc-connect:"+mode, "ReconnectClient.Connect does not return after its context was cancelled")
					} else if err == nil || !errors.Is(err, vctx.Canceled) {
						vrt.Failf("c11/not-context-error:rc-connect:"+mode, "ReconnectClient.Connect returned %v", err)
					}
				case "refused-deadline":
					vrt.Quiesce()
					if !returned {
						vrt.Failf("c11/still-blocked:rc-connect:"+mode, "ReconnectClient.Connect does not return after its deadline")
					} else if err == nil || !errors.Is(err, vctx.DeadlineExceeded) {
						vrt.Failf("c11/not-context-error:rc-connect:"+mode, "ReconnectClient.Connect returned %v", err)
					}
				case "disconnect", "disconnect-cancelled-ctx":
					vrt.Quiesce()
					if !returned || err != nil {
						vrt.Failf("harness", "rc.Connect: returned=%v err=%v", returned, err)
						return
					}
					dctx, dcancel := vctx.WithCancel(bg)
					if mode == "disconnect-cancelled-ctx" {
						dcancel()
					}
					dret := false
					vrt.Go("rc-disconnect", func() { rc.Disconnect(dctx); dret = true })
					vrt.Quiesce()
					if !dret {
						vrt.Failf("c11/still-blocked:rc-disconnect:"+mode, "ReconnectClient.Disconnect does not return")
					}
					dcancel()
				}
				cancel()
				vrt.Quiesce()
			},
			Observe: func() uint64 { return net.TraceHash() },
		}
		c.Explore(sc)
	}
}

// c11Peer is a minimal peer for the reconnecting scenarios.
type c11Peer struct {
	b    *env.Broker
	mode string
}

func (p c11Peer) OnData(c *env.Conn, data []byte) error {
	pk, _, err := env.Decode(data)
	if err != nil {
		return nil
	}
	switch pk.Type {
	case env.CONNECT:
		switch p.mode {
		case "noconnack-cancel":
		case "refused-deadline":
			c.Send(env.EncConnAck(false, 5), "refused")
			c.PeerClose("refused")
		default:
			c.Send(env.EncConnAck(false, 0), "")
		}
	case env.PUBLISH:
		if pk.QoS == 1 {
			c.Send(env.EncAck(env.PUBACK, pk.ID), "")
		}
	case env.SUBSCRIBE:
		c.Send(env.EncSubAck(pk.ID, make([]byte, len(pk.Filters))), "")
	case env.UNSUBSCRIBE:
		c.Send(env.EncAck(env.UNSUBACK, pk.ID), "")
	case env.DISCONNECT:
		c.PeerClose("DISCONNECT received")
	}
	return nil
}

// c11LateAcks: a call was abandoned (context cancelled); afterwards the broker's late answer
// arrives, even twice, and then the connection ends.  Done() must still be closed, the reader must
// exit and a later call must still complete.
func c11LateAcks(c *Ctx) {
	c.Bound("late-acks", "each of {p1, p2 first phase, p2 second phase, sub, unsub, ping} is abandoned by cancelling its context (ping: twice), then the late acknowledgement is delivered twice, then a fresh Ping must complete and a peer close must close Done() and end the reader; P<=1")
	for _, cl := range []c11Call{{"p1", 0}, {"p2", 0}, {"p2", 1}, {"sub", 0}, {"unsub", 0}, {"ping", 0}} {
		cl := cl
		var net *env.Net
		sc := &vrt.Scenario{
			Name:  fmt.Sprintf("C11/late-acks/%s.%d", cl.name, cl.step),
			Bound: vrt.Budget{P: 1},
			Cfg:   vrt.Config{Horizon: int64(60 * time.Second)},
			Body: func() {
				net = env.NewNet()
				s := env.NewScript(net)
				s.AutoConnAck = true
				var late [][]byte
				answerPing := false
				s.OnPacket = func(_ *env.Script, p *env.Packet) {
					switch p.Type {
					case env.PUBLISH:
						if p.QoS == 1 {
							late = append(late, env.EncAck(env.PUBACK, p.ID))
						} else if p.QoS == 2 {
							if cl.step == 1 {
								s.Conn.Send(env.EncAck(env.PUBREC, p.ID), "")
							} else {
								late = append(late, env.EncAck(env.PUBREC, p.ID))
							}
						}
					case env.PUBREL:
						late = append(late, env.EncAck(env.PUBCOMP, p.ID))
					case env.SUBSCRIBE:
						late = append(late, env.EncSubAck(p.ID, []byte{1}))
					case env.UNSUBSCRIBE:
						late = append(late, env.EncAck(env.UNSUBACK, p.ID))
					case env.PINGREQ:
						if answerPing {
							s.Conn.Send(env.EncPingResp(), "")
						} else {
							late = append(late, env.EncPingResp())
						}
					}
				}
				cli := &mqtt.BaseClient{Transport: s.Conn}
				bg := vctx.Background()
				if _, err := cli.Connect(bg, "c11"); err != nil {
					vrt.Failf("harness", "connect: %v", err)
					return
				}
				doneSeen := false
				vrt.GoDaemon("done-watch", func() { vrt.Recv(cli.Done()); doneSeen = true })
				rounds := 1
				if cl.name == "ping" {
					rounds = 2
				}
				for r := 0; r < rounds; r++ {
					ctx, cancel := vctx.WithCancel(bg)
					ret := false
					vrt.Go("caller", func() {
						switch cl.name {
						case "p1":
							cli.Publish(ctx, &mqtt.Message{Topic: "t", QoS: mqtt.QoS1, Payload: []byte("x")})
						case "p2":
							cli.Publish(ctx, &mqtt.Message{Topic: "t", QoS: mqtt.QoS2, Payload: []byte("y")})
						case "sub":
							cli.Subscribe(ctx, mqtt.Subscription{Topic: "a", QoS: mqtt.QoS1})
						case "unsub":
							cli.Unsubscribe(ctx, "a")
						case "ping":
							cli.Ping(ctx)
						}
						ret = true
					})
					vrt.Settle()
					cancel()
					vrt.Settle()
					if !ret {
						vrt.Failf("c11/still-blocked:"+cl.name+":cancel", "%s does not return after cancellation", cl.name)
						return
					}
				}
				// the late answers arrive, each one twice
				for _, a := range late {
					s.Send(a)
					s.Send(a)
				}
				vrt.Settle()
				answerPing = true
				pctx, pcancel := vctx.WithTimeout(bg, 5*time.Second)
				perr := cli.Ping(pctx)
				pcancel()
				if perr != nil {
					vrt.Failf("c11/late-ack-breaks-later-call:"+cl.name, "after late acknowledgements %d x2 a fresh Ping fails: %v\n wire:\n  %s", len(late), perr, strings.Join(net.TraceStrings(), "\n  "))
				}
				s.Close()
				vrt.Quiesce()
				if !doneSeen {
					vrt.Failf("c11/done-not-closed:late-acks:"+cl.name, "the peer closed the connection after late acknowledgements but Done() is not closed\n wire:\n  %s", strings.Join(net.TraceStrings(), "\n  "))
				}
				for _, t := range vrt.Tasks() {
					if strings.HasPrefix(t.Name, "connect:") && !t.Done {
						vrt.Failf("c11/reader-still-running:late-acks:"+cl.name, "the reader goroutine is still blocked in %s after the connection ended", t.Blocked)
					}
				}
			},
			Observe: func() uint64 { return net.TraceHash() },
		}
		c.Explore(sc)
	}
}

// c11PingPending: a Ping issued through the retrying / reconnecting client is outstanding on a
// silent link; other calls on the same client must still return (when their own context ends at
// the latest).
// c11RetryPingCancel: a Ping through the retrying client with a (long) ResponseTimeout configured
// still follows its caller's context.
func c11RetryPingCancel(c *Ctx) {
	c.Bound("rc-ping-cancel", "ReconnectClient over RetryClient{ResponseTimeout: 30 s}: Ping on a link whose broker never answers PINGREQ, given up by cancellation at 1 s / by a 1 s deadline; it must have returned by 3 s with the context's error; P<=1")
	for _, how := range []string{"cancel", "deadline"} {
		how := how
		var net *env.Net
		sc := &vrt.Scenario{
			Name:  "C11/rc-ping-cancel/response-timeout-30s/" + how,
			Bound: vrt.Budget{P: 1},
			Cfg:   vrt.Config{Horizon: int64(120 * time.Second)},
			Body: func() {
				net = env.NewNet()
				b := env.NewBroker(net)
				dialer := mqtt.DialerFunc(func(ctx vctx.Context) (*mqtt.BaseClient, error) {
					conn := net.NewConn(c11Peer{b: b, mode: "no-pingresp"})
					return &mqtt.BaseClient{Transport: conn}, nil
				})
				rc, _ := mqtt.NewReconnectClient(dialer, mqtt.WithReconnectWait(time.Second, 4*time.Second), mqtt.WithRetryClient(&mqtt.RetryClient{ResponseTimeout: 30 * time.Second}))
				bg := vctx.Background()
				if _, err := rc.Connect(bg, "c11"); err != nil {
					vrt.Failf("harness", "connect: %v", err)
					return
				}
				var pctx vctx.Context
				var pcancel func()
				if how == "deadline" {
					pctx, pcancel = vctx.WithTimeout(bg, time.Second)
				} else {
					pctx, pcancel = vctx.WithCancel(bg)
				}
				pingRet := false
				var perr error
				vrt.Go("rc-ping", func() { perr = rc.Ping(pctx); pingRet = true })
				vrt.Sleep(int64(time.Second))
				pcancel()
				vrt.Sleep(int64(2 * time.Second))
				vrt.Settle()
				if !pingRet {
					vrt.Failf("c11/still-blocked:rc-ping:"+how+":response-timeout-set", "Ping on the retrying client (ResponseTimeout 30 s) has not returned 2 s after its context ended (%s)", how)
				} else if ce := pctx.Err(); perr == nil || !errors.Is(perr, ce) {
					vrt.Failf("c11/not-context-error:rc-ping:"+how, "Ping returned %v, want an error wrapping %v", perr, ce)
				}
				rc.Disconnect(bg)
				vrt.Quiesce()
			},
			Observe: func() uint64 { return net.TraceHash() },
		}
		c.Explore(sc)
	}
}

// c11SecondConnect: the same BaseClient object is connected a second time (fresh transport) after
// its first connection ended; calls blocked on the second connection return when that one ends.
func c11SecondConnect(c *Ctx) {
	c.Bound("second-connect", "one BaseClient, first connection ended by the peer, Transport replaced, Connect again; then each of Publish QoS1 / Subscribe / Unsubscribe / Ping blocked on the second connection x ending by peer close / local Close / malformed packet / Disconnect; P<=1")
	for _, call := range []string{"p1", "sub", "unsub", "ping"} {
		for _, cause := range []string{"peer-close", "local-close", "malformed", "disconnect"} {
			call, cause := call, cause
			var net *env.Net
			sc := &vrt.Scenario{
				Name:  fmt.Sprintf("C11/second-connect/%s/%s", call, cause),
				Bound: vrt.Budget{P: 1},
				Cfg:   vrt.Config{Horizon: int64(60 * time.Second)},
				Body: func() {
					net = env.NewNet()
					bg := vctx.Background()
					s1 := env.NewScript(net)
					s1.AutoConnAck = true
					cli := &mqtt.BaseClient{Transport: s1.Conn}
					if _, err := cli.Connect(bg, "c11"); err != nil {
						vrt.Failf("harness", "first connect: %v", err)
						return
					}
					s1.Close()
					vrt.Settle()
					s2 := env.NewScript(net)
					s2.AutoConnAck = true
					cli.Transport = s2.Conn
					if _, err := cli.Connect(bg, "c11"); err != nil {
						vrt.Failf("harness", "second connect on the same BaseClient: %v", err)
						return
					}
					doneSeen := false
					vrt.GoDaemon("done-watch", func() { vrt.Recv(cli.Done()); doneSeen = true })
					ret := false
					var rerr error
					vrt.Go("caller-"+call, func() {
						switch call {
						case "p1":
							rerr = cli.Publish(bg, &mqtt.Message{Topic: "t", QoS: mqtt.QoS1, Payload: []byte("x")})
						case "sub":
							_, rerr = cli.Subscribe(bg, mqtt.Subscription{Topic: "a", QoS: mqtt.QoS1})
						case "unsub":
							rerr = cli.Unsubscribe(bg, "a")
						case "ping":
							rerr = cli.Ping(bg)
						}
						ret = true
					})
					vrt.Settle()
					switch cause {
					case "peer-close":
						s2.Close()
					case "local-close":
						cli.Close()
					case "malformed":
						s2.SendRaw([]byte{0xF0, 0x00}, "reserved packet type 15")
					case "disconnect":
						cli.Disconnect(bg)
					}
					vrt.Quiesce()
					if !ret {
						vrt.Failf("c11/still-blocked:"+call+":second-connection:"+cause, "%s on the second connection of a reused BaseClient is still blocked after the connection ended (%s)\n wire:\n  %s", call, cause, strings.Join(net.TraceStrings(), "\n  "))
					} else if rerr == nil {
						vrt.Failf("c11/success-without-answer:"+call+":second-connection", "%s returned nil although nothing was answered", call)
					}
					if !doneSeen {
						vrt.Failf("c11/done-not-closed:second-connection:"+cause, "the second connection of a reused BaseClient ended (%s) but Done() is not closed", cause)
					}
					for _, t := range vrt.Tasks() {
						if strings.HasPrefix(t.Name, "connect:") && !t.Done {
							vrt.Failf("c11/reader-still-running:second-connection:"+cause, "the connection ended but a reader goroutine is still running (%s)", t.Blocked)
						}
					}
				},
				Observe: func() uint64 { return net.TraceHash() },
			}
			c.Explore(sc)
		}
	}
}

func c11PingPending(c *Ctx) {
	c.Bound("rc-ping-pending", "ReconnectClient: Ping outstanding (the broker never answers PINGREQ) while Publish / Subscribe / Unsubscribe / Disconnect are called with a 1 s deadline; P<=1")
	for _, op := range []string{"publish", "subscribe", "unsubscribe", "disconnect"} {
		op := op
		var net *env.Net
		sc := &vrt.Scenario{
			Name:  "C11/rc-ping-pending/" + op,
			Bound: vrt.Budget{P: 1},
			Cfg:   vrt.Config{Horizon: int64(60 * time.Second)},
			Body: func() {
				net = env.NewNet()
				b := env.NewBroker(net)
				dialer := mqtt.DialerFunc(func(ctx vctx.Context) (*mqtt.BaseClient, error) {
					conn := net.NewConn(c11Peer{b: b, mode: "no-pingresp"})
					return &mqtt.BaseClient{Transport: conn}, nil
				})
				rc, _ := mqtt.NewReconnectClient(dialer, mqtt.WithReconnectWait(time.Second, 4*time.Second))
				bg := vctx.Background()
				if _, err := rc.Connect(bg, "c11"); err != nil {
					vrt.Failf("harness", "connect: %v", err)
					return
				}
				pctx, pcancel := vctx.WithCancel(bg)
				pingRet := false
				vrt.Go("rc-ping", func() { rc.Ping(pctx); pingRet = true })
				vrt.Settle()
				ctx, cancel := vctx.WithTimeout(bg, time.Second)
				ret := false
				vrt.Go("rc-"+op, func() {
					switch op {
					case "publish":
						rc.Publish(ctx, &mqtt.Message{Topic: "t", QoS: mqtt.QoS1, Payload: []byte("x")})
					case "subscribe":
						rc.Subscribe(ctx, mqtt.Subscription{Topic: "a", QoS: mqtt.QoS1})
					case "unsubscribe":
						rc.Unsubscribe(ctx, "a")
					case "disconnect":
						rc.Disconnect(ctx)
					}
					ret = true
				})
				vrt.Sleep(int64(5 * time.Second))
				vrt.Settle()
				if !ret {
					vrt.Failf("c11/still-blocked:rc-"+op+":behind-pending-ping", "%s on the reconnecting client has not returned 4 s after its deadline while a Ping is outstanding on a silent link", op)
				}
				cancel()
				pcancel()
				vrt.Quiesce()
				if !pingRet {
					vrt.Failf("c11/still-blocked:rc-ping:cancel", "Ping on the reconnecting client does not return after its context was cancelled")
				}
			},
			Observe: func() uint64 { return net.TraceHash() },
		}
		c.Explore(sc)
	}
}

// c11HandlerBusy: the reader goroutine is inside the application's handler (which is blocked, e.g. on
// a full channel) while the application ends the connection or gives a call up.
func c11HandlerBusy(c *Ctx) {
	c.Bound("handler-busy", "BaseClient whose handler is blocked on an inbound QoS 0 message (the reader goroutine sits in it): Disconnect / Ping / Publish QoS1 / Subscribe called with a context that is cancelled 1 s later (Disconnect must return as soon as DISCONNECT is written and the transport closed; the others when their context ends); then a local Close; the handler is released at the end and the reader must exit; P<=1")
	for _, call := range []string{"disconnect", "ping", "p1", "sub"} {
		call := call
		var net *env.Net
		sc := &vrt.Scenario{
			Name:  "C11/handler-busy/" + call,
			Bound: vrt.Budget{P: 1},
			Cfg:   vrt.Config{Horizon: int64(60 * time.Second)},
			Body: func() {
				net = env.NewNet()
				bg := vctx.Background()
				s := env.NewScript(net)
				s.AutoConnAck = true
				release := make(chan int)
				inHandler, handlerDone := false, false
				cli := &mqtt.BaseClient{Transport: s.Conn}
				cli.Handle(mqtt.HandlerFunc(func(*mqtt.Message) {
					inHandler = true
					vrt.Recv(release)
					handlerDone = true
				}))
				if _, err := cli.Connect(bg, "c11"); err != nil {
					vrt.Failf("harness", "connect: %v", err)
					return
				}
				s.Send(env.EncPublish("t", []byte("x"), 0, 0, false, false))
				vrt.Settle()
				if !inHandler {
					vrt.Failf("harness", "the handler was not entered")
					return
				}
				ctx, cancel := vctx.WithTimeout(bg, time.Second)
				defer cancel()
				ret := false
				var rerr error
				vrt.Go("caller-"+call, func() {
					switch call {
					case "disconnect":
						rerr = cli.Disconnect(ctx)
					case "ping":
						rerr = cli.Ping(ctx)
					case "p1":
						rerr = cli.Publish(ctx, &mqtt.Message{Topic: "t", QoS: mqtt.QoS1, Payload: []byte("y")})
					case "sub":
						_, rerr = cli.Subscribe(ctx, mqtt.Subscription{Topic: "a", QoS: mqtt.QoS1})
					}
					ret = true
				})
				vrt.Sleep(int64(2 * time.Second))
				vrt.Settle()
				if !ret {
					vrt.Failf("c11/still-blocked:"+call+":handler-busy:deadline", "%s is still blocked 1 s after its context ended (the reader goroutine is inside the handler)\n wire:\n  %s", call, strings.Join(net.TraceStrings(), "\n  "))
				} else if call != "disconnect" && !errors.Is(rerr, vctx.DeadlineExceeded) {
					vrt.Failf("c11/not-context-error:"+call+":handler-busy", "%s ended by its context's deadline returned %v", call, rerr)
				}
				cli.Close()
				vrt.SendTo(release).V(1)
				vrt.Quiesce()
				if !handlerDone || !c16DoneClosed(cli) {
					vrt.Failf("c11/done-not-closed:handler-busy:"+call, "after Close and the handler's return: handler returned=%v, Done() closed=%v", handlerDone, c16DoneClosed(cli))
				}
			},
			Observe: func() uint64 { return net.TraceHash() },
		}
		c.Explore(sc)
	}
}
