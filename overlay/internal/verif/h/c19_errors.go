//go:build verif

package main

import (
	"bytes"
	"errors"
	"fmt"
	"io"
	"strings"
	"unsafe"

	mqtt "github.com/at-wat/mqtt-go"
	"github.com/at-wat/mqtt-go/internal/verif/env"
	vctx "github.com/at-wat/mqtt-go/internal/verif/shim/context"
	vtime "github.com/at-wat/mqtt-go/internal/verif/shim/time"
	"github.com/at-wat/mqtt-go/internal/verif/vrt"
)

// C19 - returned errors keep their cause inspectable and their retry handle.
//
//   part "chain"   (exhaustive enumeration): every chain of wrappers over every base x every target.
//   part "retry"   (real BaseClients under the scheduler): request kind x failure step; the error
//                  implements ErrorWithRetry, names its cause, and Retry on a fresh connected
//                  client re-issues that same request.
//   part "timeout" (real RetryClient under the scheduler): an expired ResponseTimeout is reported
//                  as an error identifiable as *RequestTimeoutError.
//
// The oracle is the construction recipe (which base, which wrappers, in which order); it never looks
// at how the library walks a chain.

func init() { register("C19", runC19) }

func runC19(c *Ctx) {
	if mqtt.VerifHasErrors {
		c19Chains(c)
	} else {
		c.Note("C19: the white-box wrapper around wrapError / wrapErrorWithRetry does not compile against this tree; the wrapper-chain enumeration is skipped, the errors returned by real clients (parts retry and timeout) are still judged")
	}
	c19Retry(c)
	c19Timeout(c)
	c19TimeoutPing(c)
	c19Reconnecting(c)
}

// ---------------------------------------------------------------------------------------------
// part "chain"

const (
	c19WLib    = iota // mqtt.wrapError
	c19WRetry         // mqtt.wrapErrorWithRetry
	c19WFmt           // fmt.Errorf("%w")
	c19WConn          // &mqtt.ConnectionError{Err: x}
	c19WRTE           // &mqtt.RequestTimeoutError{x}
	c19WLegacy        // foreign pre-Go1.13 style wrapper: exported Err field, no Unwrap method
	c19NWrap
)

var c19WrapNames = [...]string{"wrapError", "wrapErrorWithRetry", "fmt%w", "ConnectionError", "RequestTimeoutError", "legacy{Err}"}

// c19LegacyErr is a foreign wrapper as transports written before Go 1.13 have them. The statement
// promises nothing about looking through it, so it only takes part in the "never reports a sentinel
// that is not in the chain" half of the oracle.
type c19LegacyErr struct {
	Op  string
	Err error
}

// c19PtrErr is a foreign error whose dynamic type is a pointer to a non-struct (probe only).
type c19PtrErr int

func (e *c19PtrErr) Error() string { return "c19: pointer-to-int error" }

func (e *c19LegacyErr) Error() string { return e.Op + ": " + e.Err.Error() }

func c19Apply(w int, x error) error {
	switch w {
	case c19WLib:
		return mqtt.VerifWrapError(x, "c19 failure")
	case c19WRetry:
		return mqtt.VerifWrapErrorWithRetry(x, "c19 failure with retry")
	case c19WFmt:
		return fmt.Errorf("c19 context: %w", x)
	case c19WConn:
		return &mqtt.ConnectionError{Err: x, Code: mqtt.ConnectionReturnCode(2)}
	case c19WRTE:
		return mqtt.VerifNewRequestTimeoutError(x)
	default:
		return &c19LegacyErr{Op: "c19 legacy op", Err: x}
	}
}

type c19Base struct {
	name string
	err  error
}

var c19Foreign = errors.New("c19: foreign error from a transport")

// c19Lookalike is a distinct error value whose text equals that of a library sentinel.
var c19Lookalike = errors.New(mqtt.ErrNotConnected.Error())

func c19Bases() []c19Base {
	return []c19Base{
		{"ErrClosedTransport", mqtt.ErrClosedTransport},
		{"ErrInvalidPacket", mqtt.ErrInvalidPacket},
		{"ErrInvalidPacketLength", mqtt.ErrInvalidPacketLength},
		{"ErrPayloadLenExceeded", mqtt.ErrPayloadLenExceeded},
		{"ErrInvalidQoS", mqtt.ErrInvalidQoS},
		{"ErrNotConnected", mqtt.ErrNotConnected},
		{"ErrInvalidSubAck", mqtt.ErrInvalidSubAck},
		{"ErrInvalidRune", mqtt.ErrInvalidRune},
		{"ErrInvalidTopicFilter", mqtt.ErrInvalidTopicFilter},
		{"ErrClosedClient", mqtt.ErrClosedClient},
		{"ErrKeepAliveDisabled", mqtt.ErrKeepAliveDisabled},
		{"ErrPingTimeout", mqtt.ErrPingTimeout},
		{"ErrConnectionFailed", mqtt.ErrConnectionFailed},
		{"ErrUnsupportedProtocol", mqtt.ErrUnsupportedProtocol},
		{"io.EOF", io.EOF},
		{"context.Canceled", vctx.Canceled},
		{"context.DeadlineExceeded", vctx.DeadlineExceeded},
		{"foreign", c19Foreign},
		{"foreign-with-text-of-ErrNotConnected", c19Lookalike},
	}
}

func c19RecipeString(base string, ws []int) string {
	s := base
	for _, w := range ws {
		s = c19WrapNames[w] + "(" + s + ")"
	}
	return s
}

// c19Shape is the key component describing a recipe without its base: the wrapper kinds used.
func c19Shape(ws []int) string {
	var used [c19NWrap]bool
	for _, w := range ws {
		used[w] = true
	}
	var p []string
	for w, u := range used {
		if u {
			p = append(p, c19WrapNames[w])
		}
	}
	if len(p) == 0 {
		return "bare"
	}
	return strings.Join(p, ",")
}

func c19Chains(c *Ctx) {
	depth := 3
	if c.Thorough() {
		depth = 6
	}
	bases := c19Bases()
	level := [][]int{{}} // wrappers, innermost first
	recipes := append([][]int{}, level...)
	for n := 1; n <= depth; n++ {
		var next [][]int
		for _, r := range level {
			for w := 0; w < c19NWrap; w++ {
				next = append(next, append(append([]int{}, r...), w))
			}
		}
		recipes = append(recipes, next...)
		level = next
	}
	c.Bound("chain.recipes", fmt.Sprintf("%d recipes: every sequence of 0..%d wrappers from %q", len(recipes), depth, c19WrapNames))
	var bn []string
	for _, b := range bases {
		bn = append(bn, b.name)
	}
	c.Bound("chain.bases_and_targets", fmt.Sprintf("every base x every target from %q", bn))

	// fixed points the statement names
	if c.Shard == 0 {
		if got := mqtt.VerifWrapError(io.EOF, "x"); got != io.EOF {
			c.EnumFail("chain", "eof-not-passed-through/wrapError", fmt.Sprintf("wrapError(io.EOF) = %#v, want io.EOF itself", got), nil)
		}
		if got := mqtt.VerifWrapErrorWithRetry(io.EOF, "x"); got != io.EOF {
			c.EnumFail("chain", "eof-not-passed-through/wrapErrorWithRetry", fmt.Sprintf("wrapErrorWithRetry(io.EOF) = %#v, want io.EOF itself", got), nil)
		}
		if got := mqtt.VerifWrapErrorf(io.EOF, "x %d", 1); got != io.EOF {
			c.EnumFail("chain", "eof-not-passed-through/wrapErrorf", fmt.Sprintf("wrapErrorf(io.EOF) = %#v, want io.EOF itself", got), nil)
		}
		if got := mqtt.VerifWrapError(nil, "x"); got != nil {
			c.EnumFail("chain", "nil-wrapped/wrapError", fmt.Sprintf("wrapError(nil) = %#v, want nil", got), nil)
		}
		if got := mqtt.VerifWrapErrorWithRetry(nil, "x"); got != nil {
			c.EnumFail("chain", "nil-wrapped/wrapErrorWithRetry", fmt.Sprintf("wrapErrorWithRetry(nil) = %#v, want nil", got), nil)
		}
		c.Res.Evaluations += 5
		c.Res.Distinct += 5
		// Observed, not judged: a foreign error type outside the chains the statement quantifies over.
		func() {
			defer func() {
				if r := recover(); r != nil {
					c.Note("observed, not judged (input outside the statement's chains): errors.Is(wrapError(e), target) with e a foreign error whose dynamic type is a pointer to a non-struct panics inside (*Error).Is: %v", r)
				}
			}()
			var p c19PtrErr
			_ = errors.Is(mqtt.VerifWrapError(&p, "x"), mqtt.ErrNotConnected)
		}()
	}

	var evals int64
	for ri, ws := range recipes {
		if !c.Mine(int64(ri)) {
			continue
		}
		if c.Expired() {
			c.Res.Incomplete = append(c.Res.Incomplete, "C19/chain")
			return
		}
		shape := c19Shape(ws)
		for _, b := range bases {
			// model of the recipe
			bare := true      // the value is still the base itself (no wrapper object around it)
			hasRTE := false   // a RequestTimeoutError lies somewhere in the chain
			reachRTE := false // ... and no foreign legacy wrapper lies outside the outermost one
			opaque := false   // a wrapper that documents no Unwrap lies between the surface and the base
			var chain error = b.err
			for _, w := range ws {
				eofPass := bare && b.err == io.EOF && (w == c19WLib || w == c19WRetry)
				chain = c19Apply(w, chain)
				if eofPass {
					if chain != io.EOF {
						c.EnumFail("chain", "eof-not-passed-through/"+c19WrapNames[w], fmt.Sprintf("%s applied to io.EOF returned %#v", c19WrapNames[w], chain), nil)
					}
					continue
				}
				bare = false
				switch w {
				case c19WRTE:
					hasRTE, reachRTE, opaque = true, true, true
				case c19WLegacy:
					reachRTE, opaque = false, true
				}
			}
			recipe := c19RecipeString(b.name, ws)
			if chain == nil {
				c.EnumFail("chain", "nil-chain/"+shape, "recipe "+recipe+" produced nil", map[string]any{"recipe": recipe})
				continue
			}
			// a retry wrapper outermost (around anything but a passed-through EOF) offers the retry handle
			if n := len(ws); n > 0 && ws[n-1] == c19WRetry && !bare {
				evals++
				if _, ok := chain.(mqtt.ErrorWithRetry); !ok {
					c.EnumFail("chain", "retry-handle-missing/"+shape, "recipe "+recipe+": the value returned by wrapErrorWithRetry does not implement ErrorWithRetry", map[string]any{"recipe": recipe})
				}
			}
			// errors.As(*RequestTimeoutError): required when the outermost RequestTimeoutError lies
			// beneath library wrappers, %w and ConnectionError only; forbidden when the recipe has
			// none; not judged when it is hidden beneath a foreign legacy wrapper.
			var rte *mqtt.RequestTimeoutError
			gotAs := errors.As(chain, &rte)
			evals++
			if hasRTE {
				c.Res.Distinct++
			}
			if reachRTE && !gotAs {
				c.EnumFail("chain", "as-timeout/false-negative/"+shape, fmt.Sprintf("recipe %s: errors.As(*RequestTimeoutError)=false", recipe), map[string]any{"recipe": recipe})
			}
			if !hasRTE && gotAs {
				c.EnumFail("chain", "as-timeout/false-positive/"+shape, fmt.Sprintf("recipe %s: errors.As(*RequestTimeoutError)=true without any in the chain", recipe), map[string]any{"recipe": recipe})
			}
			for _, t := range bases {
				got := errors.Is(chain, t.err)
				evals++
				inChain := t.err == b.err
				switch {
				case !inChain:
					// never report a sentinel that is not in the chain
					if got {
						c.EnumFail("chain", "is/false-positive/"+shape, fmt.Sprintf("recipe %s: errors.Is(target %s)=true although %s is not in the chain", recipe, t.name, t.name), map[string]any{"recipe": recipe, "target": t.name})
					}
				case opaque:
					// RequestTimeoutError documents no Unwrap (the statement only asks that it be
					// identifiable, errors.As above) and the legacy wrapper is foreign. What lies
					// beneath them is neither required nor forbidden to be found.
					c.Res.Distinct++
				default:
					// base reachable through library wrappers, %w and ConnectionError (documented Unwrap)
					if len(ws) > 0 {
						c.Res.Distinct++
					}
					if !got {
						c.EnumFail("chain", "is/false-negative/"+shape, fmt.Sprintf("recipe %s: errors.Is(target %s)=false although it is the cause at the bottom of the chain", recipe, t.name), map[string]any{"recipe": recipe, "target": t.name})
					}
				}
			}
			if c.Shard == 0 && len(ws) == 3 && ws[0] == c19WFmt && ws[1] == c19WRetry && ws[2] == c19WLib && (b.name == "ErrClosedTransport" || b.name == "io.EOF") {
				c.Sample(map[string]any{"part": "chain", "recipe": recipe, "error_string": chain.Error(), "is_base": errors.Is(chain, b.err), "is_ErrNotConnected": errors.Is(chain, mqtt.ErrNotConnected)})
			}
		}
	}
	c.Res.Evaluations += evals
	if c.Res.Parts == nil {
		c.Res.Parts = map[string]any{}
	}
	c.Res.Parts["chain_evaluations"] = evals
}

// ---------------------------------------------------------------------------------------------
// part "retry"

const (
	c19PubQ1 = iota
	c19PubQ2
	c19Sub
	c19Unsub
)

var c19KindNames = [...]string{"publish-qos1", "publish-qos2", "subscribe", "unsubscribe"}

const (
	c19StepWriteErr     = iota // the request packet's Write returns an error
	c19StepPeerClose           // request written; peer closes while the caller waits for the acknowledgement
	c19StepCancel              // request written; caller's context cancelled while waiting
	c19StepRelWriteErr         // QoS2: PUBREC received, the PUBREL Write returns an error
	c19StepRelPeerClose        // QoS2: PUBREL written; peer closes while waiting for PUBCOMP
	c19StepRelCancel           // QoS2: PUBREL written; context cancelled while waiting for PUBCOMP
)

var c19StepNames = [...]string{"write-error", "peer-close-waiting-ack", "cancel-waiting-ack", "pubrel-write-error", "peer-close-waiting-pubcomp", "cancel-waiting-pubcomp"}

var c19SubFilters = []string{"t/a", "t/+/b"}
var c19SubQoS = []byte{1, 2}

const c19Topic = "c19/topic"

var c19Payload = []byte("c19-payload")

// c19Others are sentinels that are in no error chain produced by these scenarios.
func c19Others() []c19Base {
	return []c19Base{
		{"ErrNotConnected", mqtt.ErrNotConnected},
		{"ErrInvalidPacket", mqtt.ErrInvalidPacket},
		{"ErrInvalidPacketLength", mqtt.ErrInvalidPacketLength},
		{"ErrPayloadLenExceeded", mqtt.ErrPayloadLenExceeded},
		{"ErrInvalidQoS", mqtt.ErrInvalidQoS},
		{"ErrInvalidSubAck", mqtt.ErrInvalidSubAck},
		{"ErrClosedClient", mqtt.ErrClosedClient},
		{"ErrPingTimeout", mqtt.ErrPingTimeout},
		{"ErrConnectionFailed", mqtt.ErrConnectionFailed},
		{"io.EOF", io.EOF},
		{"context.DeadlineExceeded", vctx.DeadlineExceeded},
	}
}

func c19Issue(kind int, cli *mqtt.BaseClient, ctx vctx.Context) error {
	switch kind {
	case c19PubQ1:
		return cli.Publish(ctx, &mqtt.Message{Topic: c19Topic, QoS: mqtt.QoS1, Retain: true, Payload: append([]byte{}, c19Payload...)})
	case c19PubQ2:
		return cli.Publish(ctx, &mqtt.Message{Topic: c19Topic, QoS: mqtt.QoS2, Retain: false, Payload: append([]byte{}, c19Payload...)})
	case c19Sub:
		_, err := cli.Subscribe(ctx, mqtt.Subscription{Topic: c19SubFilters[0], QoS: mqtt.QoS(c19SubQoS[0])}, mqtt.Subscription{Topic: c19SubFilters[1], QoS: mqtt.QoS(c19SubQoS[1])})
		return err
	default:
		return cli.Unsubscribe(ctx, c19SubFilters...)
	}
}

// c19SameRequest compares a packet written by the fresh client with the original request packet.
// It returns "" when it is the same request (retransmission rules of MQTT 4.4 for PUBLISH).
func c19SameRequest(kind int, orig, got *env.Packet) string {
	switch kind {
	case c19PubQ1, c19PubQ2:
		if got.Type != env.PUBLISH {
			return "kind"
		}
		switch {
		case got.Topic != orig.Topic:
			return "topic"
		case !bytes.Equal(got.Payload, orig.Payload):
			return "payload"
		case got.QoS != orig.QoS:
			return "qos"
		case got.Retain != orig.Retain:
			return "retain"
		case got.ID != orig.ID:
			return "packet-id"
		case !got.Dup:
			return "dup-not-set"
		}
	case c19Sub:
		if got.Type != env.SUBSCRIBE {
			return "kind"
		}
		if strings.Join(got.Filters, "\x00") != strings.Join(orig.Filters, "\x00") {
			return "filters"
		}
		if !bytes.Equal(got.QoSs, orig.QoSs) {
			return "requested-qos"
		}
	case c19Unsub:
		if got.Type != env.UNSUBSCRIBE {
			return "kind"
		}
		if strings.Join(got.Filters, "\x00") != strings.Join(orig.Filters, "\x00") {
			return "filters"
		}
	}
	return ""
}

func c19Pkts(ps []*env.Packet) string {
	var s []string
	for _, p := range ps {
		s = append(s, p.String())
	}
	return "[" + strings.Join(s, " ") + "]"
}

type c19Flag struct{ done bool }

func (f *c19Flag) set() { f.done = true; vrt.Event(unsafe.Pointer(f), 1) }

func c19Retry(c *Ctx) {
	p, sel := 2, 0
	if c.Thorough() {
		p, sel = 3, 1
	}
	c.Bound("retry.cases", "request in {Publish QoS1, Publish QoS2, Subscribe(2 filters), Unsubscribe(2 filters)} x failure step in {request write error, peer closes while waiting for the ack, context cancelled while waiting for the ack; QoS2 also: PUBREL write error, peer closes / context cancelled while waiting for PUBCOMP}; then Retry(ctx, fresh connected client) and the fresh peer acknowledges")
	c.Bound("retry.schedules", fmt.Sprintf("all interleavings of caller, reader tasks and peer with <= %d preemptions and <= %d non-first select cases; packet id counters of the two clients start at different values", p, sel))
	for kind := c19PubQ1; kind <= c19Unsub; kind++ {
		for step := c19StepWriteErr; step <= c19StepRelCancel; step++ {
			if step >= c19StepRelWriteErr && kind != c19PubQ2 {
				continue
			}
			kind, step := kind, step
			name := fmt.Sprintf("C19/retry/%s/%s/P%d", c19KindNames[kind], c19StepNames[step], p)
			var net *env.Net
			var lastErr string
			sc := &vrt.Scenario{
				Name:    name,
				Bound:   vrt.Budget{P: p, S: sel},
				Cfg:     vrt.Config{Horizon: int64(60e9)},
				Body:    func() { net, lastErr = c19RetryBody(kind, step) },
				Observe: func() uint64 { return net.TraceHash() ^ vrt.HashString(lastErr) },
			}
			c.Explore(sc)
			if net != nil && (step == c19StepRelPeerClose || (kind == c19Sub && step == c19StepWriteErr)) {
				c.Sample(map[string]any{"part": "retry", "scenario": name, "returned_error": lastErr, "wire": net.TraceStrings()})
			}
		}
	}
}

func c19RetryBody(kind, step int) (*env.Net, string) {
	tag := c19KindNames[kind] + "/" + c19StepNames[step]
	net := env.NewNet()
	// the two clients draw their first packet identifiers from different regions
	nrand := int32(0)
	vrt.W.RandInt31n = func(n int32) int32 { nrand++; return 100 * nrand }

	s1 := env.NewScript(net)
	s1.AutoConnAck = true
	switch step {
	case c19StepWriteErr:
		s1.FailFrom = 2 // CONNECT is packet 1
	case c19StepRelWriteErr:
		s1.FailFrom = 3 // CONNECT, PUBLISH, then PUBREL fails
	}
	bg := vctx.Background()
	cli1 := &mqtt.BaseClient{Transport: s1.Conn}
	if _, err := cli1.Connect(bg, "c19"); err != nil {
		vrt.Failf("retry/setup", "connect: %v", err)
		return net, ""
	}
	ctx, cancel := vctx.WithCancel(bg)
	defer cancel()
	var rerr error
	fin := &c19Flag{}
	vrt.Go("request", func() { rerr = c19Issue(kind, cli1, ctx); fin.set() })
	vrt.Settle()

	// the original request packet as the independent decoder sees it (also when its Write failed)
	var orig *env.Packet
	if len(s1.Conn.Attempts) >= 2 {
		orig, _, _ = env.Decode(s1.Conn.Attempts[1])
	}
	if orig == nil {
		vrt.Failf("retry/setup", "%s: no request packet was written (attempts %d)", tag, len(s1.Conn.Attempts))
		return net, ""
	}
	if step != c19StepWriteErr && fin.done {
		vrt.Failf("retry/returned-without-ack/"+c19KindNames[kind], "%s: the call returned (%v) although nothing was acknowledged and nothing had failed", tag, rerr)
		return net, ""
	}
	if step >= c19StepRelWriteErr {
		s1.Send(env.EncAck(env.PUBREC, orig.ID))
		vrt.Settle()
		if step != c19StepRelWriteErr {
			if rel := s1.Last(env.PUBREL); rel == nil || rel.ID != orig.ID {
				vrt.Failf("retry/setup", "%s: no PUBREL(id %d) after PUBREC; client wrote %s", tag, orig.ID, c19Pkts(s1.Got))
				return net, ""
			}
			if fin.done {
				vrt.Failf("retry/returned-without-ack/"+c19KindNames[kind], "%s: the call returned (%v) before PUBCOMP", tag, rerr)
				return net, ""
			}
		}
	}
	var wantCause error
	var wantName string
	switch step {
	case c19StepWriteErr, c19StepRelWriteErr:
		wantCause, wantName = env.ErrLinkDown, "the transport's write error"
	case c19StepPeerClose, c19StepRelPeerClose:
		s1.Close()
		vrt.Settle()
		wantCause, wantName = mqtt.ErrClosedTransport, "ErrClosedTransport"
	case c19StepCancel, c19StepRelCancel:
		cancel()
		vrt.Settle()
		wantCause, wantName = ctx.Err(), "the caller context's error (context.Canceled)"
	}
	if !fin.done {
		vrt.Failf("retry/call-did-not-return/"+tag, "%s: the call is still blocked after the failure", tag)
		return net, ""
	}
	if rerr == nil {
		vrt.Failf("retry/nil-error/"+tag, "%s: the interrupted call returned nil", tag)
		return net, ""
	}
	lastErr := rerr.Error()
	if !errors.Is(rerr, wantCause) {
		vrt.Failf("retry/cause-not-inspectable/"+tag, "%s: errors.Is(err, %s) is false; err = %v", tag, wantName, rerr)
	}
	for _, o := range c19Others() {
		if errors.Is(rerr, o.err) {
			vrt.Failf("retry/unrelated-sentinel-reported/"+tag, "%s: errors.Is(err, %s) is true; err = %v", tag, o.name, rerr)
		}
	}
	if wantCause != mqtt.ErrClosedTransport && errors.Is(rerr, mqtt.ErrClosedTransport) && step != c19StepWriteErr && step != c19StepRelWriteErr {
		vrt.Failf("retry/unrelated-sentinel-reported/"+tag, "%s: errors.Is(err, ErrClosedTransport) is true although the connection is up; err = %v", tag, rerr)
	}
	retry, ok := rerr.(mqtt.ErrorWithRetry)
	if !ok {
		vrt.Failf("retry/no-retry-handle/"+tag, "%s: the returned error (%T: %v) does not implement ErrorWithRetry", tag, rerr, rerr)
		return net, lastErr
	}

	// a fresh connected client
	s2 := env.NewScript(net)
	s2.AutoConnAck = true
	cli2 := &mqtt.BaseClient{Transport: s2.Conn}
	if _, err := cli2.Connect(bg, "c19"); err != nil {
		vrt.Failf("retry/setup", "connect of the fresh client: %v", err)
		return net, lastErr
	}
	oldAttempts := len(s1.Conn.Attempts)
	var r2 error
	fin2 := &c19Flag{}
	vrt.Go("retry", func() { r2 = retry.Retry(bg, cli2); fin2.set() })
	vrt.Settle()
	got := s2.Got[1:] // after CONNECT
	if len(got) != 1 {
		vrt.Failf("retry/wrong-packets/"+tag, "%s: Retry made the fresh client write %s, want exactly one packet re-issuing the request %s (returned=%v err=%v)", tag, c19Pkts(got), orig, fin2.done, r2)
		return net, lastErr
	}
	first := got[0]
	afterRec := step >= c19StepRelWriteErr
	relOnly := step == c19StepRelPeerClose || step == c19StepRelCancel
	isRel := first.Type == env.PUBREL
	switch {
	case relOnly || (afterRec && isRel):
		// once PUBREL has been sent only PUBREL may follow [MQTT-4.3.3-1]; after a failed PUBREL
		// write either PUBREL or the PUBLISH retransmission re-issues the request
		if !isRel {
			vrt.Failf("retry/not-the-same-request/"+tag+"/publish-after-pubrel", "%s: Retry wrote %s; after PUBREL(id %d) had been sent only PUBREL may be re-sent", tag, first, orig.ID)
			return net, lastErr
		}
		if first.ID != orig.ID {
			vrt.Failf("retry/not-the-same-request/"+tag+"/packet-id", "%s: Retry wrote %s, want PUBREL(id %d)", tag, first, orig.ID)
			return net, lastErr
		}
	default:
		if d := c19SameRequest(kind, orig, first); d != "" {
			vrt.Failf("retry/not-the-same-request/"+tag+"/"+d, "%s: Retry wrote %s, the interrupted request was %s (%s differs)", tag, first, orig, d)
			return net, lastErr
		}
	}
	if len(s1.Conn.Attempts) != oldAttempts {
		vrt.Failf("retry/wrote-on-old-client/"+tag, "%s: Retry wrote on the old client's transport", tag)
	}
	if fin2.done {
		vrt.Failf("retry/returned-without-ack/"+tag, "%s: Retry returned (%v) before the fresh peer acknowledged", tag, r2)
		return net, lastErr
	}
	// the fresh peer acknowledges; the exchange completes on the fresh client
	switch {
	case isRel:
		s2.Send(env.EncAck(env.PUBCOMP, first.ID))
	case kind == c19PubQ1:
		s2.Send(env.EncAck(env.PUBACK, first.ID))
	case kind == c19PubQ2:
		s2.Send(env.EncAck(env.PUBREC, first.ID))
		vrt.Settle()
		g := s2.Got[1:]
		if len(g) != 2 || g[1].Type != env.PUBREL || g[1].ID != orig.ID {
			vrt.Failf("retry/wrong-packets/"+tag+"/after-pubrec", "%s: after PUBREC the fresh client wrote %s, want PUBREL(id %d)", tag, c19Pkts(g[1:]), orig.ID)
			return net, lastErr
		}
		s2.Send(env.EncAck(env.PUBCOMP, first.ID))
	case kind == c19Sub:
		s2.Send(env.EncSubAck(first.ID, c19SubQoS))
	case kind == c19Unsub:
		s2.Send(env.EncAck(env.UNSUBACK, first.ID))
	}
	vrt.Settle()
	if !fin2.done {
		vrt.Failf("retry/retry-did-not-complete/"+tag, "%s: Retry is still blocked after the fresh peer acknowledged; fresh client wrote %s", tag, c19Pkts(s2.Got[1:]))
		return net, lastErr
	}
	if r2 != nil {
		vrt.Failf("retry/retry-failed/"+tag, "%s: Retry returned %v although the fresh peer acknowledged", tag, r2)
	}
	want := 1
	if kind == c19PubQ2 && !isRel {
		want = 2
	}
	if n := len(s2.Got) - 1; n != want {
		vrt.Failf("retry/wrong-packets/"+tag+"/extra", "%s: the fresh client wrote %s in total", tag, c19Pkts(s2.Got[1:]))
	}
	return net, lastErr
}

// ---------------------------------------------------------------------------------------------
// part "timeout"

func c19Timeout(c *Ctx) {
	c.Bound("timeout.cases", "RetryClient{ResponseTimeout: 2s} over a connected BaseClient; request in {Publish QoS1, Publish QoS2, Subscribe, Unsubscribe}; the peer never answers; virtual time runs to quiescence; <= 1 preemption")
	for kind := c19PubQ1; kind <= c19Unsub; kind++ {
		kind := kind
		name := fmt.Sprintf("C19/timeout/%s/P1", c19KindNames[kind])
		var net *env.Net
		var seen []string
		sc := &vrt.Scenario{
			Name:  name,
			Bound: vrt.Budget{P: 1},
			Cfg:   vrt.Config{Horizon: int64(60e9)},
			Body: func() {
				net = env.NewNet()
				seen = nil
				s := env.NewScript(net)
				s.AutoConnAck = true
				var errs []error
				rc := &mqtt.RetryClient{ResponseTimeout: 2 * vtime.Second}
				rc.OnError = func(err error) {
					errs = append(errs, err)
					vrt.Event(unsafe.Pointer(rc), vrt.HashString(err.Error()))
				}
				bg := vctx.Background()
				rc.SetClient(bg, &mqtt.BaseClient{Transport: s.Conn})
				if _, err := rc.Connect(bg, "c19"); err != nil {
					vrt.Failf("timeout/setup", "connect: %v", err)
					return
				}
				var err error
				switch kind {
				case c19PubQ1:
					err = rc.Publish(bg, &mqtt.Message{Topic: c19Topic, QoS: mqtt.QoS1, Payload: c19Payload})
				case c19PubQ2:
					err = rc.Publish(bg, &mqtt.Message{Topic: c19Topic, QoS: mqtt.QoS2, Payload: c19Payload})
				case c19Sub:
					_, err = rc.Subscribe(bg, mqtt.Subscription{Topic: c19SubFilters[0], QoS: mqtt.QoS1})
				default:
					err = rc.Unsubscribe(bg, c19SubFilters[0])
				}
				if err != nil {
					vrt.Failf("timeout/setup", "request refused: %v", err)
					return
				}
				vrt.Quiesce()
				for _, e := range errs {
					seen = append(seen, e.Error())
				}
				if len(s.Got) < 2 {
					vrt.Failf("timeout/setup", "request was never written: %s", c19Pkts(s.Got))
					return
				}
				if len(errs) == 0 {
					vrt.Failf("timeout/no-error-reported/"+c19KindNames[kind], "ResponseTimeout expired (virtual time %v) but OnError was never called", vtime.Duration(vrt.Now()))
					return
				}
				var rte *mqtt.RequestTimeoutError
				if !errors.As(errs[0], &rte) {
					vrt.Failf("timeout/not-identifiable/"+c19KindNames[kind], "the error reported for the expired response timeout is not identifiable as *RequestTimeoutError: %T %v", errs[0], errs[0])
				}
			},
			Observe: func() uint64 { return net.TraceHash() ^ vrt.HashString(strings.Join(seen, "|")) },
		}
		c.Explore(sc)
		if kind == c19PubQ1 && net != nil {
			c.Sample(map[string]any{"part": "timeout", "scenario": name, "OnError": seen, "wire": net.TraceStrings()})
		}
	}
}

// c19TimeoutPing: which of the two endings a Ping through the retrying client reports. With
// ResponseTimeout set, Ping waits on a context derived from the caller's; the error must say which one
// ended: the caller's context error stays findable with errors.Is when the caller's context ended first
// (by cancellation or by its own, earlier deadline) and such an error is not a RequestTimeoutError;
// when ResponseTimeout expires first the error is identifiable as *RequestTimeoutError.
func c19TimeoutPing(c *Ctx) {
	c.Bound("timeout.ping", "RetryClient{ResponseTimeout: 2s}.Ping on a connected BaseClient whose peer never answers; caller context in {cancelled at 500ms, deadline 500ms, deadline 30s (ResponseTimeout first), Background}; <= 1 preemption")
	for _, how := range []string{"caller-cancel", "caller-deadline", "response-timeout-first", "response-timeout-bg"} {
		how := how
		name := "C19/timeout/ping/" + how + "/P1"
		var net *env.Net
		var seen string
		sc := &vrt.Scenario{
			Name:  name,
			Bound: vrt.Budget{P: 1},
			Cfg:   vrt.Config{Horizon: int64(60e9)},
			Body: func() {
				net = env.NewNet()
				seen = ""
				s := env.NewScript(net)
				s.AutoConnAck = true
				rc := &mqtt.RetryClient{ResponseTimeout: 2 * vtime.Second}
				bg := vctx.Background()
				rc.SetClient(bg, &mqtt.BaseClient{Transport: s.Conn})
				if _, err := rc.Connect(bg, "c19"); err != nil {
					vrt.Failf("timeout/setup", "connect: %v", err)
					return
				}
				pctx, pcancel := bg, func() {}
				switch how {
				case "caller-cancel":
					pctx, pcancel = vctx.WithCancel(bg)
				case "caller-deadline":
					pctx, pcancel = vctx.WithTimeout(bg, 500*vtime.Millisecond)
				case "response-timeout-first":
					pctx, pcancel = vctx.WithTimeout(bg, 30*vtime.Second)
				}
				ret := false
				var perr error
				vrt.Go("c19-ping", func() { perr = rc.Ping(pctx); ret = true })
				vrt.Sleep(int64(500 * vtime.Millisecond))
				if how == "caller-cancel" {
					pcancel()
				}
				vrt.Sleep(int64(5 * vtime.Second))
				vrt.Settle()
				defer pcancel()
				if !ret {
					// whether it returns at all is C11's / C18's matter
					return
				}
				if perr == nil {
					vrt.Failf("timeout/ping-success-without-pingresp/"+how, "Ping returned nil although the peer never answered")
					return
				}
				seen = perr.Error()
				var rte *mqtt.RequestTimeoutError
				isRTE := errors.As(perr, &rte)
				switch how {
				case "caller-cancel", "caller-deadline":
					ce := pctx.Err()
					if ce == nil || !errors.Is(perr, ce) {
						vrt.Failf("timeout/caller-context-error-lost/"+how, "the caller's context ended first (%v) but errors.Is(err, that) is false for the error Ping returned: %T %v", ce, perr, perr)
					} else if isRTE {
						vrt.Failf("timeout/reported-without-timeout/"+how, "ResponseTimeout (2 s) did not expire, the caller's context ended at 500 ms, but the error is a RequestTimeoutError: %v", perr)
					}
				default:
					if !isRTE {
						vrt.Failf("timeout/not-identifiable/ping/"+how, "ResponseTimeout expired first but the error Ping returned is not identifiable as *RequestTimeoutError: %T %v", perr, perr)
					}
				}
			},
			Observe: func() uint64 { return net.TraceHash() ^ vrt.HashString(seen) },
		}
		c.Explore(sc)
	}
}

// ---------------------------------------------------------------------------------------------
// part "reconnecting": errors seen through the reconnecting client

// c19Reconnecting: (a) every error the retrying client reports through OnError for an interrupted
// QoS>=1 publish / subscribe / unsubscribe still carries its retry handle and a transport-level
// cause, also when the interrupted transmission was itself a retransmission; (b) a Connect of the
// reconnecting client that is given up by its caller's context reports that context's error,
// whatever attempts failed before.
func c19Reconnecting(c *Ctx) {
	c.Bound("reconnecting.onerror", "ReconnectClient, workloads {QoS1, QoS2, subscribe, unsubscribe} x connection cut before/after the request is processed, F<=2 (so that retransmissions are interrupted again): every OnError value implements ErrorWithRetry and has ErrClosedTransport or io.EOF or the transport's own error in its chain")
	faults := env.FaultSet{LostClose: true, AckLost: true, WriteErr: true, OnlyTypes: map[byte]bool{env.PUBLISH: true, env.PUBREL: true, env.SUBSCRIBE: true, env.UNSUBSCRIBE: true}}
	for _, k := range []string{"p1", "p2", "sub", "unsub"} {
		q := rcReq{Kind: k, Phase: 'S'}
		switch k {
		case "p1", "p2":
			q.Tag = "m1"
		case "sub":
			q.Subs = []string{"a:1"}
		default:
			q.Subs = []string{"a"}
		}
		reqs := []rcReq{q}
		var r *rcRun
		sc := &vrt.Scenario{
			Name:  "C19/reconnecting/onerror/" + rcName(reqs),
			Bound: vrt.Budget{F: 2},
			Cfg:   vrt.Config{Horizon: int64(300e9)},
			Body: func() {
				rcExecuteInto(&rcCfg{Reqs: reqs, Faults: faults, KeepSession: true}, &r)
				for i, e := range r.onErr {
					var rt mqtt.ErrorWithRetry
					if !errors.As(e, &rt) {
						vrt.Failf("reconnecting/onerror-without-retry-handle/"+k, "OnError value #%d for the interrupted %s carries no retry handle (ErrorWithRetry): %T %v\n%s", i, k, e, e, r.summary())
					}
					if !errors.Is(e, mqtt.ErrClosedTransport) && !errors.Is(e, io.EOF) && !errors.Is(e, env.ErrLinkDown) && !errors.Is(e, env.ErrClosed) {
						vrt.Failf("reconnecting/onerror-cause-lost/"+k, "OnError value #%d for the interrupted %s has no transport-level cause in its chain: %v\n%s", i, k, e, r.summary())
					}
				}
			},
			Observe: func() uint64 { return r.net.TraceHash() },
		}
		c.Explore(sc)
	}

	c.Bound("reconnecting.connect", "ReconnectClient.Connect given up by its context (cancelled at 2.5 s / deadline 2.5 s) while every attempt fails by {dial error, refused CONNACK, peer closes before CONNACK, mixtures}: the returned error has the context's error in its chain; P<=1")
	scripts := [][]string{{"dial"}, {"refuse"}, {"close"}, {"dial", "refuse"}, {"refuse", "dial"}, {"close", "refuse"}}
	for _, sc0 := range scripts {
		for _, how := range []string{"cancel", "deadline"} {
			sc0, how := sc0, how
			var net *env.Net
			sc := &vrt.Scenario{
				Name:  fmt.Sprintf("C19/reconnecting/connect/%s/%s", strings.Join(sc0, "+"), how),
				Bound: vrt.Budget{P: 1},
				Cfg:   vrt.Config{Horizon: int64(60e9)},
				Body: func() {
					net = env.NewNet()
					n := 0
					dialer := mqtt.DialerFunc(func(vctx.Context) (*mqtt.BaseClient, error) {
						o := sc0[n%len(sc0)]
						n++
						if o == "dial" {
							return nil, errors.New("c19: dial refused")
						}
						s := env.NewScript(net)
						s.OnPacket = func(_ *env.Script, p *env.Packet) {
							if p.Type != env.CONNECT {
								return
							}
							if o == "refuse" {
								s.Conn.Send(env.EncConnAck(false, 5), "refused")
							}
							s.Conn.PeerClose("no session for you")
						}
						return &mqtt.BaseClient{Transport: s.Conn}, nil
					})
					rc, err := mqtt.NewReconnectClient(dialer, mqtt.WithReconnectWait(vtime.Second, vtime.Second))
					if err != nil {
						vrt.Failf("harness", "%v", err)
						return
					}
					var ctx vctx.Context
					var cancel func()
					if how == "deadline" {
						ctx, cancel = vctx.WithTimeout(vctx.Background(), 2500*vtime.Millisecond)
					} else {
						ctx, cancel = vctx.WithCancel(vctx.Background())
						vrt.Go("canceller", func() { vrt.Sleep(int64(2500 * vtime.Millisecond)); cancel() })
					}
					_, cerr := rc.Connect(ctx, "c19")
					if cerr == nil {
						vrt.Failf("harness", "Connect succeeded although every attempt fails")
					} else if ce := ctx.Err(); ce == nil || !errors.Is(cerr, ce) {
						vrt.Failf("reconnecting/connect-error-hides-context-error/"+how, "Connect was given up by its context (%v) but returned %v, in whose chain errors.Is does not find the context's error (attempts: %v)", ce, cerr, sc0)
					}
					cancel()
					vrt.Quiesce()
				},
				Observe: func() uint64 { return net.TraceHash() },
			}
			c.Explore(sc)
		}
	}
}
