//go:build verif

package main

// C06 part (c): a real BaseClient over the scripted peer.  After CONNACK the peer sends k in
// {0,1,2} well-formed PUBLISH QoS 0 packets, then ONE malformed packet, then closes the link.

import (
	"encoding/hex"
	"fmt"
	"strings"

	mqtt "github.com/at-wat/mqtt-go"
	"github.com/at-wat/mqtt-go/internal/verif/env"
	vctx "github.com/at-wat/mqtt-go/internal/verif/shim/context"
	"github.com/at-wat/mqtt-go/internal/verif/vrt"
)

// c06Input is one packet (or packet prefix) sent after the well-formed ones.
type c06Input struct {
	cat     string // category; part of violation keys
	sub     string // unique descriptor within the category (scenario name)
	b       []byte
	listed  bool   // malformed in a way the property statement lists => the link must end with an error
	needEOF bool   // truncation: the input is malformed only because EOF follows it
	want    string // substring the reference decoder's verdict must contain (self-check of the generator)
	split   int    // >0: deliver b[:split], let the client run, then b[split:]
}

func c06Frame(first byte, body ...byte) []byte {
	out := []byte{first}
	out = append(out, env.EncodeRemLen(len(body))...)
	return append(out, body...)
}

// c06Reference classifies an input with the independent decoder (plus the direction-of-flow
// column of MQTT 3.1.1 table 2.1: CONNECT, SUBSCRIBE, UNSUBSCRIBE, PINGREQ, DISCONNECT are never
// sent by a server).
func c06Reference(b []byte) string {
	p, _, err := env.Decode(b)
	if err == env.ErrIncomplete {
		return "truncated: incomplete packet"
	}
	if m, ok := err.(*env.Malformed); ok {
		return "malformed: " + m.Reason
	}
	if err != nil {
		return "error: " + err.Error()
	}
	switch p.Type {
	case env.CONNECT, env.SUBSCRIBE, env.UNSUBSCRIBE, env.PINGREQ, env.DISCONNECT:
		return "wrong-direction: " + env.TypeName(p.Type) + " is a client-to-server packet"
	}
	return "wellformed: " + p.String()
}

// c06NaiveLen decodes a length field without the 4-byte limit (what a decoder without the limit
// would announce); used only to route crash-prone inputs to the last shard.
func c06NaiveLen(b []byte) float64 {
	v, mult := 0.0, 1.0
	for _, x := range b {
		v += float64(x&127) * mult
		mult *= 128
		if x&128 == 0 {
			break
		}
	}
	return v
}

func c06Inputs(thorough bool) []c06Input {
	var ins []c06Input
	add := func(cat, sub string, b []byte, listed, needEOF bool, want string) {
		ins = append(ins, c06Input{cat: cat, sub: sub, b: b, listed: listed, needEOF: needEOF, want: want})
	}
	ackBody := []byte{0, 7}
	pubBody0 := []byte{0, 1, 'a', 'x', 'y'}
	pubBodyID := []byte{0, 1, 'a', 0, 7, 'x', 'y'}
	longPayload := make([]byte, 130)
	for i := range longPayload {
		longPayload[i] = byte('A' + i%26)
	}
	type valid struct {
		name string
		b    []byte
	}
	valids := []valid{
		{"CONNACK", env.EncConnAck(false, 0)},
		{"PUBLISHq0", env.EncPublish("a", []byte("xy"), 0, 0, false, false)},
		{"PUBLISHq1", env.EncPublish("a", []byte("xy"), 1, 7, false, false)},
		{"PUBLISHq2", env.EncPublish("a", []byte("xy"), 2, 7, false, false)},
		{"PUBACK", env.EncAck(env.PUBACK, 7)},
		{"PUBREC", env.EncAck(env.PUBREC, 7)},
		{"PUBREL", env.EncAck(env.PUBREL, 7)},
		{"PUBCOMP", env.EncAck(env.PUBCOMP, 7)},
		{"SUBACK", env.EncSubAck(7, []byte{0})},
		{"UNSUBACK", env.EncAck(env.UNSUBACK, 7)},
		{"PINGRESP", env.EncPingResp()},
		{"PUBLISHq0long", env.EncPublish("a", longPayload, 0, 0, false, false)},
	}

	// 1. truncated packet followed by EOF: a valid packet cut at every position
	for _, v := range valids {
		for cut := 1; cut < len(v.b); cut++ {
			if !thorough && len(v.b) > 20 && cut > 8 && cut != len(v.b)/2 && cut != len(v.b)-1 {
				continue // quick: the long PUBLISH is cut in the header, in the middle and before the last byte
			}
			add("truncated:"+v.name, fmt.Sprintf("cut%d", cut), append([]byte(nil), v.b[:cut]...), true, true, "truncated")
		}
	}

	// 2. remaining length field with more than 4 bytes (4, 5 and 6 continuation bytes)
	for _, fb := range []byte{0x30, 0xD0, 0x40, 0x20, 0x90} {
		for _, ncont := range []int{4, 5, 6} {
			for _, cb := range []byte{0x80, 0xFF} {
				for _, term := range []byte{0x00, 0x01, 0x7F} {
					b := []byte{fb}
					for i := 0; i < ncont; i++ {
						b = append(b, cb)
					}
					b = append(b, term)
					add("overlong-length", fmt.Sprintf("%s/cont%d/%x", env.TypeName(fb>>4), ncont, b), b, true, false, "longer than 4 bytes")
				}
			}
		}
	}

	// 2b. very long and non-terminating length fields (only continuation bytes until the peer stops)
	for _, fb := range []byte{0x30, 0xD0} {
		for _, ncont := range []int{5, 9, 12} {
			for _, cb := range []byte{0x80, 0xFF} {
				b := []byte{fb}
				for i := 0; i < ncont; i++ {
					b = append(b, cb)
				}
				add("overlong-length", fmt.Sprintf("%s/nonterminating%d/%x", env.TypeName(fb>>4), ncont, b), b, true, false, "longer than 4 bytes")
				if ncont > 6 {
					b1 := append(append([]byte(nil), b...), 0x01)
					add("overlong-length", fmt.Sprintf("%s/cont%d/%x", env.TypeName(fb>>4), ncont, b1), b1, true, false, "longer than 4 bytes")
				}
			}
		}
	}

	// 3. illegal reserved flags for every inbound type (valid body)
	validBody := map[byte][]byte{env.CONNACK: {0, 0}, env.PUBACK: ackBody, env.PUBREC: ackBody, env.PUBREL: ackBody, env.PUBCOMP: ackBody, env.SUBACK: {0, 7, 0}, env.UNSUBACK: ackBody, env.PINGRESP: {}}
	for _, t := range []byte{env.CONNACK, env.PUBACK, env.PUBREC, env.PUBREL, env.PUBCOMP, env.SUBACK, env.UNSUBACK, env.PINGRESP} {
		for f := byte(0); f < 16; f++ {
			if (t == env.PUBREL && f == 2) || (t != env.PUBREL && f == 0) {
				continue
			}
			add("illegal-flags:"+env.TypeName(t), fmt.Sprintf("flags%d", f), c06Frame(t<<4|f, validBody[t]...), true, false, "reserved flags")
		}
	}

	// 4. PUBLISH with QoS 3
	for _, f := range []byte{6, 7, 14, 15} {
		add("qos3", fmt.Sprintf("flags%d", f), c06Frame(0x30|f, pubBodyID...), true, false, "QoS 3")
	}

	// 5. reserved packet types 0 and 15, client-to-server types
	for _, t := range []byte{0, 15} {
		for _, f := range []byte{0, 2} {
			add(fmt.Sprintf("reserved-type:%d", t), fmt.Sprintf("flags%d/empty", f), c06Frame(t<<4|f), true, false, "reserved packet type")
			add(fmt.Sprintf("reserved-type:%d", t), fmt.Sprintf("flags%d/id", f), c06Frame(t<<4|f, ackBody...), true, false, "reserved packet type")
		}
	}
	add("client-only:CONNECT", "valid", c06Frame(0x10, 0, 4, 'M', 'Q', 'T', 'T', 4, 2, 0, 0, 0, 1, 'x'), true, false, "wrong-direction")
	add("client-only:SUBSCRIBE", "valid", c06Frame(0x82, 0, 7, 0, 1, 'a', 0), true, false, "wrong-direction")
	add("client-only:UNSUBSCRIBE", "valid", c06Frame(0xA2, 0, 7, 0, 1, 'a'), true, false, "wrong-direction")
	add("client-only:PINGREQ", "valid", c06Frame(0xC0), true, false, "wrong-direction")
	add("client-only:DISCONNECT", "valid", c06Frame(0xE0), true, false, "wrong-direction")
	add("client-only:PUBREL-flags0", "valid", c06Frame(0x60, ackBody...), true, false, "reserved flags")

	// 6. bodies shorter than the fixed fields
	for _, t := range []byte{env.PUBACK, env.PUBREC, env.PUBREL, env.PUBCOMP, env.UNSUBACK} {
		fb := t << 4
		if t == env.PUBREL {
			fb |= 2
		}
		add("short-body:"+env.TypeName(t), "len0", c06Frame(fb), true, false, "must be 2")
		add("short-body:"+env.TypeName(t), "len1", c06Frame(fb, 0), true, false, "must be 2")
	}
	add("short-body:SUBACK", "len0", c06Frame(0x90), true, false, "too short")
	add("short-body:SUBACK", "len1", c06Frame(0x90, 0), true, false, "too short")
	add("short-body:CONNACK", "len0", c06Frame(0x20), true, false, "must be 2")
	add("short-body:CONNACK", "len1", c06Frame(0x20, 0), true, false, "must be 2")
	add("short-body:CONNACK", "len3", c06Frame(0x20, 0, 0, 0), true, false, "must be 2")
	add("short-body:PUBLISH", "q1-no-id", c06Frame(0x32, 0, 1, 'a'), true, false, "too short")
	add("short-body:PUBLISH", "q1-half-id", c06Frame(0x32, 0, 1, 'a', 0), true, false, "too short")
	add("short-body:PUBLISH", "q2-no-id", c06Frame(0x34, 0, 1, 'a'), true, false, "too short")
	add("short-body:PUBLISH", "q2-half-id", c06Frame(0x34, 0, 1, 'a', 7), true, false, "too short")
	add("short-body:PUBLISH", "q0-empty-body", c06Frame(0x30), true, false, "too short")
	add("short-body:PUBLISH", "q0-half-topic-length", c06Frame(0x30, 0), true, false, "too short")
	add("short-body:PUBLISH", "q0-topic-length-5-body-1", c06Frame(0x30, 0, 5, 'a'), true, false, "exceeds remaining")
	add("short-body:PUBLISH", "q0-topic-length-1-body-0", c06Frame(0x30, 0, 1), true, false, "exceeds remaining")
	add("short-body:PUBLISH", "q1-topic-length-ffff", c06Frame(0x32, 0xFF, 0xFF, 'a', 0, 7), true, false, "exceeds remaining")

	// 7. U+0000 in the topic
	add("nul-in-topic", "q0-middle", c06Frame(0x30, 0, 3, 'a', 0, 'b', 'x'), true, false, "U+0000")
	add("nul-in-topic", "q0-only", c06Frame(0x30, 0, 1, 0), true, false, "U+0000")
	add("nul-in-topic", "q0-first", c06Frame(0x30, 0, 2, 0, 'a', 'x'), true, false, "U+0000")
	add("nul-in-topic", "q0-last", c06Frame(0x30, 0, 2, 'a', 0), true, false, "U+0000")
	add("nul-in-topic", "q1-middle", c06Frame(0x32, 0, 3, 'a', 0, 'b', 0, 7, 'x'), true, false, "U+0000")
	add("nul-in-topic", "q2-middle", c06Frame(0x34, 0, 3, 'a', 0, 'b', 0, 7, 'x'), true, false, "U+0000")

	// 8. NOT listed by the statement: only "no crash, no oversize read" is demanded
	un := func(sub string, b []byte) { add("unlisted", sub, b, false, false, "") }
	un("utf8-ff", c06Frame(0x30, 0, 1, 0xFF, 'x'))
	un("utf8-lone-continuation", c06Frame(0x30, 0, 1, 0x80))
	un("utf8-overlong-nul", c06Frame(0x30, 0, 2, 0xC0, 0x80))
	un("utf8-surrogate", c06Frame(0x30, 0, 3, 0xED, 0xA0, 0x80, 'x'))
	un("utf8-truncated-seq", c06Frame(0x32, 0, 2, 0xE2, 0x82, 0, 7))
	un("publish-q1-id0", c06Frame(0x32, 0, 1, 'a', 0, 0, 'x'))
	un("publish-q2-id0", c06Frame(0x34, 0, 1, 'a', 0, 0, 'x'))
	un("publish-q0-dup", c06Frame(0x38, pubBody0...))
	un("publish-empty-topic", c06Frame(0x30, 0, 0, 'x'))
	un("publish-wildcard-topic", c06Frame(0x30, 0, 1, '#'))
	un("puback-id0", c06Frame(0x40, 0, 0))
	un("connack-reserved-bit1", c06Frame(0x20, 2, 0))
	un("connack-reserved-bits", c06Frame(0x20, 0xFE, 0))
	un("connack-second", env.EncConnAck(false, 0))
	un("connack-second-refused", env.EncConnAck(false, 5))
	un("unsolicited-puback", env.EncAck(env.PUBACK, 7))
	un("unsolicited-pubrec", env.EncAck(env.PUBREC, 7))
	un("unsolicited-pubrel", env.EncAck(env.PUBREL, 7))
	un("unsolicited-pubcomp", env.EncAck(env.PUBCOMP, 7))
	un("unsolicited-suback", env.EncSubAck(7, []byte{0, 0x80}))
	un("unsolicited-unsuback", env.EncAck(env.UNSUBACK, 7))
	un("unsolicited-pingresp", env.EncPingResp())
	un("suback-code3", env.EncSubAck(7, []byte{3}))
	un("suback-no-codes", c06Frame(0x90, 0, 7))
	un("puback-len3", c06Frame(0x40, 0, 7, 0))
	un("pubrel-len3", c06Frame(0x62, 0, 7, 0))
	un("pingresp-len1", c06Frame(0xD0, 0))
	un("publish-q1-valid", c06Frame(0x32, pubBodyID...))
	un("publish-q2-valid", c06Frame(0x34, pubBodyID...))
	un("nonminimal-length", []byte{0xD0, 0x80, 0x00})
	un("max-length-field-truncated", []byte{0x30, 0xFF, 0xFF, 0xFF, 0x7F, 0, 1, 'a'})

	// thorough: every complete malformed packet is also delivered in two pieces, split at every position
	if thorough {
		n := len(ins)
		for i := 0; i < n; i++ {
			in := ins[i]
			if in.needEOF {
				continue
			}
			for s := 1; s < len(in.b); s++ {
				sp := in
				sp.split = s
				sp.sub = fmt.Sprintf("%s/split%d", in.sub, s)
				ins = append(ins, sp)
			}
		}
	}
	return ins
}

type c06StateEv struct {
	st  mqtt.ConnState
	err error
}

type c06Msg struct {
	topic, payload string
	qos            mqtt.QoS
}

// c06Run is what one execution observed.
type c06Run struct {
	net    *env.Net
	conn   *env.Conn
	states []c06StateEv
	got    []c06Msg
}

func c06ExpectedMsg(i int) c06Msg {
	return c06Msg{topic: fmt.Sprintf("t/%d", i), payload: fmt.Sprintf("payload-%d", i)}
}

func c06LinkState(cli *mqtt.BaseClient, r *c06Run) (errNil, doneOpen bool, closedEvs, closedNilErr int) {
	errNil = cli.Err() == nil
	idx, _ := vrt.Select(true, vrt.CaseRecv(cli.Done()))
	doneOpen = idx != 0
	for _, e := range r.states {
		if e.st == mqtt.StateClosed {
			closedEvs++
			if e.err == nil {
				closedNilErr++
			}
		}
	}
	return
}

func c06Body(in0 c06Input, k0 int, out **c06Run) func() {
	return func() {
		in, k := in0, k0 // per-execution copies (the body runs once per explored execution)
		r := &c06Run{}
		*out = r
		r.net = env.NewNet()
		s := env.NewScript(r.net)
		s.AutoConnAck = k >= 0
		if k < 0 {
			// CONNACK and the malformed bytes arrive back to back, before Connect has returned
			s.OnPacket = func(_ *env.Script, p *env.Packet) {
				if p.Type == env.CONNECT {
					s.Conn.Send(env.EncConnAck(false, 0), "")
					r.net.Trace = append(r.net.Trace, env.WireEvent{Conn: s.Conn.ID, Dir: '<', Raw: in.b, Note: in.cat + " (right behind CONNACK)"})
					s.Conn.Inject(in.b)
				}
			}
		}
		r.conn = s.Conn
		cli := &mqtt.BaseClient{
			Transport: s.Conn,
			ConnState: func(st mqtt.ConnState, err error) { r.states = append(r.states, c06StateEv{st, err}) },
		}
		// Behind the recording handler sits a ServeMux with wildcard filters, as applications have it:
		// whatever topic the peer chose goes through the library's dispatch code as well.
		mux := &mqtt.ServeMux{}
		for _, f := range []string{"#", "+/+", "+", "$SYS/#", "t/0", "a/+/c/#"} {
			if err := mux.Handle(f, mqtt.HandlerFunc(func(*mqtt.Message) {})); err != nil {
				vrt.Failf("c06:harness:mux", "ServeMux.Handle(%q): %v", f, err)
				return
			}
		}
		async := &mqtt.ServeAsync{Handler: mux}
		cli.Handle(mqtt.HandlerFunc(func(m *mqtt.Message) {
			r.got = append(r.got, c06Msg{topic: m.Topic, payload: string(m.Payload), qos: m.QoS})
			mux.Serve(m)
			async.Serve(m)
		}))
		if _, err := cli.Connect(vctx.Background(), "c06"); err != nil && k >= 0 {
			vrt.Failf("c06:harness:connect", "Connect over the scripted peer failed: %v", err)
			return
		}
		if k < 0 {
			k = 0
			in.split = 0
			goto sent
		}
		for i := 0; i < k; i++ {
			m := c06ExpectedMsg(i)
			s.Send(env.EncPublish(m.topic, []byte(m.payload), 0, 0, false, false))
		}
		if in.split > 0 {
			s.SendRaw(in.b[:in.split], in.cat+" (first piece)")
			vrt.Quiesce()
			s.SendRaw(in.b[in.split:], in.cat+" (second piece)")
		} else {
			s.SendRaw(in.b, in.cat)
		}
	sent:
		vrt.Quiesce()
		desc := fmt.Sprintf("after CONNACK, %d well-formed PUBLISH and then bytes % x [%s: %s]", k, in.b, in.cat, c06Reference(in.b))
		if in.listed && !in.needEOF {
			// a complete malformed packet ends the link by itself, not the EOF that follows
			errNil, doneOpen, closedEvs, _ := c06LinkState(cli, r)
			if errNil || doneOpen || closedEvs == 0 {
				vrt.Failf("c06:"+in.cat+":not-ended-by-malformed-packet",
					"%s the connection is still up while the peer keeps the link open: Err()=%v, Done() closed=%v, ConnState events=%v",
					desc, cli.Err(), !doneOpen, c06States(r))
			}
		}
		s.Close()
		vrt.Quiesce()
		if r.conn.MaxReadReq > c06MaxPacket {
			vrt.Failf("c06:oversize-read", "%s the client asked the transport to fill a buffer of %d bytes; the largest MQTT packet body is %d", desc, r.conn.MaxReadReq, c06MaxPacket)
		}
		if !in.listed {
			return
		}
		errNil, doneOpen, closedEvs, closedNilErr := c06LinkState(cli, r)
		if errNil {
			vrt.Failf("c06:"+in.cat+":err-nil", "%s and EOF: Err() is nil", desc)
		}
		if doneOpen {
			vrt.Failf("c06:"+in.cat+":done-open", "%s and EOF: Done() is not closed", desc)
		}
		if closedEvs != 1 {
			vrt.Failf("c06:"+in.cat+":closed-state-count", "%s and EOF: ConnState reported StateClosed %d times, want exactly once; events=%v", desc, closedEvs, c06States(r))
		} else if closedNilErr > 0 {
			vrt.Failf("c06:"+in.cat+":closed-state-nil-error", "%s and EOF: ConnState reported StateClosed with a nil error; events=%v", desc, c06States(r))
		}
		ok := len(r.got) >= k
		for i := 0; ok && i < k; i++ {
			if r.got[i] != c06ExpectedMsg(i) {
				ok = false
			}
		}
		if !ok {
			vrt.Failf("c06:"+in.cat+":preceding-messages", "%s and EOF: the handler received %v, want the %d preceding messages first", desc, r.got, k)
		}
	}
}

func c06States(r *c06Run) []string {
	var out []string
	for _, e := range r.states {
		out = append(out, fmt.Sprintf("%s(%v)", e.st, e.err))
	}
	return out
}

// c06ClientPart explores the client-level scenarios.  dangerous=false: every scenario except the
// crash-prone ones, sharded as usual.  dangerous=true: the crash-prone ones (a decoder without the
// 4-byte limit would announce more than 256 MiB), all in the last shard.
func c06ClientPart(c *Ctx, dangerous bool) {
	ins := c06Inputs(c.Thorough())
	if !dangerous {
		unlisted := 0
		for _, in := range ins {
			if !in.listed && in.split == 0 {
				unlisted++
			}
		}
		extra := "the long PUBLISH only in its header, middle and before its last byte; "
		if c.Thorough() {
			extra = "each complete packet also split in two deliveries at every position; "
		}
		c.Bound("c_client", fmt.Sprintf("real BaseClient over the scripted peer, default schedule (Budget{}): CONNACK, k in {0,1,2} well-formed PUBLISH QoS0, one of %d inputs (truncated valid packets of 12 kinds cut at every position; %slength fields with 4/5/6 continuation bytes x 5 types and with 5/9/12 continuation bytes, terminated or not; reserved flags of the 8 non-PUBLISH inbound types; QoS 3; types 0/15 and the 5 client-to-server types, PUBREL flags 0; bodies shorter than the fixed fields; U+0000 in the topic; %d inputs malformed only in ways the statement does not list, checked for no-crash/no-oversize-read only), then EOF", len(ins), extra, unlisted))
	}
	names := map[string]bool{}
	for idx := range ins {
		in := ins[idx]
		ref := c06Reference(in.b)
		if in.listed && (strings.HasPrefix(ref, "wellformed") || !strings.Contains(ref, in.want)) {
			c.Res.EngineError = fmt.Sprintf("C06 generator self-check: input %x of category %s is classified %q by the reference, want %q", in.b, in.cat, ref, in.want)
			return
		}
		isDangerous := in.cat == "overlong-length" && c06NaiveLen(in.b[1:]) > 1<<28
		for k := -1; k <= 2; k++ {
			k := k
			if k == -1 && (in.split > 0 || in.needEOF) {
				continue // k=-1: the malformed bytes travel in the same segment as CONNACK (complete packets only)
			}
			name := fmt.Sprintf("C06/client/%s/%s/k%d", in.cat, in.sub, k)
			if names[name] {
				c.Res.EngineError = "C06 generator self-check: duplicate scenario name " + name
				return
			}
			names[name] = true
			if c.Only == "" {
				if isDangerous != dangerous {
					continue
				}
				if dangerous {
					if !c06LastShard(c) {
						continue
					}
					for !c.Mine(c.scIndex) { // make c.Explore accept the scenario in this shard
						c.scIndex++
					}
				}
			} else if c.Only != name {
				continue
			}
			var run *c06Run
			sc := &vrt.Scenario{
				Name:   name,
				Params: map[string]any{"category": in.cat, "input_hex": hex.EncodeToString(in.b), "k": k, "split": in.split, "reference": ref},
				Bound:  vrt.Budget{S: c06BurstS(k)},
				Body:   c06Body(in, k, &run),
				Observe: func() uint64 {
					if run == nil || run.net == nil {
						return 0
					}
					return run.net.TraceHash()
				},
			}
			Announce("client:" + name + " input=" + hex.EncodeToString(in.b))
			before := c.Res.Scenarios
			c.Explore(sc)
			if c.Res.Scenarios > before {
				c06Add(c, "c_client_scenarios", 1)
				if in.listed {
					c06Add(c, "c_client_listed_malformed", 1)
				} else {
					c06Add(c, "c_client_nocrash_only", 1)
				}
				if k == 0 && !strings.HasPrefix(ref, "wellformed") {
					c.Res.Distinct++
				}
				if run != nil && run.net != nil && in.split == 0 && k == 2 && (in.sub == "cut3" || in.sub == "q0-middle") {
					c.Sample(map[string]any{"part": "c_client", "scenario": name, "reference": ref, "wire": run.net.TraceStrings(), "states": c06States(run), "handler_got": len(run.got)})
				}
			}
		}
	}
	Announce("")
}

func c06BurstS(k int) int {
	if k < 0 {
		return 1 // Connect's select may see the CONNACK and the closed connection at once
	}
	return 0
}
