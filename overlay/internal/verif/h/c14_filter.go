//go:build verif

package main

import (
	"fmt"
	"strings"

	mqtt "github.com/at-wat/mqtt-go"
	"github.com/at-wat/mqtt-go/internal/verif/vrt"
)

// C14 - topic filters validate/match per MQTT 3.1.1 section 4.7; ServeMux dispatches accordingly.
//
// Enumerator-only check (DESIGN 2.7): the "state space" is the input space.
//   part "valid":  every filter string over {a,b,+,#,/} up to the length bound: accepted <=> valid.
//   part "match":  every accepted filter x every topic over {a,b,/} up to the length bound.
//   part "mux":    every ordered list of <= 3 handlers from a pool of 8 filters x every topic.
//
// The reference below is written from the text of section 4.7 as a recursion over topic levels; it
// does not split strings into slices and shares no code or structure with filter.go.

func init() { register("C14", runC14) }

const c14FilterAlphabet = "ab+#/"
const c14TopicAlphabet = "ab/"

// c14Cut separates the first topic level from the rest. more reports whether a separator followed,
// i.e. whether at least one further level (possibly empty) exists. [MQTT 4.7.1.1: the separator
// divides levels; adjacent separators denote a zero length level.]
func c14Cut(s string) (level, rest string, more bool) {
	for i := 0; i < len(s); i++ {
		if s[i] == '/' {
			return s[:i], s[i+1:], true
		}
	}
	return s, "", false
}

// c14RefValid: [MQTT-4.7.3-1] at least one character; [MQTT-4.7.1-2] '#' either on its own or
// following a separator, and in either case the last character; [MQTT-4.7.1-3] '+' must occupy an
// entire level wherever it is used. It returns "" for a valid filter, else the rule broken.
func c14RefValid(f string) string {
	if len(f) == 0 {
		return "empty"
	}
	rest, more := f, true
	for more {
		var lvl string
		lvl, rest, more = c14Cut(rest)
		plus, hash := false, false
		for i := 0; i < len(lvl); i++ {
			switch lvl[i] {
			case '+':
				plus = true
			case '#':
				hash = true
			}
		}
		if plus && len(lvl) != 1 {
			return "plus-not-whole-level"
		}
		if hash && len(lvl) != 1 {
			return "hash-not-whole-level"
		}
		if hash && more {
			return "hash-not-last-level"
		}
	}
	return ""
}

// c14RefMatch decides whether the valid filter levels (f, fMore: another filter level exists in f)
// match the topic levels (t, tMore likewise). Level-wise recursion from section 4.7.1:
//   - '#' matches "the parent and any number of child levels": it matches whatever is left,
//     including nothing at all.
//   - '+' matches exactly one level (an empty one included).
//   - any other level must be equal, character by character.
//   - filter and topic must run out of levels together.
func c14RefMatch(f string, fHas bool, t string, tHas bool) bool {
	if !fHas {
		return !tHas
	}
	fl, fRest, fMore := c14Cut(f)
	if fl == "#" {
		return true
	}
	if !tHas {
		return false
	}
	tl, tRest, tMore := c14Cut(t)
	if fl != "+" && fl != tl {
		return false
	}
	return c14RefMatch(fRest, fMore, tRest, tMore)
}

func c14Matches(filter, topic string) bool { return c14RefMatch(filter, true, topic, true) }

// c14Strings calls fn for every string over alphabet with minLen <= length <= maxLen, in a fixed order.
func c14Strings(alphabet string, minLen, maxLen int, fn func(s string) bool) {
	buf := make([]byte, maxLen)
	idx := make([]int, maxLen)
	for n := minLen; n <= maxLen; n++ {
		for i := 0; i < n; i++ {
			idx[i] = 0
			buf[i] = alphabet[0]
		}
		for {
			if !fn(string(buf[:n])) {
				return
			}
			k := n - 1
			for k >= 0 {
				idx[k]++
				if idx[k] < len(alphabet) {
					buf[k] = alphabet[idx[k]]
					break
				}
				idx[k] = 0
				buf[k] = alphabet[0]
				k--
			}
			if k < 0 {
				break
			}
		}
	}
}

func c14Levels(s string) int { return strings.Count(s, "/") + 1 }

// c14Class is the minimal characteristic of a mismatching pair, used in violation keys.
func c14Class(filter, topic string) string {
	kind := "literal"
	switch {
	case strings.Contains(filter, "#") && strings.Contains(filter, "+"):
		kind = "hash+plus"
	case strings.Contains(filter, "#"):
		kind = "hash"
	case strings.Contains(filter, "+"):
		kind = "plus"
	}
	fl, tl := c14Levels(filter), c14Levels(topic)
	if strings.Contains(filter, "#") {
		fl-- // levels before '#'
	}
	rel := "same-depth"
	if tl < fl {
		rel = "topic-shorter"
	} else if tl > fl {
		rel = "topic-longer"
	}
	empty := ""
	if strings.HasPrefix(topic, "/") || strings.HasSuffix(topic, "/") || strings.Contains(topic, "//") {
		empty = "/empty-level"
	}
	return kind + "/" + rel + empty
}

var c14Pool = []string{"#", "a/#", "+/b", "a/+", "a/b", "", "a+", "#/b"}

func runC14(c *Ctx) {
	maxF, maxT := 6, 5
	if c.Thorough() {
		maxF, maxT = 10, 8
	}
	var topics []string
	c14Strings(c14TopicAlphabet, 1, maxT, func(s string) bool { topics = append(topics, s); return true })

	c.Bound("filters", fmt.Sprintf("all strings over {a,b,+,#,/} of length 0..%d (the empty string included)", maxF))
	c.Bound("topics", fmt.Sprintf("all strings over {a,b,/} of length 1..%d (%d topics; none starts with '$')", maxT, len(topics)))
	c.Bound("mux", fmt.Sprintf("every ordered list (with repetition) of 0..3 handlers from the pool %q x every topic", c14Pool))

	// ---- parts "valid" and "match"
	if !mqtt.VerifHasFilter {
		c.Note("C14: the white-box wrapper around newTopicFilter/Match does not compile against this tree; filters are compiled and matched through ServeMux.Handle / ServeMux.Serve instead")
	}
	var idx, nFilters, nValid, pairs int64
	stopped := false
	c14Strings(c14FilterAlphabet, 0, maxF, func(f string) bool {
		idx++
		if !c.Mine(idx) {
			return true
		}
		nFilters++
		if idx&0x3ff == 0 && c.Expired() {
			c.Res.Incomplete = append(c.Res.Incomplete, "C14/valid+match")
			stopped = true
			return false
		}
		why := c14RefValid(f)
		tf, err, pv := c14SafeNew(f)
		c.Res.Evaluations++
		if pv != "" {
			c.EnumFail("valid", "panic/newTopicFilter", fmt.Sprintf("newTopicFilter(%q) panicked: %s", f, pv), map[string]any{"filter": f})
			return true
		}
		if why != "" {
			c.Res.Distinct++
			if err == nil {
				c.EnumFail("valid", "accepted-invalid/"+why, fmt.Sprintf("filter %q is invalid per MQTT 4.7 (%s) but was accepted", f, why), map[string]any{"filter": f})
			}
			return true
		}
		if err != nil {
			c.EnumFail("valid", "rejected-valid", fmt.Sprintf("filter %q is valid per MQTT 4.7 but was rejected: %v", f, err), map[string]any{"filter": f})
			return true
		}
		nValid++
		wild := strings.ContainsAny(f, "+#")
		for _, t := range topics {
			want := c14Matches(f, t)
			got, pm := c14SafeMatch(tf, t)
			pairs++
			if pm != "" {
				c.EnumFail("match", "panic/Match", fmt.Sprintf("filter %q Match(%q) panicked: %s", f, t, pm), map[string]any{"filter": f, "topic": t})
				continue
			}
			if want && wild {
				c.Res.Distinct++
			}
			if got != want {
				dir := "false-negative"
				if got {
					dir = "false-positive"
				}
				c.EnumFail("match", dir+"/"+c14Class(f, t), fmt.Sprintf("filter %q topic %q: library Match=%v, MQTT 4.7 says %v", f, t, got, want), map[string]any{"filter": f, "topic": t})
			}
		}
		return true
	})
	c.Res.Evaluations += pairs
	if c.Res.Parts == nil {
		c.Res.Parts = map[string]any{}
	}
	c.Res.Parts["filters"] = nFilters
	c.Res.Parts["valid_filters"] = nValid
	c.Res.Parts["filter_topic_pairs"] = pairs
	if stopped {
		return
	}

	// ---- part "dollar": topic names beginning with '$' (system topics).  Section 4.7.2 exempts them
	// from filters whose first level is a wildcard and the statement is silent about it, so those pairs
	// are left out; for every other pair '$' is an ordinary character of a literal level.
	{
		maxD := 5
		if c.Thorough() {
			maxD = 6
		}
		c.Bound("dollar", fmt.Sprintf("filters over {$,a,+,#,/} of length 1..%d x topics over {$,a,/} of length 1..%d that begin with '$'; pairs whose filter begins with a wildcard level are not judged", maxD, maxD))
		var dtopics []string
		c14Strings("$a/", 1, maxD, func(s string) bool {
			if s[0] == '$' {
				dtopics = append(dtopics, s)
			}
			return true
		})
		var didx, dpairs int64
		c14Strings("$a+#/", 1, maxD, func(f string) bool {
			didx++
			if !c.Mine(didx) || c14RefValid(f) != "" {
				return true
			}
			if f[0] == '+' || f[0] == '#' {
				return true
			}
			tf, err, pv := c14SafeNew(f)
			if pv != "" || err != nil {
				c.EnumFail("dollar", "rejected-valid", fmt.Sprintf("filter %q is valid per MQTT 4.7 but was rejected: %v %s", f, err, pv), map[string]any{"filter": f})
				return true
			}
			for _, t := range dtopics {
				want := c14Matches(f, t)
				got, pm := c14SafeMatch(tf, t)
				dpairs++
				if want {
					c.Res.Distinct++
				}
				if pm != "" {
					c.EnumFail("dollar", "panic/Match", fmt.Sprintf("filter %q Match(%q) panicked: %s", f, t, pm), map[string]any{"filter": f, "topic": t})
				} else if got != want {
					c.EnumFail("dollar", fmt.Sprintf("dollar-topic/got-%v", got), fmt.Sprintf("filter %q topic %q: library Match=%v, level-wise rules say %v", f, t, got, want), map[string]any{"filter": f, "topic": t})
				}
			}
			return true
		})
		// a few longer names that look like features of later protocol versions ('$share/<group>/...' is
		// an ordinary literal prefix in MQTT 3.1.1)
		if c.Shard == 0 {
			for _, pr := range [][2]string{{"$share/g/a/+", "a/x"}, {"$share/g/a/+", "$share/g/a/x"}, {"$share/g/#", "$share/g"}, {"$share/g/", "$share/g/"}, {"$queue/a", "a"}, {"$queue/a", "$queue/a"}} {
				f, t := pr[0], pr[1]
				tf, err, pv := c14SafeNew(f)
				dpairs++
				if pv != "" || err != nil {
					c.EnumFail("dollar", "rejected-valid", fmt.Sprintf("filter %q is valid per MQTT 4.7 but was rejected: %v %s", f, err, pv), map[string]any{"filter": f})
					continue
				}
				want := c14Matches(f, t)
				if got, pm := c14SafeMatch(tf, t); pm != "" || got != want {
					c.EnumFail("dollar", fmt.Sprintf("dollar-topic/got-%v", got), fmt.Sprintf("filter %q topic %q: library Match=%v %s, level-wise rules say %v", f, t, got, pm, want), map[string]any{"filter": f, "topic": t})
				}
			}
		}
		c.Res.Evaluations += dpairs
		c.Res.Parts["dollar_topic_pairs"] = dpairs
	}

	// ---- part "mux"
	poolWhy := make([]string, len(c14Pool))
	for i, f := range c14Pool {
		poolWhy[i] = c14RefValid(f)
	}
	var lists [][]int
	lists = append(lists, []int{})
	for n := 1; n <= 3; n++ {
		cnt := 1
		for i := 0; i < n; i++ {
			cnt *= len(c14Pool)
		}
		for k := 0; k < cnt; k++ {
			l := make([]int, n)
			v := k
			for i := n - 1; i >= 0; i-- {
				l[i] = v % len(c14Pool)
				v /= len(c14Pool)
			}
			lists = append(lists, l)
		}
	}
	var muxCases int64
	muxSamples := 0
	for li, l := range lists {
		if !c.Mine(int64(li)) {
			continue
		}
		if c.Expired() {
			c.Res.Incomplete = append(c.Res.Incomplete, "C14/mux")
			return
		}
		mux := &mqtt.ServeMux{}
		var invoked []int
		hasInvalid := false
		mutate := li%2 == 1 // every other registration list uses handlers that rewrite what they receive
		names := make([]string, len(l))
		for pos, pi := range l {
			pos := pos
			names[pos] = c14Pool[pi]
			err := mux.Handle(c14Pool[pi], mqtt.HandlerFunc(func(m *mqtt.Message) {
				invoked = append(invoked, pos)
				// a handler owns what it receives; rewriting it must not change who else is invoked
				if mutate {
					m.Topic = "b/a"
					m.Payload = append(m.Payload[:0], 9)
				}
			}))
			if poolWhy[pi] != "" {
				hasInvalid = true
				if err == nil {
					c.EnumFail("mux", "handle-accepted-invalid/"+poolWhy[pi], fmt.Sprintf("ServeMux.Handle(%q) returned nil for an invalid filter (%s)", c14Pool[pi], poolWhy[pi]), map[string]any{"handlers": names[:pos+1]})
				}
			} else if err != nil {
				c.EnumFail("mux", "handle-rejected-valid", fmt.Sprintf("ServeMux.Handle(%q) returned %v for a valid filter", c14Pool[pi], err), map[string]any{"handlers": names[:pos+1]})
			}
		}
		for _, t := range topics {
			var want []int
			wildHit := false
			for pos, pi := range l {
				if poolWhy[pi] == "" && c14Matches(c14Pool[pi], t) {
					want = append(want, pos)
					if strings.ContainsAny(c14Pool[pi], "+#") {
						wildHit = true
					}
				}
			}
			invoked = invoked[:0]
			if pm := c14SafeServe(mux, t); pm != "" {
				c.EnumFail("mux", "panic/Serve", fmt.Sprintf("ServeMux%v.Serve(topic %q) panicked: %s", names, t, pm), map[string]any{"handlers": names, "topic": t})
				continue
			}
			muxCases++
			if hasInvalid || wildHit {
				c.Res.Distinct++
			}
			if fmt.Sprint(invoked) != fmt.Sprint(want) {
				key := "dispatch/wrong-set"
				if len(invoked) == len(want) {
					key = "dispatch/wrong-order"
				} else if hasInvalid {
					key = "dispatch/wrong-set-with-invalid-registration"
				}
				c.EnumFail("mux", key, fmt.Sprintf("handlers %q topic %q: invoked positions %v, want %v", names, t, invoked, want), map[string]any{"handlers": names, "topic": t})
			}
			if c.Shard == 0 && muxSamples < 2 && len(l) == 3 && hasInvalid && len(want) == 2 && l[0] != l[1] && l[1] != l[2] {
				muxSamples++
				c.Sample(map[string]any{"part": "mux", "handlers": names, "topic": t, "invoked_positions": append([]int{}, invoked...)})
			}
		}
	}
	c.Res.Evaluations += muxCases
	c.Res.Parts["mux_cases"] = muxCases

	// ---- part "reentrant": a handler that registers a further handler on the mux it is called from
	// (explored under the scheduler so that a self-deadlock is a verdict, not a hang)
	c.Bound("reentrant", "a ServeMux whose first handler registers a second handler on the same mux while it is being served; three messages (the first topic twice); every message after the registration must reach both handlers in registration order")
	{
		var calls []string
		sc := &vrt.Scenario{
			Name:  "C14/reentrant/handler-registers-handler",
			Bound: vrt.Budget{P: 1},
			Body: func() {
				calls = nil
				mux := &mqtt.ServeMux{}
				registered := false
				if err := mux.Handle("#", mqtt.HandlerFunc(func(m *mqtt.Message) {
					calls = append(calls, "first:"+m.Topic)
					if !registered {
						registered = true
						if err := mux.Handle("b/#", mqtt.HandlerFunc(func(m *mqtt.Message) { calls = append(calls, "second:"+m.Topic) })); err != nil {
							vrt.Failf("reentrant/handle-error", "Handle from inside a handler: %v", err)
						}
					}
				})); err != nil {
					vrt.Failf("reentrant/handle-error", "Handle: %v", err)
					return
				}
				mux.Serve(&mqtt.Message{Topic: "b/1"})
				mux.Serve(&mqtt.Message{Topic: "b/1"}) // the same topic again, right after the registration
				mux.Serve(&mqtt.Message{Topic: "b/2"})
				got := strings.Join(calls, " ")
				// the handler registered during the first dispatch may or may not see the first message
				if got != "first:b/1 first:b/1 second:b/1 first:b/2 second:b/2" && got != "first:b/1 second:b/1 first:b/1 second:b/1 first:b/2 second:b/2" {
					vrt.Failf("reentrant/dispatch", "handler invocations %q; every message after the registration must be handed to both handlers in registration order", got)
				}
			},
			Observe: func() uint64 { return vrt.HashString(strings.Join(calls, " ")) },
		}
		c.Explore(sc)
	}

	if c.Shard == 0 {
		for _, s := range [][2]string{{"a/#", "a"}, {"a/", "a"}, {"+/+", "/"}, {"a/+", "a/"}} {
			tf, err, _ := c14SafeNew(s[0])
			lib := false
			if err == nil {
				lib, _ = c14SafeMatch(tf, s[1])
			}
			c.Sample(map[string]any{"part": "match", "filter": s[0], "topic": s[1], "accepted": err == nil, "library": lib, "reference": c14Matches(s[0], s[1])})
		}
	}
}

// c14Filter is one compiled filter: the library's own topicFilter through the white-box wrapper,
// or -- when that wrapper group does not compile against the tree under check -- a ServeMux with one
// handler (Handle compiles the filter, Serve matches it), which is the public way to the same code.
type c14Filter struct {
	tf  []string
	mux *mqtt.ServeMux
	hit bool
}

func c14SafeNew(f string) (tf *c14Filter, err error, panicked string) {
	defer func() {
		if r := recover(); r != nil {
			panicked = fmt.Sprint(r)
		}
	}()
	tf = &c14Filter{}
	if mqtt.VerifHasFilter {
		tf.tf, err = mqtt.VerifNewTopicFilter(f)
		return
	}
	tf.mux = &mqtt.ServeMux{}
	err = tf.mux.Handle(f, mqtt.HandlerFunc(func(*mqtt.Message) { tf.hit = true }))
	return
}

func c14SafeMatch(tf *c14Filter, t string) (got bool, panicked string) {
	defer func() {
		if r := recover(); r != nil {
			panicked = fmt.Sprint(r)
		}
	}()
	if tf.mux == nil {
		return mqtt.VerifFilterMatch(tf.tf, t), ""
	}
	tf.hit = false
	tf.mux.Serve(&mqtt.Message{Topic: t})
	return tf.hit, ""
}

func c14SafeServe(mux *mqtt.ServeMux, t string) (panicked string) {
	defer func() {
		if r := recover(); r != nil {
			panicked = fmt.Sprint(r)
		}
	}()
	mux.Serve(&mqtt.Message{Topic: t, Payload: []byte{1}})
	return ""
}
