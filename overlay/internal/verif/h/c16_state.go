//go:build verif

package main

import (
	"errors"
	"fmt"
	"strings"
	"time"
	"unsafe"

	mqtt "github.com/at-wat/mqtt-go"
	"github.com/at-wat/mqtt-go/internal/verif/env"
	vctx "github.com/at-wat/mqtt-go/internal/verif/shim/context"
	"github.com/at-wat/mqtt-go/internal/verif/vrt"
)

// C16 — the state callback, Err() and Done() report what really happened to the connection.

func init() { register("C16", runC16) }

type c16Ev struct {
	state mqtt.ConnState
	err   error
	at    int // logical time (harness counter)
}

// c16Mon monitors one BaseClient.
type c16Mon struct {
	cli        *mqtt.BaseClient
	evs        []c16Ev
	clock      *int
	ackAt      int // accepting CONNACK delivered (logical time), -1 if none
	endAt      int // an ending event (peer close, local close, malformed, refused) was injected, -1 if none
	dStart     int // Disconnect call started, -1 if never
	dEnd       int
	errHealthy []string // Err() samples taken while healthy that were not nil
	// closedBeforeDisc: the harness waited for the connection to be torn down completely before it
	// called Disconnect (sequenced "end-first" order)
	closedBeforeDisc bool
}

func c16NewMon(clock *int) *c16Mon {
	return &c16Mon{clock: clock, ackAt: -1, endAt: -1, dStart: -1, dEnd: -1}
}

func (m *c16Mon) tick() int { *m.clock++; return *m.clock }

func (m *c16Mon) callback(s mqtt.ConnState, err error) {
	m.evs = append(m.evs, c16Ev{s, err, m.tick()})
	vrt.Event(unsafe.Pointer(m), uint64(s))
	if m.cli != nil {
		// an observer callback looks at the connection it is told about
		_, _, _ = m.cli.Done(), m.cli.Err(), m.cli.Stats()
	}
}

func (m *c16Mon) sampleHealthy(where string) {
	if m.endAt < 0 {
		if err := m.cli.Err(); err != nil {
			m.errHealthy = append(m.errHealthy, fmt.Sprintf("%s: %v", where, err))
		}
	}
}

func (m *c16Mon) String() string {
	var s []string
	for _, e := range m.evs {
		s = append(s, fmt.Sprintf("%v(%v)@%d", e.state, e.err, e.at))
	}
	return fmt.Sprintf("callbacks [%s] connack@%d end@%d disconnect@%d..%d Err()=%v", strings.Join(s, " "), m.ackAt, m.endAt, m.dStart, m.dEnd, m.cli.Err())
}

// judge applies the rules at quiescence. doneClosed: Done() is closed now.
func (m *c16Mon) judge(name string, doneClosed bool, ctx func() string) {
	fail := func(key, format string, a ...any) {
		vrt.Failf("c16/"+key, "%s: %s\n %s\n%s", name, fmt.Sprintf(format, a...), m.String(), ctx())
	}
	nA, nC, nD := 0, 0, 0
	closedAt, discAt := -1, -1
	var closedErr error
	for _, e := range m.evs {
		switch e.state {
		case mqtt.StateActive:
			nA++
			if m.ackAt < 0 || e.at < m.ackAt {
				fail("active-without-connack", "Active reported without an accepting CONNACK having been delivered")
			}
		case mqtt.StateClosed:
			nC++
			closedAt, closedErr = e.at, e.err
			if discAt >= 0 {
				fail("closed-after-disconnected", "Closed reported after Disconnected")
			}
		case mqtt.StateDisconnected:
			nD++
			discAt = e.at
		}
	}
	if nA > 1 {
		fail("active-twice", "Active reported %d times", nA)
	}
	if nC > 1 {
		fail("closed-twice", "Closed reported %d times", nC)
	}
	if nD > 1 {
		fail("disconnected-twice", "Disconnected reported %d times", nD)
	}
	if m.dStart >= 0 && nD != 1 {
		fail("disconnected-missing", "Disconnect was called but Disconnected was reported %d times", nD)
	}
	if m.dStart < 0 && nD != 0 {
		fail("disconnected-without-disconnect", "Disconnected reported although Disconnect was never called")
	}
	ended := m.endAt >= 0
	switch {
	case ended && m.dStart < 0:
		if nC != 1 {
			fail("closed-missing", "the connection ended unexpectedly but Closed was reported %d times", nC)
		} else if closedErr == nil {
			fail("closed-without-error", "Closed was reported with a nil error")
		} else if m.cli.Err() != closedErr {
			fail("closed-error-differs-from-err", "Closed carried %v but Err() returns %v", closedErr, m.cli.Err())
		}
	case m.dStart >= 0 && (!ended || m.dEnd >= 0 && m.dEnd < m.endAt):
		// graceful: Disconnect had completed before anything else happened to the connection
		if nC != 0 {
			fail("closed-on-graceful-disconnect", "Closed reported although the connection was ended by Disconnect")
		}
		if err := m.cli.Err(); err != nil {
			fail("err-after-graceful-disconnect", "Err() = %v after a graceful Disconnect", err)
		}
	case ended && m.dStart >= 0:
		// the ending event and the Disconnect call overlap, or the ending event came first: both
		// {Closed, then Disconnected} and {Disconnected only} are accepted
		if closedAt >= 0 && closedErr == nil {
			fail("closed-without-error", "Closed was reported with a nil error")
		}
		if closedAt >= 0 && m.cli.Err() != closedErr {
			fail("closed-error-differs-from-err", "Closed carried %v but Err() returns %v", closedErr, m.cli.Err())
		}
		if closedAt < 0 && m.endAt < m.dStart && m.closedBeforeDisc {
			fail("closed-missing", "the connection had ended before Disconnect was called but Closed was never reported")
		}
	}
	if (ended || m.dStart >= 0) != doneClosed {
		if doneClosed {
			fail("done-closed-on-live-connection", "Done() is closed although nothing ended the connection")
		} else {
			fail("done-open-on-ended-connection", "the connection has ended but Done() is not closed")
		}
	}
	if !ended {
		if err := m.cli.Err(); err != nil && m.dStart < 0 {
			fail("err-on-healthy-connection", "Err() = %v on a healthy connection", err)
		}
	}
	for _, s := range m.errHealthy {
		fail("err-on-healthy-connection", "Err() was not nil while the connection was healthy (%s)", s)
	}
}

func c16DoneClosed(cli *mqtt.BaseClient) bool {
	d := cli.Done()
	if d == nil {
		return false
	}
	i, _ := vrt.Select(true, vrt.CaseRecv(d))
	return i == 0
}

var errC16Close = errors.New("closing handshake failed")

// c16OnlyLeaf reports whether target is the only root cause in err's tree (an error that joins the
// real cause with the cleanup error still tells what ended the connection).
func c16OnlyLeaf(err, target error) bool {
	found, other := false, false
	var walk func(e error)
	walk = func(e error) {
		if e == nil {
			return
		}
		if e == target {
			found = true
			return
		}
		switch u := e.(type) {
		case interface{ Unwrap() []error }:
			for _, x := range u.Unwrap() {
				walk(x)
			}
		case interface{ Unwrap() error }:
			if in := u.Unwrap(); in != nil {
				walk(in)
				return
			}
			other = true
		default:
			other = true
		}
	}
	walk(err)
	return found && !other
}

func runC16(c *Ctx) {
	c16Base(c)
	c16Reconnecting(c)
}

// c16Base: BaseClient level; endings alone, sequenced and racing.
func c16Base(c *Ctx) {
	// "*-write-fails": the peer sends a QoS 1 / QoS 2 message and the client's acknowledgement
	// (PUBACK / PUBREC / the PUBCOMP after PUBREL) cannot be written any more
	endings := []string{"none", "peer-close", "local-close", "malformed", "puback-write-fails", "pubrec-write-fails", "pubcomp-write-fails"}
	disc := []string{"none", "disconnect"}
	orders := []string{"end-first", "disconnect-first", "racing"}
	connacks := []string{"accept", "refuse", "peer-closes-instead"}
	p := 1
	if c.Thorough() {
		p = 2
	}
	c.Bound("base", fmt.Sprintf("BaseClient: CONNACK %v x ending %v x Disconnect %v x order %v; endings racing with each other and with Connect; for endings other than a local Close (no Disconnect), Transport.Close alternatively returns an error; P<=%d S<=1", connacks, endings, disc, orders, p))
	for _, ca := range connacks {
		for _, e := range endings {
			for _, d := range disc {
				for _, o := range orders {
					if (e == "none" || d == "none") && o != "end-first" {
						continue
					}
					if ca != "accept" && (d != "none" || e != "none") && o != "racing" && !(e != "none" && d == "none") {
						continue
					}
					ca, e, d, o := ca, e, d, o
					var net *env.Net
					sc := &vrt.Scenario{
						Name:  fmt.Sprintf("C16/base/%s/%s/%s/%s", ca, e, d, o),
						Bound: vrt.Budget{P: p, S: 1},
						Cfg:   vrt.Config{Horizon: int64(60 * time.Second)},
						Body: func() {
							net = env.NewNet()
							s := env.NewScript(net)
							clock := 0
							m := c16NewMon(&clock)
							cli := &mqtt.BaseClient{Transport: s.Conn, ConnState: m.callback}
							m.cli = cli
							closeFails := false
							if d == "none" && e != "none" && e != "local-close" && ca == "accept" {
								// the transport's Close reports an error of its own (a closing handshake that fails on a dead link)
								if closeFails = vrt.Choose(vrt.KFree, 2, "Transport.Close succeeds / returns an error") == 1; closeFails {
									s.Conn.CloseErr = errC16Close
								}
							}
							defer func() {
								if err := cli.Err(); closeFails && err != nil && c16OnlyLeaf(err, errC16Close) {
									vrt.Failf("c16/err-is-not-what-ended-it", "CONNACK %s, ending %s: the connection was ended by the peer / a protocol error / a failing write, but Err() reports the error Transport.Close returned while cleaning up: %v\n %s", ca, e, err, m.String())
								}
							}()
							s.OnPacket = func(_ *env.Script, pk *env.Packet) {
								switch pk.Type {
								case env.CONNECT:
									switch ca {
									case "accept":
										s.Conn.Send(env.EncConnAck(false, 0), "")
										m.ackAt = m.tick()
									case "refuse":
										s.Conn.Send(env.EncConnAck(false, 5), "")
										s.Conn.PeerClose("refused")
										m.endAt = m.tick()
									case "peer-closes-instead":
										s.Conn.PeerClose("no CONNACK")
										m.endAt = m.tick()
									}
								case env.DISCONNECT:
									s.Conn.PeerClose("DISCONNECT received")
								}
							}
							applyEnd := func() {
								switch e {
								case "peer-close":
									vrt.Yield("peer closes")
									if m.endAt < 0 {
										m.endAt = m.tick()
									}
									s.Conn.PeerClose("scripted")
								case "local-close":
									if m.endAt < 0 {
										m.endAt = m.tick()
									}
									cli.Close()
								case "malformed":
									vrt.Yield("peer sends garbage")
									if m.endAt < 0 {
										m.endAt = m.tick()
									}
									s.Conn.Inject([]byte{0xF0, 0x00})
								case "puback-write-fails", "pubrec-write-fails":
									vrt.Yield("peer sends a message, then stops taking writes")
									if m.endAt < 0 {
										m.endAt = m.tick()
									}
									s.Conn.FailWrites = true
									q := byte(1)
									if e == "pubrec-write-fails" {
										q = 2
									}
									s.Conn.Send(env.EncPublish("t", []byte("x"), q, 7, false, false), "")
								case "pubcomp-write-fails":
									// PUBLISH q2 -> PUBREC goes through; with the PUBREL the link stops taking writes
									s.Conn.Send(env.EncPublish("t", []byte("x"), 2, 7, false, false), "")
									vrt.Settle()
									vrt.Yield("peer sends PUBREL, then stops taking writes")
									if m.endAt < 0 {
										m.endAt = m.tick()
									}
									s.Conn.FailWrites = true
									s.Conn.Send(env.EncAck(env.PUBREL, 7), "")
								}
							}
							applyDisc := func() {
								if d == "disconnect" {
									m.dStart = m.tick()
									cli.Disconnect(vctx.Background())
									m.dEnd = m.tick()
								}
							}
							connErr := error(nil)
							connected := false
							doneSeen, discAtDone := false, false
							var errAtDone error
							if o == "racing" && ca != "accept" || o == "racing" && e != "none" && d == "none" {
								// the ending races with Connect itself
								vrt.Go("connect", func() { _, connErr = cli.Connect(vctx.Background(), "c16"); connected = true })
								vrt.Go("ending", applyEnd)
								vrt.Quiesce()
							} else {
								_, connErr = cli.Connect(vctx.Background(), "c16")
								connected = true
								if connErr == nil {
									m.sampleHealthy("after Connect")
									// an observer that waits for Done() and then asks why
									vrt.GoDaemon("done-watch", func() {
										vrt.Recv(cli.Done())
										doneSeen, errAtDone, discAtDone = true, cli.Err(), m.dStart >= 0
									})
								}
								switch o {
								case "end-first":
									applyEnd()
									vrt.Settle()
									m.closedBeforeDisc = e != "none"
									if connErr == nil {
										applyDisc()
									}
								case "disconnect-first":
									if connErr == nil {
										applyDisc()
									}
									vrt.Settle()
									applyEnd()
								case "racing":
									vrt.Go("ending", applyEnd)
									if connErr == nil {
										vrt.Go("disconnect", applyDisc)
									}
								}
								vrt.Quiesce()
							}
							_ = connected
							ctx := func() string { return "wire:\n  " + strings.Join(net.TraceStrings(), "\n  ") }
							if ca != "accept" && connErr == nil && m.endAt >= 0 && e == "none" {
								vrt.Failf("c16/connect-succeeded-without-connack", "Connect returned nil although no accepting CONNACK was sent\n%s", ctx())
							}
							m.judge(fmt.Sprintf("CONNACK %s, ending %s, %s, %s", ca, e, d, o), c16DoneClosed(cli), ctx)
							if doneSeen && errAtDone == nil && !discAtDone {
								vrt.Failf("c16/done-closed-while-err-nil", "an observer woken by Done() read Err() == nil although the connection ended without Disconnect having been called (CONNACK %s, ending %s, %s, %s)\n %s\n%s", ca, e, d, o, m.String(), ctx())
							}
						},
						Observe: func() uint64 { return net.TraceHash() },
					}
					c.Explore(sc)
				}
			}
		}
	}
}

// c16Reconnecting: connections managed by the reconnecting client with keep-alive.
func c16Reconnecting(c *Ctx) {
	interval, timeout := 10*time.Second, 3*time.Second
	f := 1
	if c.Thorough() {
		f = 2
	}
	faults := env.FaultSet{GoSilent: true, LostClose: true, WriteErr: true, OnlyTypes: map[byte]bool{env.PUBLISH: true, env.PINGREQ: true}}
	type wl struct {
		name string
		reqs []rcReq
		disc bool
	}
	wls := []wl{
		{"idle", nil, false},
		{"pub", []rcReq{{Kind: "p1", Tag: "m1", Phase: 'S'}}, false},
		{"pub+slow-onerror", []rcReq{{Kind: "p1", Tag: "m1", Phase: 'S'}}, false}, // OnError takes 2.5 s: the next connection exists before the failed task has finished
		{"pub+disconnect", []rcReq{{Kind: "p1", Tag: "m1", Phase: 'S'}}, true},
		{"idle+disconnect", nil, true},
		{"pub-late+disconnect", []rcReq{{Kind: "p1", Tag: "m1", Phase: 'T'}}, true},
	}
	c.Bound("reconnecting", fmt.Sprintf("ReconnectClient with PingInterval %v / Timeout %v: workloads idle / one QoS 1 publish / publish after 15 s, optionally a final Disconnect at 45 s / exactly on the keep-alive tick at 40 s / 1 ns before / after it; faults %+v (peer close, failing write, peer silent => keep-alive timeout; only the last may be reported as a ping timeout) F<=%d; every BaseClient handed out by the dialer is monitored; virtual time runs to 75 s (several keep-alive intervals past every reconnect); S<=1 P<=1 T<=1 (T: two timers due at the same instant may fire in either order relative to the tasks they wake; time itself stays exact)", interval, timeout, faults, f))
	discInstants := []time.Duration{45 * time.Second, 40 * time.Second, 40*time.Second - 1, 40*time.Second + 1}
	for _, w := range wls {
		for di, discAt := range discInstants {
			if !w.disc && di > 0 {
				continue
			}
			w, discAt := w, discAt
			var r *rcRun
			sc := &vrt.Scenario{
				Name:  fmt.Sprintf("C16/reconnecting/%s/disconnect@%v", w.name, discAt),
				Bound: vrt.Budget{F: f, S: 1, P: 1, T: 1, Total: f + 1},
				Cfg:   vrt.Config{Horizon: int64(75 * time.Second), DueTimers: true},
				Body: func() {
					discStart, discEnd := int64(-1), int64(-1)
					cfg := &rcCfg{Reqs: w.reqs, Faults: faults, KeepSession: true, PingInterval: interval, ConnTimeout: timeout}
					if strings.Contains(w.name, "slow-onerror") {
						cfg.SlowOnError = 2500 * time.Millisecond
					}
					if w.disc {
						cfg.AfterConnect = func(r *rcRun) {
							vrt.Go("disconnector", func() {
								// between two pings, exactly on a keep-alive tick, or just around it
								vrt.Sleep(int64(discAt))
								discStart = vrt.Now()
								r.rc.Disconnect(vctx.Background())
								discEnd = vrt.Now()
							})
						}
					}
					rcExecuteInto(cfg, &r)
					if !r.connectOK {
						return
					}
					ctx := func() string { return r.summary() }
					for i, b := range r.bases {
						cn := r.net.Conns[i]
						clock := 0
						m := c16NewMon(&clock)
						m.cli = b
						// rebuild the monitor from the recorded callbacks and the wire trace (times in ms)
						for _, e := range r.net.Trace {
							if e.Conn == cn.ID && e.Dir == '<' && e.Pkt != nil && e.Pkt.Type == env.CONNACK && e.Pkt.ReturnCode == 0 && m.ackAt < 0 {
								m.ackAt = int(e.T / 1e6)
							}
						}
						for _, s := range r.states {
							if s.Conn == cn.ID {
								m.evs = append(m.evs, c16Ev{s.State, s.Err, int(s.T / 1e6)})
							}
						}
						sil := r.broker.SilentSince(cn.ID)
						// why did the link end? (a peer close caused by the client's own DISCONNECT is not an ending event)
						for _, e := range r.net.Trace {
							if e.Conn == cn.ID && e.Dir == '!' && strings.HasPrefix(e.Note, "closed by peer") {
								if !strings.Contains(e.Note, "DISCONNECT received") {
									m.endAt = int(e.T / 1e6)
								}
								break
							}
						}
						isLast := i == len(r.bases)-1
						// The application's Disconnect addresses whatever connection the client holds at
						// that moment: the one on which the DISCONNECT packet was attempted.  (A Disconnect
						// that coincides with a redial can address the connection that has just ended
						// while the loop is already establishing the next one.)
						addressed := false
						for _, e := range r.net.Trace {
							if e.Conn == cn.ID && e.Dir == '>' && e.Pkt != nil && e.Pkt.Type == env.DISCONNECT {
								addressed = true
							}
						}
						if discStart >= 0 && !addressed && isLast && int64(m.ackAt)*1e6 >= discStart {
							// established while Disconnect was already under way and never addressed by it:
							// the statement says nothing about such a connection (it stays up; see DESIGN 9.3)
							continue
						}
						if discStart >= 0 && (addressed || isLast) {
							m.dStart, m.dEnd = int(discStart/1e6), int(discEnd/1e6)
						}
						if m.endAt < 0 && sil >= 0 {
							// a silent broker ends the connection only when the keep-alive gives up; if the
							// application disconnects before that, the connection ended gracefully
							if cn.ClosedAt >= 0 && (m.dStart < 0 || cn.ClosedAt < discStart) {
								m.endAt = int(cn.ClosedAt / 1e6)
							}
						}
						if sil >= 0 && cn.ClosedAt < 0 {
							continue // silence began less than interval+timeout before the horizon
						}
						if !isLast && m.endAt < 0 {
							// an earlier connection that was given up for a reason the model did not inject
							vrt.Failf("c16/healthy-connection-replaced", "connection %d was replaced although nothing ended it\n %s\n%s", cn.ID, m.String(), ctx())
							continue
						}
						if sil < 0 {
							// the broker answered every PINGREQ that reached it: whatever ended this connection, no ping timed out
							for _, e := range m.evs {
								if e.err != nil && errors.Is(e.err, mqtt.ErrPingTimeout) {
									vrt.Failf("c16/ping-timeout-reported-without-timeout", "connection %d: %v reported with %v although no PINGREQ was left unanswered (the link ended otherwise)\n %s\n%s", cn.ID, e.state, e.err, m.String(), ctx())
								}
							}
						}
						m.judge(fmt.Sprintf("connection %d of %d (%s)", cn.ID, len(r.bases), w.name), c16DoneClosed(b), ctx)
					}
				},
				Observe: func() uint64 { return r.net.TraceHash() },
			}
			c.Explore(sc)
			if r != nil && len(r.broker.FaultLog) > 0 {
				c.Sample(map[string]any{"workload": w.name, "faults": r.broker.FaultLog, "states": fmt.Sprint(r.states), "wire": r.net.TraceStrings()})
			}
		}
	}
}
