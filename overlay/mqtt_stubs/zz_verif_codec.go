//go:build verif

package mqtt

// Stub used when the white-box wrapper group of the same file name does not compile against the
// tree under check.

import "io"

const VerifHasCodec = false

func VerifPack(packetType byte, contents ...[]byte) []byte {
	panic("verif: codec wrappers unavailable")
}
func VerifRemainingLength(n int) []byte { panic("verif: codec wrappers unavailable") }
func VerifReadPacket(r io.Reader) (byte, byte, []byte, error) {
	panic("verif: codec wrappers unavailable")
}
func VerifPackPublish(m *Message) []byte { panic("verif: codec wrappers unavailable") }
func VerifPackConnect(level ProtocolLevel, clean bool, keepAlive uint16, clientID, user, pass string, will *Message) []byte {
	panic("verif: codec wrappers unavailable")
}
func VerifPackSubscribe(id uint16, subs []Subscription) []byte {
	panic("verif: codec wrappers unavailable")
}
func VerifPackUnsubscribe(id uint16, topics []string) []byte {
	panic("verif: codec wrappers unavailable")
}
func VerifPackPubAck(id uint16) []byte  { panic("verif: codec wrappers unavailable") }
func VerifPackPubRec(id uint16) []byte  { panic("verif: codec wrappers unavailable") }
func VerifPackPubRel(id uint16) []byte  { panic("verif: codec wrappers unavailable") }
func VerifPackPubComp(id uint16) []byte { panic("verif: codec wrappers unavailable") }
func VerifParse(ptype byte, flag byte, contents []byte) (any, error) {
	panic("verif: codec wrappers unavailable")
}
