//go:build verif

package mqtt

// Stub used when the white-box wrapper group of the same file name does not compile against the
// tree under check.

import "fmt"

const VerifHasErrors = false

// Plain %w wrapping: enough for the scripted keep-alive client of C13; the C19 unit part is skipped.
func VerifWrapError(err error, failure string) error {
	if err == nil {
		return nil
	}
	return fmt.Errorf("%s: %w", failure, err)
}
func VerifWrapErrorf(err error, format string, a ...interface{}) error {
	return VerifWrapError(err, fmt.Sprintf(format, a...))
}
func VerifWrapErrorWithRetry(err error, failure string) error { return VerifWrapError(err, failure) }
func VerifNewRequestTimeoutError(err error) error             { return VerifWrapError(err, "request timeout") }
