//go:build verif

package mqtt

// Stub used when the white-box wrapper group of the same file name does not compile against the
// tree under check.

const VerifHasSubs = false

func VerifApplySubs(calls [][]Subscription, unsub [][]string, order []bool) []Subscription {
	panic("verif: subscription-list wrappers unavailable")
}
