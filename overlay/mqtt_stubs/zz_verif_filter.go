//go:build verif

package mqtt

// Stub used when the white-box wrapper group of the same file name does not compile against the
// tree under check.

const VerifHasFilter = false

func VerifNewTopicFilter(filter string) ([]string, error) {
	panic("verif: filter wrappers unavailable")
}
func VerifFilterMatch(filter []string, topic string) bool {
	panic("verif: filter wrappers unavailable")
}
