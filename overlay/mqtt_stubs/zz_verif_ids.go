//go:build verif

package mqtt

// Stub used when the white-box wrapper group of the same file name does not compile against the
// tree under check.

const VerifHasIDs = false

func VerifSetIDLast(c *BaseClient, v uint32) { panic("verif: identifier wrappers unavailable") }
func VerifNewID(c *BaseClient) uint16        { panic("verif: identifier wrappers unavailable") }
